"""Arithmetic kernels of string-literal decoding (C09): hexadecimal digits and surrogate pairs, over UTF-8 code units."""
from spec.prims import *  # noqa: F401,F403


def hex_digit_val(b: int) -> int:
    """value of an ASCII hexadecimal digit given as a code unit, -1 for anything else"""
    if b >= 48 and b <= 57:
        return b - 48
    if b >= 65 and b <= 70:
        return b - 55
    if b >= 97 and b <= 102:
        return b - 87
    return -1


def hex_val(bs: list, k: int) -> int:
    """the number written by the first k units, most significant digit first"""
    if k <= 0:
        return 0
    return hex_val(bs, k - 1) * 16 + hex_digit_val(int_of(bs[k - 1]))


def all_hex(bs: list, k: int) -> bool:
    return all(hex_digit_val(int_of(bs[j])) >= 0 for j in range(k))


def pair_value(hi: int, lo: int) -> int:
    """RFC 9535 2.3.1.2 / Unicode: the scalar value of a surrogate pair"""
    return 65536 + (hi - 55296) * 1024 + (lo - 56320)


# ---- escape sequences: value[i] is the character after a backslash -------------------------------------------
def esc_u1(value: str, i: int) -> list:
    return utf8(value[i + 1:i + 5])


def esc_u2(value: str, i: int) -> list:
    return utf8(value[i + 7:i + 11])


def esc_cp1(value: str, i: int) -> int:
    return hex_val(esc_u1(value, i), len(esc_u1(value, i)))


def esc_cp2(value: str, i: int) -> int:
    return hex_val(esc_u2(value, i), len(esc_u2(value, i)))


def is_high(cp: int) -> bool:
    return cp >= 55296 and cp <= 56319


def is_low(cp: int) -> bool:
    return cp >= 56320 and cp <= 57343


def hex_bad(value: str, i: int) -> bool:
    """the \\uXXXX escape whose 'u' is value[i] is malformed: too short, not hexadecimal, a lone low surrogate, or a high
    surrogate that is not followed by an escaped low surrogate"""
    return (i + 4 >= len(value) or not all_hex(esc_u1(value, i), len(esc_u1(value, i))) or is_low(esc_cp1(value, i))
            or (is_high(esc_cp1(value, i))
                and (not (i + 10 < len(value) and value[i + 5] == "\\" and value[i + 6] == "u")
                     or not all_hex(esc_u2(value, i), len(esc_u2(value, i))) or not is_low(esc_cp2(value, i)))))


def esc_simple(c: str) -> bool:
    return c == '"' or c == "\\" or c == "/" or c == "b" or c == "f" or c == "n" or c == "r" or c == "t"


def esc_bad(value: str, i: int) -> bool:
    return not (esc_simple(value[i]) or value[i] == "u") or (value[i] == "u" and hex_bad(value, i))


def esc_char(value: str, i: int) -> str:
    """the character an escape sequence denotes (RFC 9535 2.3.1.2, table 4)"""
    if value[i] == "b":
        return "\x08"
    if value[i] == "f":
        return "\x0c"
    if value[i] == "n":
        return "\n"
    if value[i] == "r":
        return "\r"
    if value[i] == "t":
        return "\t"
    if value[i] == "u":
        if is_high(esc_cp1(value, i)):
            return char(pair_value(esc_cp1(value, i), esc_cp2(value, i)))
        return char(esc_cp1(value, i))
    return value[i]


def esc_end(value: str, i: int) -> int:
    """position of the last character of the escape sequence"""
    if value[i] == "u":
        if is_high(esc_cp1(value, i)):
            return i + 10
        return i + 4
    return i


# ---- a whole literal body ---------------------------------------------------------------------------------
def dec_bad(value: str, i: int) -> bool:
    """decoding value[i:] fails: a raw control character, a backslash at the very end, or a malformed escape"""
    if i >= len(value):
        return False
    if value[i] == "\\":
        if i + 1 >= len(value):
            return True
        if esc_bad(value, i + 1):
            return True
        return dec_bad(value, esc_end(value, i + 1) + 1)
    if codepoint(value[i]) <= 31:
        return True
    return dec_bad(value, i + 1)


def dec_from(value: str, i: int) -> list:
    """the characters value[i:] denotes, one list element per character"""
    if i >= len(value):
        return []
    if value[i] == "\\":
        return [esc_char(value, i + 1)] + dec_from(value, esc_end(value, i + 1) + 1)
    return [value[i]] + dec_from(value, i + 1)


def dec_dangling(value: str, i: int) -> bool:
    """decoding value[i:] runs into a backslash that is the last character (the lexer never produces such a token text:
    a backslash always takes the character after it)"""
    if i >= len(value):
        return False
    if value[i] == "\\":
        if i + 1 >= len(value):
            return True
        if esc_bad(value, i + 1):
            return False
        return dec_dangling(value, esc_end(value, i + 1) + 1)
    if codepoint(value[i]) <= 31:
        return False
    return dec_dangling(value, i + 1)


# ---- I-Regexp to regex-engine dialect (function_extensions/_pattern.py, C11) ----------------------------------------
def mre_esc(p: str, k: int) -> bool:
    """after the first k characters: the next character is escaped (an odd run of backslashes precedes it)"""
    if k <= 0:
        return False
    if mre_esc(p, k - 1):
        return False
    return p[k - 1] == "\\"


def mre_cls(p: str, k: int) -> bool:
    """after the first k characters: inside a character class (an unescaped '[' not yet closed by an unescaped ']')"""
    if k <= 0:
        return False
    if mre_esc(p, k - 1):
        return mre_cls(p, k - 1)
    if p[k - 1] == "[":
        return True
    if p[k - 1] == "]":
        return False
    return mre_cls(p, k - 1)


def mre_parts(p: str, k: int) -> list:
    """translation of the first k characters, one piece per character: an unescaped '.' outside a character class becomes the
    expression for "any character but CR and LF" (RFC 9485 section 5.3, surrogate-pair aware), everything else is copied"""
    if k <= 0:
        return []
    if not mre_esc(p, k - 1) and p[k - 1] == "." and not mre_cls(p, k - 1):
        return mre_parts(p, k - 1) + ["(?:(?![\\r\\n])\\P{Cs}|\\p{Cs}\\p{Cs})"]
    return mre_parts(p, k - 1) + [p[k - 1]]


def mapped_pattern(p: str) -> str:
    """the pattern handed to the regex engine for the I-Regexp p"""
    return "".join(mre_parts(p, len(p)))


# ---- normalized paths (node.py, C08) ---------------------------------------------------------------------------------
def path_piece(p: V) -> str:
    """one step of a normalized path (RFC 9535 2.7): ['name'] with the canonical spelling of the name, or [index]"""
    if is_str(p):
        return "[" + canonical(str_of(p)) + "]"
    return "[" + int_str(int_of(p)) + "]"


def map_path_piece(loc: list, k: int) -> list:
    """the steps of the first k location components"""
    if k <= 0:
        return []
    return map_path_piece(loc, k - 1) + [path_piece(loc[k - 1])]
