"""Native implementations of the spec primitives (pyvc has symbolic counterparts with the same names).
Pure stdlib + the package under test."""
import jsonpath_rfc9535 as _jp
from jsonpath_rfc9535.filter_expressions import Nothing as _Nothing
from jsonpath_rfc9535.filter_expressions import FilterContext as _FilterContext

V = object
NOTHING = _jp.NOTHING


class Node:
    """abstract node: value, location (tuple), root -- compared field-wise by same()"""
    __slots__ = ("value", "location", "root")

    def __init__(self, value, location, root):
        self.value, self.location, self.root = value, tuple(location), root

    def __repr__(self):
        return f"Node({self.value!r}, {self.location!r})"


def as_node(n):
    return Node(n.value, n.location, n.root) if isinstance(n, _jp.JSONPathNode) else n


def NodeList(s):
    return _jp.JSONPathNodeList(s)


def Ctx(env, current, root):
    return _FilterContext(env=env, current=current, root=root)


def mk_list(s):
    return list(s)


def mk_tuple(s):
    return tuple(s)


def is_none(v): return v is None
def is_bool(v): return isinstance(v, bool)
def is_int(v): return isinstance(v, int) and not isinstance(v, bool)
def is_float(v): return isinstance(v, float)
def is_num(v): return isinstance(v, (int, float)) and not isinstance(v, bool)
def is_str(v): return isinstance(v, str)
def is_arr(v): return isinstance(v, list) and not isinstance(v, _jp.JSONPathNodeList)
def is_obj(v): return isinstance(v, dict)
def is_container(v): return is_arr(v) or is_obj(v)
def is_nothing(v): return isinstance(v, _Nothing)
def is_nodelist(v): return isinstance(v, _jp.JSONPathNodeList)
def is_tuple(v): return isinstance(v, tuple)
def is_pattern(v): return isinstance(v, __import__('re').Pattern)
def nkeys(d): return len(d)
def prog_at(lo, step, j): return lo + j * step
def prog_len(lo, hi, step): return len(range(lo, hi, step))
def nvals(d): return len(d)
def is_slice(v): return isinstance(v, slice)
def key_at(d, j): return list(d.keys())[j]
def val_at(d, j): return list(d.values())[j]
def has_key(d, k): return k in d
def get(d, k): return d[k]
def num(v): return v
def int_of(v): return v
def str_of(v): return v
def seq(x): return list(x)
def implies(a, b): return (not a) or b
def iff(a, b): return bool(a) == bool(b)
def old(x): return x
def truthy(x): return bool(x)


def same(a, b):
    """strict structural equality of mathematical values (no bool/int/float conflation)"""
    if isinstance(a, _jp.JSONPathNode):
        a = as_node(a)
    if isinstance(b, _jp.JSONPathNode):
        b = as_node(b)
    if isinstance(a, Node) or isinstance(b, Node):
        return (isinstance(a, Node) and isinstance(b, Node) and same(a.value, b.value)
                and same(a.location, b.location) and same(a.root, b.root))
    if isinstance(a, (list, tuple)) or isinstance(b, (list, tuple)):
        if is_nodelist(a) != is_nodelist(b) or isinstance(a, tuple) != isinstance(b, tuple):
            return False
        return (isinstance(a, (list, tuple)) and isinstance(b, (list, tuple)) and len(a) == len(b)
                and all(same(x, y) for x, y in zip(a, b)))
    if isinstance(a, dict) or isinstance(b, dict):
        return (isinstance(a, dict) and isinstance(b, dict) and list(a.keys()) == list(b.keys())
                and all(same(a[k], b[k]) for k in a))
    if type(a) is not type(b):
        return False
    if isinstance(a, float):
        return a == b
    if isinstance(a, (int, str, bool)) or a is None:
        return a == b
    return a is b or a == b


# ---- names the spec functions use natively ---------------------------------------------------
from jsonpath_rfc9535 import JSONPathEnvironment, JSONPathError, JSONPathNode, JSONPathQuery  # noqa: E402
from jsonpath_rfc9535.filter_expressions import (  # noqa: E402
    BooleanLiteral, ComparisonExpression, Expression, FilterContext, FilterExpression, FilterExpressionLiteral,
    FilterQuery, FloatLiteral, FunctionExtension, IntegerLiteral, LogicalExpression, NullLiteral, PrefixExpression,
    RelativeFilterQuery, RootFilterQuery, StringLiteral)
from jsonpath_rfc9535.function_extensions import Count, ExpressionType, FilterFunction, Length, Match, Search, Value  # noqa: E402
from jsonpath_rfc9535.segments import JSONPathChildSegment, JSONPathRecursiveDescentSegment, JSONPathSegment  # noqa: E402
from jsonpath_rfc9535.selectors import (  # noqa: E402
    FilterSelector, IndexSelector, JSONPathSelector, NameSelector, SliceSelector, WildcardSelector)
from jsonpath_rfc9535.tokens import Token, TokenStream, TokenType  # noqa: E402
from jsonpath_rfc9535.lex import Lexer  # noqa: E402


def is_gen(x): return hasattr(x, "__next__")
def is_enum(x): return isinstance(x, ExpressionType)
def is_exc(x): return isinstance(x, BaseException)
def is_userfunc(x): return isinstance(x, FilterFunction) and type(x) not in (Length, Count, Value, Match, Search)
def pending(x): return None
def raised(x): return False
def exc_is(e, cls): return isinstance(e, cls)
def float_of(v): return v
def enum_ord(v): return list(type(v)).index(v)
def py_equal(a, b): return a == b
def is_pynum(v): return isinstance(v, (int, float))
def is_pylist(v): return isinstance(v, list)
def is_pyobject(v): return not isinstance(v, (type(None), bool, int, float, str, list, dict, tuple, _Nothing, ExpressionType))
def obj_eq(a, b): return a == b
def slice_parts(s): return (s.start, s.stop, s.step)
def ucall(func, args): return func(*args)


def regex_fullmatch(p, s):
    import regex
    from jsonpath_rfc9535.function_extensions._pattern import map_re
    try:
        return bool(regex.fullmatch(map_re(p), s))
    except (TypeError, regex.error):
        return False


def regex_search(p, s):
    import regex
    from jsonpath_rfc9535.function_extensions._pattern import map_re
    try:
        return bool(regex.search(map_re(p), s))
    except (TypeError, regex.error):
        return False


def iregexp_ok(p):
    from iregexp_check import check
    return check(p)


def str_count(s, sub, a, b): return s.count(sub, a, b)
def str_rfind(s, sub, a, b): return s.rfind(sub, a, b)
def char(i): return chr(i)
def codepoint(s): return ord(s)
def int_str(i): return str(i)
def int_text_ok(s):
    try:
        int(s)
        return True
    except ValueError:
        return False
def utf8(s): return list(s.encode('utf-8', 'surrogatepass'))
def exc_message(e): return Exception.__str__(e)
def func_id(f): return id(f)


def canonical(s):
    from jsonpath_rfc9535.serialize import canonical_string
    return canonical_string(s)
