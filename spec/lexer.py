"""Representation invariant of the lexer (C19): the cursor stays inside the query text and every token produced so far
carries an offset inside that text and the text itself."""
from spec.prims import *  # noqa: F401,F403


def tok_ok(t: V, q: V) -> bool:
    """a token of query text q: its offset is a position of q (0..len) and it remembers q"""
    return isinstance(t, Token) and is_int(t.index) and 0 <= t.index and t.index <= len(q) and t.query == q


def toks_ok(ts: list, q: V) -> bool:
    return all(tok_ok(t, q) for t in ts)


def lex_inv(l: V) -> bool:
    return (isinstance(l, Lexer) and is_str(l.query) and is_int(l.start) and is_int(l.pos)
            and 0 <= l.start and l.start <= l.pos and l.pos <= len(l.query)
            and is_arr(l.tokens) and toks_ok(seq(l.tokens), l.query))


def lex_rest_same(a: V, b: V) -> bool:
    """frame: everything but the cursor and the token list is unchanged"""
    return (a.query == b.query and a.filter_depth == b.filter_depth and a.func_call_stack == b.func_call_stack
            and a.bracket_stack == b.bracket_stack)


def toks_extended(a: V, b: V) -> bool:
    """the token list of a is that of b plus one token at the end"""
    return (len(a.tokens) == len(b.tokens) + 1
            and all(seq(a.tokens)[j] == seq(b.tokens)[j] for j in range(len(b.tokens))))


def lex_stacks_ok(l: V) -> bool:
    """shape of the bookkeeping the state functions keep next to the cursor: a filter nesting count, a stack of parenthesis
    counts (one per open function call) and a stack of (opening bracket, offset) pairs, each offset a position of a
    character of the query"""
    return (is_int(l.filter_depth) and is_arr(l.func_call_stack) and all(is_int(n) for n in seq(l.func_call_stack))
            and is_arr(l.bracket_stack)
            and all(is_tuple(e) and len(e) == 2 and is_str(seq(e)[0]) and is_int(seq(e)[1])
                    and 0 <= int_of(seq(e)[1]) and int_of(seq(e)[1]) < len(l.query) for e in seq(l.bracket_stack)))
