"""RFC 9535 sections 2.3-2.5: selectors and segments as executable spec functions.

Written from the RFC text / the property statements, not from the code. Dual use: translated
mechanically to SMT by pyvc (recursive ones as uninterpreted functions + ground unfolding) and
executed natively (with spec/prims.py) by the bounded stand-in and by counterexample replay.
Convention: list-valued functions over a sequence are prefix recursions in their last
parameter `k` (the first k items considered).
"""
from spec.prims import *  # noqa: F403  (native execution only; pyvc resolves these names itself)


def child(node: V, key: V, value: V) -> V:
    """the child node of `node` under member name / element index `key`"""
    return Node(value, mk_tuple(seq(node.location) + [key]), node.root)


# ---- name selector (2.3.1) -------------------------------------------------
def sel_name(node: V, name: str) -> list:
    if is_obj(node.value) and has_key(node.value, name):
        return [child(node, name, get(node.value, name))]
    return []


# ---- index selector (2.3.3) ------------------------------------------------
def norm_index(i: int, n: int) -> int:
    if i >= 0:
        return i
    return n + i


def sel_index(node: V, i: int) -> list:
    if is_arr(node.value) and 0 <= norm_index(i, len(node.value)) and norm_index(i, len(node.value)) < len(node.value):
        return [child(node, norm_index(i, len(node.value)), seq(node.value)[norm_index(i, len(node.value))])]
    return []


# ---- slice selector (2.3.4): Normalize / Bounds verbatim -------------------
def rfc_normalize(i: int, n: int) -> int:
    if i >= 0:
        return i
    return n + i


def rfc_lower(start: V, end: V, step: int, n: int) -> int:
    """`lower` of RFC 9535 2.3.4.2.2 Bounds(), with the defaults of Table 8 for omitted parts"""
    if step >= 0:
        return min(max(rfc_normalize(slice_start(start, step, n), n), 0), n)
    return min(max(rfc_normalize(slice_end(end, step, n), n), -1), n - 1)


def rfc_upper(start: V, end: V, step: int, n: int) -> int:
    if step >= 0:
        return min(max(rfc_normalize(slice_end(end, step, n), n), 0), n)
    return min(max(rfc_normalize(slice_start(start, step, n), n), -1), n - 1)


def slice_start(start: V, step: int, n: int) -> int:
    if is_none(start):
        if step >= 0:
            return 0
        return n - 1
    return int_of(start)


def slice_end(end: V, step: int, n: int) -> int:
    if is_none(end):
        if step >= 0:
            return n
        return 0 - n - 1
    return int_of(end)


def slice_step(step: V) -> int:
    if is_none(step):
        return 1
    return int_of(step)


def slice_count(start: V, end: V, step: int, n: int) -> int:
    """how many times the RFC's loop runs: `i = lower; while i < upper: i += step` for step > 0,
    `i = upper; while lower < i: i += step` for step < 0 (prog_len = length of that progression)"""
    if step > 0:
        return prog_len(rfc_lower(start, end, step, n), rfc_upper(start, end, step, n), step)
    if step < 0:
        return prog_len(rfc_upper(start, end, step, n), rfc_lower(start, end, step, n), step)
    return 0


def slice_index_at(start: V, end: V, step: int, n: int, j: int) -> int:
    """the j-th index the RFC's loop visits: i = lower, i += step  /  i = upper, i += step"""
    if step > 0:
        return prog_at(rfc_lower(start, end, step, n), step, j)
    return prog_at(rfc_upper(start, end, step, n), step, j)


def slice_prefix(node: V, start: V, end: V, step: int, k: int) -> list:
    if k <= 0:
        return []
    return slice_prefix(node, start, end, step, k - 1) + [
        child(node, slice_index_at(start, end, step, len(node.value), k - 1),
              seq(node.value)[slice_index_at(start, end, step, len(node.value), k - 1)])]


def sel_slice(node: V, start: V, end: V, step: V) -> list:
    if is_arr(node.value) and slice_step(step) != 0:
        return slice_prefix(node, start, end, slice_step(step),
                            slice_count(start, end, slice_step(step), len(node.value)))
    return []


# ---- wildcard selector (2.3.2) ---------------------------------------------
def nkids(v: V) -> int:
    if is_obj(v):
        return nkeys(v)
    if is_arr(v):
        return len(v)
    return 0


def kid_key(v: V, j: int) -> V:
    if is_obj(v):
        return key_at(v, j)
    return j


def kid_val(v: V, j: int) -> V:
    if is_obj(v):
        return val_at(v, j)
    return seq(v)[j]


def kid(node: V, j: int) -> V:
    return child(node, kid_key(node.value, j), kid_val(node.value, j))


def wild_prefix(node: V, k: int) -> list:
    if k <= 0:
        return []
    return wild_prefix(node, k - 1) + [kid(node, k - 1)]


def sel_wild(node: V) -> list:
    return wild_prefix(node, nkids(node.value))


# ---- well-formedness of compiled objects (established by the parser; checked bounded) ----
def opt_int(v: V) -> bool:
    return is_none(v) or is_int(v)


def wf_slice(s: V) -> bool:
    return is_slice(s) and opt_int(s.start) and opt_int(s.stop) and opt_int(s.step)


def is_json(v: V) -> bool:
    """A1: a JSON-like value as json.load gives: finite tree of dict (distinct str keys) / list / scalars"""
    if is_arr(v):
        return all(is_json(x) for x in seq(v))
    if is_obj(v):
        return (nkeys(v) == nvals(v)
                and all(is_json(val_at(v, j)) for j in range(nkeys(v)))
                and all(implies(key_at(v, a) == key_at(v, b), a == b) for a in range(nkeys(v)) for b in range(nkeys(v))))
    return is_none(v) or is_bool(v) or is_int(v) or is_float(v) or is_str(v)


def wf_node(n: V) -> bool:
    return isinstance(n, JSONPathNode) and is_tuple(n.location) and is_json(n.value)
