"""RFC 9535 sections 2.3-2.5: selectors and segments as executable spec functions.

Written from the RFC text / the property statements, not from the code. Dual use: translated
mechanically to SMT by pyvc (recursive ones as uninterpreted functions + ground unfolding) and
executed natively (with spec/prims.py) by the bounded stand-in and by counterexample replay.
Convention: list-valued functions over a sequence are prefix recursions in their last
parameter `k` (the first k items considered).
"""
from spec.prims import *  # noqa: F403  (native execution only; pyvc resolves these names itself)


def child(node: V, key: V, value: V) -> V:
    """the child node of `node` under member name / element index `key`"""
    return Node(value, mk_tuple(seq(node.location) + [key]), node.root)


# ---- name selector (2.3.1) -------------------------------------------------
def sel_name(node: V, name: str) -> list:
    if is_obj(node.value) and has_key(node.value, name):
        return [child(node, name, get(node.value, name))]
    return []


# ---- index selector (2.3.3) ------------------------------------------------
def norm_index(i: int, n: int) -> int:
    if i >= 0:
        return i
    return n + i


def sel_index(node: V, i: int) -> list:
    if is_arr(node.value) and 0 <= norm_index(i, len(node.value)) and norm_index(i, len(node.value)) < len(node.value):
        return [child(node, norm_index(i, len(node.value)), seq(node.value)[norm_index(i, len(node.value))])]
    return []


# ---- slice selector (2.3.4): Normalize / Bounds verbatim -------------------
def rfc_normalize(i: int, n: int) -> int:
    if i >= 0:
        return i
    return n + i


def rfc_lower(start: V, end: V, step: int, n: int) -> int:
    """`lower` of RFC 9535 2.3.4.2.2 Bounds(), with the defaults of Table 8 for omitted parts"""
    if step >= 0:
        return min(max(rfc_normalize(slice_start(start, step, n), n), 0), n)
    return min(max(rfc_normalize(slice_end(end, step, n), n), -1), n - 1)


def rfc_upper(start: V, end: V, step: int, n: int) -> int:
    if step >= 0:
        return min(max(rfc_normalize(slice_end(end, step, n), n), 0), n)
    return min(max(rfc_normalize(slice_start(start, step, n), n), -1), n - 1)


def slice_start(start: V, step: int, n: int) -> int:
    if is_none(start):
        if step >= 0:
            return 0
        return n - 1
    return int_of(start)


def slice_end(end: V, step: int, n: int) -> int:
    if is_none(end):
        if step >= 0:
            return n
        return 0 - n - 1
    return int_of(end)


def slice_step(step: V) -> int:
    if is_none(step):
        return 1
    return int_of(step)


def slice_count(start: V, end: V, step: int, n: int) -> int:
    """how many times the RFC's loop runs: `i = lower; while i < upper: i += step` for step > 0,
    `i = upper; while lower < i: i += step` for step < 0 (prog_len = length of that progression)"""
    if step > 0:
        return prog_len(rfc_lower(start, end, step, n), rfc_upper(start, end, step, n), step)
    if step < 0:
        return prog_len(rfc_upper(start, end, step, n), rfc_lower(start, end, step, n), step)
    return 0


def slice_index_at(start: V, end: V, step: int, n: int, j: int) -> int:
    """the j-th index the RFC's loop visits: i = lower, i += step  /  i = upper, i += step"""
    if step > 0:
        return prog_at(rfc_lower(start, end, step, n), step, j)
    return prog_at(rfc_upper(start, end, step, n), step, j)


def slice_prefix(node: V, start: V, end: V, step: int, k: int) -> list:
    if k <= 0:
        return []
    return slice_prefix(node, start, end, step, k - 1) + [
        child(node, slice_index_at(start, end, step, len(node.value), k - 1),
              seq(node.value)[slice_index_at(start, end, step, len(node.value), k - 1)])]


def sel_slice(node: V, start: V, end: V, step: V) -> list:
    if is_arr(node.value) and slice_step(step) != 0:
        return slice_prefix(node, start, end, slice_step(step),
                            slice_count(start, end, slice_step(step), len(node.value)))
    return []


# ---- wildcard selector (2.3.2) ---------------------------------------------
def nkids(v: V) -> int:
    if is_obj(v):
        return nkeys(v)
    if is_arr(v):
        return len(v)
    return 0


def kid_key(v: V, j: int) -> V:
    if is_obj(v):
        return key_at(v, j)
    return j


def kid_val(v: V, j: int) -> V:
    if is_obj(v):
        return val_at(v, j)
    return seq(v)[j]


def kid(node: V, j: int) -> V:
    return child(node, kid_key(node.value, j), kid_val(node.value, j))


def wild_prefix(node: V, k: int) -> list:
    if k <= 0:
        return []
    return wild_prefix(node, k - 1) + [kid(node, k - 1)]


def sel_wild(node: V) -> list:
    return wild_prefix(node, nkids(node.value))


# ---- well-formedness of compiled objects (established by the parser; checked bounded) ----
def opt_int(v: V) -> bool:
    return is_none(v) or is_int(v)


def wf_slice(s: V) -> bool:
    return is_slice(s) and opt_int(s.start) and opt_int(s.stop) and opt_int(s.step)


def is_json(v: V) -> bool:
    """opaque: A1: a JSON-like value as json.load gives: finite tree of dict (distinct str keys) / list / scalars"""
    if is_arr(v):
        return all(is_json(x) for x in seq(v))
    if is_obj(v):
        return (nkeys(v) == nvals(v)
                and all(is_json(val_at(v, j)) for j in range(nkeys(v)))
                and all(implies(key_at(v, a) == key_at(v, b), a == b) for a in range(nkeys(v)) for b in range(nkeys(v))))
    return is_none(v) or is_bool(v) or is_int(v) or is_float(v) or is_str(v)


def wf_node(n: V) -> bool:
    return isinstance(n, JSONPathNode) and is_tuple(n.location) and is_json(n.value) and is_json(n.root)


# ---- filter selector (2.3.5): children whose filter expression is true ------
def filter_prefix(expr: V, env: V, node: V, k: int) -> list:
    if k <= 0:
        return []
    if truth(expr, Ctx(env, kid_val(node.value, k - 1), node.root)):
        return filter_prefix(expr, env, node, k - 1) + [kid(node, k - 1)]
    return filter_prefix(expr, env, node, k - 1)


def sel_filter(expr: V, env: V, node: V) -> list:
    return filter_prefix(expr, env, node, nkids(node.value))


# ---- selector dispatch ------------------------------------------------------
def select(sel: V, node: V) -> list:
    if isinstance(sel, NameSelector):
        return sel_name(node, str_of(sel.name))
    if isinstance(sel, IndexSelector):
        return sel_index(node, int_of(sel.index))
    if isinstance(sel, SliceSelector):
        return sel_slice(node, sel.slice.start, sel.slice.stop, sel.slice.step)
    if isinstance(sel, WildcardSelector):
        return sel_wild(node)
    if isinstance(sel, FilterSelector):
        return sel_filter(sel.expression, sel.env, node)
    return []


# ---- child segment (2.5.1): per input node, selectors in order, concatenated ----
def flat_sel(selectors: list, node: V, k: int) -> list:
    if k <= 0:
        return []
    return flat_sel(selectors, node, k - 1) + select(selectors[k - 1], node)


def child_seg(selectors: list, nodes: list, k: int) -> list:
    if k <= 0:
        return []
    return child_seg(selectors, nodes, k - 1) + flat_sel(selectors, nodes[k - 1], len(selectors))


# ---- descendant segment (2.5.2): node and its descendants in document pre-order ----
def preorder(node: V) -> list:
    return [node] + pre_kids(node, nkids(node.value))


def pre_kids(node: V, k: int) -> list:
    """pre-order visit of the first k children of node that are containers (scalars have no descendants
    and are reached by the selectors applied to their parent)"""
    if k <= 0:
        return []
    if is_container(kid_val(node.value, k - 1)):
        return pre_kids(node, k - 1) + preorder(kid(node, k - 1))
    return pre_kids(node, k - 1)


def desc_seg(selectors: list, nodes: list, k: int) -> list:
    if k <= 0:
        return []
    return desc_seg(selectors, nodes, k - 1) + child_seg(selectors, preorder(nodes[k - 1]), len(preorder(nodes[k - 1])))


# ---- a query: segments applied left to right ---------------------------------
def apply_segment(seg: V, nodes: list) -> list:
    if isinstance(seg, JSONPathRecursiveDescentSegment):
        return desc_seg(seq(seg.selectors), nodes, len(nodes))
    return child_seg(seq(seg.selectors), nodes, len(nodes))


def apply_segments(segments: list, nodes: list, k: int) -> list:
    if k <= 0:
        return nodes
    return apply_segment(segments[k - 1], apply_segments(segments, nodes, k - 1))


def root_node(value: V) -> V:
    return Node(value, mk_tuple([]), value)


def query_nodes(segments: list, value: V) -> list:
    return apply_segments(segments, [root_node(value)], len(segments))


# ---- container nesting depth (C18) --------------------------------------------
def cdepth(v: V) -> int:
    """number of nested containers on the deepest branch: scalars 0, [] and {} 1, [[]] 2"""
    if is_container(v):
        return 1 + mx_kids(v, nkids(v))
    return 0


def mx_kids(v: V, k: int) -> int:
    if k <= 0:
        return 0
    return max(mx_kids(v, k - 1), cdepth(kid_val(v, k - 1)))


# ---- well-formedness of compiled objects --------------------------------------
# (what the parser establishes; `wf_query(compile(q), env)` is checked by the bounded Layer-P run)
def wf_env(env: V) -> bool:
    """opaque: an environment: integer limits, a registry of typed functions"""
    return (isinstance(env, JSONPathEnvironment) and is_int(env.max_recursion_depth)
            and is_int(env.min_int_index) and is_int(env.max_int_index) and wf_registry(env.function_extensions))


def wf_selector(sel: V, env: V) -> bool:
    """opaque: a selector as the parser builds it, bound (with everything nested in it) to env"""
    if isinstance(sel, NameSelector):
        return is_str(sel.name) and sel.env == env
    if isinstance(sel, IndexSelector):
        return is_int(sel.index) and sel.env == env
    if isinstance(sel, SliceSelector):
        return wf_slice(sel.slice) and sel.env == env
    if isinstance(sel, WildcardSelector):
        return sel.env == env
    if isinstance(sel, FilterSelector):
        return sel.env == env and isinstance(sel.expression, FilterExpression) and wf_expr(sel.expression, env)
    return False


def wf_segment(seg: V, env: V) -> bool:
    """opaque: a segment: a tuple of selectors, all bound to env"""
    return (isinstance(seg, JSONPathSegment) and seg.env == env and is_tuple(seg.selectors)
            and all(isinstance(s, JSONPathSelector) and s.env == env and wf_selector(s, env) for s in seq(seg.selectors)))


def wf_query(q: V, env: V) -> bool:
    """opaque: a compiled query: a tuple of segments, all bound to env"""
    return (isinstance(q, JSONPathQuery) and q.env == env and is_tuple(q.segments)
            and all(isinstance(s, JSONPathSegment) and s.env == env and wf_segment(s, env) for s in seq(q.segments)))


def det(env: V) -> bool:
    """deterministic mode (the default): the environment's nondeterministic flag is off"""
    return not truthy(env.nondeterministic)


# ---- iterables of nodes handed from segment to segment -----------------------------------
def is_nodes(x: V) -> bool:
    return is_arr(x) or is_nodelist(x) or is_gen(x)


def no_pending(x: V) -> bool:
    """the iterable is exhausted without raising"""
    return not is_gen(x) or is_none(pending(x))


def pending_ok(x: V) -> bool:
    return no_pending(x) or exc_is(pending(x), JSONPathError)


def wf_nodes(x: V) -> bool:
    return is_nodes(x) and pending_ok(x) and all_wf_nodes(seq(x))


def all_wf_nodes(nodes: list) -> bool:
    return all(wf_node(n) for n in nodes)


# ---- error positions (C19) ---------------------------------------------------------------
def line_col(text: str, offset: int) -> V:
    """(line, column) of an offset: lines are separated by LF, columns count from 0"""
    return mk_tuple([str_count(text, "\n", 0, offset) + 1, offset - str_rfind(text, "\n", 0, offset) - 1])
