"""Predicates for the expression parser (parse.py, C05): what the token stream offers and what every parsed expression is."""
from spec.prims import *  # noqa: F401,F403


def is_tok(t: V) -> bool:
    """a token as the lexer makes them"""
    return (isinstance(t, Token) and is_str(t.value) and isinstance(t.type_, TokenType) and is_int(t.index) and is_str(t.query)
            and tok_text_ok(t))


def tok_text_ok(t: V) -> bool:
    """opaque: what the parser relies on about token TEXTS, guaranteed by the lexer's regular expressions: a string token never ends
    in a lone backslash (the string state always takes the character after a backslash) and the text of an INDEX token is an
    integer literal that int() accepts (RE_INDEX); only the functions that decode such texts look inside"""
    return not dec_dangling(str_body(t), 0) and implies(t.type_ == TokenType.INDEX, int_text_ok(str_of(t.value)))


def str_body(t: V) -> str:
    """the text of a string token in the double-quoted spelling the decoder works on"""
    if t.type_ == TokenType.SINGLE_QUOTE_STRING:
        return str_of(t.value).replace('"', '\\"').replace("\\'", "'")
    return str_of(t.value)


def ts_inv(s: V) -> bool:
    """the only thing the parser's typing logic needs from the stream: there always is a current token"""
    return isinstance(s, TokenStream) and is_tok(s.current) and is_arr(s._pushed)


def parsed_expr(e: V, env: V) -> bool:
    """what every function of the expression parser returns: a well-formed, well-typed expression tree (wf_expr) that is not
    the wrapper of a whole filter selector; a function call names a registered function"""
    return (isinstance(e, Expression) and wf_expr(e, env) and not isinstance(e, FilterExpression)
            and implies(isinstance(e, FunctionExtension), has_key(env.function_extensions, str_of(e.name))))


def ts_next(s: V) -> V:
    """opaque: the token that follows the current one -- whatever the stream holds (never revealed: an unknown function of
    the stream state, which links `peek` to what `next_token` makes current)"""
    return s.peek


def is_binop(t: V) -> bool:
    """the token types of BINARY_OPERATORS"""
    return (t == TokenType.AND or t == TokenType.EQ or t == TokenType.GE or t == TokenType.GT or t == TokenType.LE
            or t == TokenType.LT or t == TokenType.NE or t == TokenType.OR)


def wf_selectors(sels: list, env: V) -> bool:
    return all(isinstance(x, JSONPathSelector) and x.env == env and wf_selector(x, env) for x in sels)
