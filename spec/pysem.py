"""Python semantics used by the builtin table (trusted, A2/A4): `==` on JSON-like values,
Nothing and nodelists.  Executable, so the bounded run cross-checks it against CPython's `==`."""
from spec.prims import *  # noqa: F403


def py_eq(a: V, b: V) -> bool:
    """opaque: Python's a == b"""
    if is_nothing(a):
        return is_nothing(b) or (is_nodelist(b) and len(b) == 0)
    if is_nothing(b):
        return is_nodelist(a) and len(a) == 0
    if is_pynum(a) and is_pynum(b):
        return num(a) == num(b)
    if is_str(a) and is_str(b):
        return str_of(a) == str_of(b)
    if is_none(a) and is_none(b):
        return True
    if is_pylist(a) and is_pylist(b):
        return len(a) == len(b) and all(py_eq(seq(a)[j], seq(b)[j]) for j in range(len(a)))
    if is_obj(a) and is_obj(b):
        return nkeys(a) == nkeys(b) and all(
            has_key(b, key_at(a, j)) and py_eq(val_at(a, j), get(b, key_at(a, j))) for j in range(nkeys(a)))
    if is_enum(a) and is_enum(b):
        return same(a, b)
    if is_pyobject(a) or is_pyobject(b):
        return obj_eq(a, b)
    return False
