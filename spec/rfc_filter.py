"""RFC 9535 section 2.3.5 (filter selector), 2.4 (function extensions): executable spec functions.

Taken from the RFC text and the property statements (C02, C05, C06, C10), not from the code.
"""
from spec.prims import *  # noqa: F403
from spec.rfc_select import *  # noqa: F403


# ---- comparison (2.3.5.2.2, Table 11) -----------------------------------------
def rfc_eq(a: V, b: V) -> bool:
    """equality of two JSON values: numbers by value, strings by code points, arrays element-wise,
    objects member-wise; never across kinds (true is not 1) at any depth"""
    if is_bool(a) or is_bool(b):
        return is_bool(a) and is_bool(b) and a == b
    if is_num(a) and is_num(b):
        return num(a) == num(b)
    if is_str(a) and is_str(b):
        return str_of(a) == str_of(b)
    if is_none(a) and is_none(b):
        return True
    if is_arr(a) and is_arr(b):
        return len(a) == len(b) and all(rfc_eq(seq(a)[j], seq(b)[j]) for j in range(len(a)))
    if is_obj(a) and is_obj(b):
        return nkeys(a) == nkeys(b) and all(
            has_key(b, key_at(a, j)) and rfc_eq(val_at(a, j), get(b, key_at(a, j))) for j in range(nkeys(a)))
    return False


def cmp_eq(a: V, b: V) -> bool:
    """== on comparands (a JSON value or Nothing)"""
    if is_nothing(a) or is_nothing(b):
        return is_nothing(a) and is_nothing(b)
    return rfc_eq(a, b)


def cmp_lt(a: V, b: V) -> bool:
    """< holds only between two numbers or between two strings"""
    if is_num(a) and is_num(b):
        return num(a) < num(b)
    if is_str(a) and is_str(b):
        return str_of(a) < str_of(b)
    return False


def rfc_compare(a: V, op: str, b: V) -> bool:
    """opaque: the six comparison operators in terms of == and < (Table 11)"""
    if op == "==":
        return cmp_eq(a, b)
    if op == "!=":
        return not cmp_eq(a, b)
    if op == "<":
        return cmp_lt(a, b)
    if op == ">":
        return cmp_lt(b, a)
    if op == "<=":
        return cmp_lt(a, b) or cmp_eq(a, b)
    if op == ">=":
        return cmp_lt(b, a) or cmp_eq(a, b)
    return False


def comparand(v: V) -> V:
    """what a comparison sees: the value of the single node of a singular query, Nothing for the
    empty nodelist, a literal or function result as it is"""
    if is_nodelist(v):
        if len(v) == 1:
            return seq(v)[0].value
        return NOTHING
    return v


def is_operand(v: V) -> bool:
    return is_json(v) or is_nothing(v)


# ---- test expressions: truth -----------------------------------------------------
def truth_of(v: V) -> bool:
    """a query used as a test is true iff it selects at least one node (whatever the node's value);
    a LogicalType result is its own truth"""
    if is_nodelist(v):
        return len(v) > 0
    if is_bool(v):
        return v == True  # noqa: E712
    return False


def truth(expr: V, ctx: V) -> bool:
    return truth_of(eval_expr(expr, ctx))


# ---- function extensions (2.4) ------------------------------------------------------
def rfc_length(v: V) -> V:
    if is_str(v):
        return len(v)
    if is_arr(v):
        return len(v)
    if is_obj(v):
        return nkeys(v)
    return NOTHING


def rfc_value(nodes: V) -> V:
    if len(nodes) == 1:
        return seq(nodes)[0].value
    return NOTHING


def rfc_match(s: V, p: V) -> V:
    if is_str(s) and is_str(p) and iregexp_ok(str_of(p)):
        return regex_fullmatch(str_of(p), s)
    return False


def rfc_search(s: V, p: V) -> V:
    if is_str(s) and is_str(p) and iregexp_ok(str_of(p)):
        return regex_search(str_of(p), s)
    return False


def call_func(func: V, args: list) -> V:
    """opaque: what a call of a registered function returns: the RFC's definition for the built-ins, an
    uninterpreted result for user functions"""
    if isinstance(func, Length):
        return rfc_length(args[0])
    if isinstance(func, Count):
        return len(args[0])
    if isinstance(func, Value):
        return rfc_value(args[0])
    if isinstance(func, Match):
        return rfc_match(args[0], args[1])
    if isinstance(func, Search):
        return rfc_search(args[0], args[1])
    return ucall(func, args)


def call_ok(func: V, args: list) -> bool:
    """precondition of FilterFunction.__call__: arguments honour the declared parameter types"""
    return len(args) == len(func.arg_types) and all(
        arg_has_type(seq(func.arg_types)[j], args[j]) for j in range(len(args)))


def arg_has_type(typ: V, v: V) -> bool:
    if typ == ExpressionType.VALUE:
        return is_operand(v)
    if typ == ExpressionType.LOGICAL:
        return is_bool(v)
    return is_nodelist(v) and all_wf_nodes(seq(v))


def result_has_type(typ: V, v: V) -> bool:
    """A8: functions honour their declared result type"""
    if typ == ExpressionType.VALUE:
        return is_operand(v)
    if typ == ExpressionType.LOGICAL:
        return is_bool(v)
    return is_nodelist(v) and all_wf_nodes(seq(v))


def conv_arg(typ: V, v: V) -> V:
    """opaque: 2.4.2 type conversion of an evaluated argument to its declared parameter type"""
    if typ == ExpressionType.VALUE:
        if is_nodelist(v):
            return comparand(v)
        return v
    if typ == ExpressionType.LOGICAL:
        if is_nodelist(v):
            return len(v) > 0
        return v
    return v


def map_eval_expr(exprs: list, ctx: V, k: int) -> list:
    """opaque: the first k argument expressions, evaluated"""
    if k <= 0:
        return []
    return map_eval_expr(exprs, ctx, k - 1) + [eval_expr(exprs[k - 1], ctx)]


def conv_args(types: list, args: list, ctx: V, k: int) -> list:
    return conv_vals(types, map_eval_expr(args, ctx, k), k)


# ---- expression evaluation -----------------------------------------------------------
# one opaque function per expression class: a proof about one class reveals only that class
def eval_expr(e: V, ctx: V) -> V:
    if isinstance(e, FilterExpression):
        return eval_filter(e, ctx)
    if isinstance(e, FilterExpressionLiteral):
        return e.value
    if isinstance(e, PrefixExpression):
        return eval_prefix(e, ctx)
    if isinstance(e, LogicalExpression):
        return eval_logical(e, ctx)
    if isinstance(e, ComparisonExpression):
        return eval_comparison(e, ctx)
    if isinstance(e, RelativeFilterQuery):
        return eval_relative(e, ctx)
    if isinstance(e, RootFilterQuery):
        return eval_root(e, ctx)
    if isinstance(e, FunctionExtension):
        return eval_call(e, ctx)
    return NOTHING


def eval_filter(e: V, ctx: V) -> V:
    """opaque: a filter expression is the truth of its operand"""
    return truth_of(eval_expr(e.expression, ctx))


def eval_prefix(e: V, ctx: V) -> V:
    """opaque: logical not"""
    return not truth_of(eval_expr(e.right, ctx))


def eval_logical(e: V, ctx: V) -> V:
    """opaque: && and || are classical on the truth of both sides"""
    if e.operator == "&&":
        return truth_of(eval_expr(e.left, ctx)) and truth_of(eval_expr(e.right, ctx))
    return truth_of(eval_expr(e.left, ctx)) or truth_of(eval_expr(e.right, ctx))


def eval_comparison(e: V, ctx: V) -> V:
    """opaque: comparison of two comparands per Table 11"""
    return rfc_compare(comparand(eval_expr(e.left, ctx)), str_of(e.operator), comparand(eval_expr(e.right, ctx)))


def eval_relative(e: V, ctx: V) -> V:
    """opaque: '@' is the child being tested, whatever its kind; '$' inside stays the query argument"""
    return NodeList(apply_segments(seq(e.query.segments), [Node(ctx.current, mk_tuple([]), ctx.root)],
                                   len(e.query.segments)))


def eval_root(e: V, ctx: V) -> V:
    """opaque: '$' is the root of the query argument at any nesting depth"""
    return NodeList(apply_segments(seq(e.query.segments), [Node(ctx.root, mk_tuple([]), ctx.root)],
                                   len(e.query.segments)))


def eval_call(e: V, ctx: V) -> V:
    """opaque: a function call: arguments converted to the declared parameter types"""
    if has_key(ctx.env.function_extensions, str_of(e.name)):
        return call_func(get(ctx.env.function_extensions, str_of(e.name)),
                         conv_args(seq(get(ctx.env.function_extensions, str_of(e.name)).arg_types),
                                   seq(e.args), ctx, len(e.args)))
    return NOTHING


# ---- well-typedness of compiled expressions (2.4.3) ------------------------------------
def is_type(t: V) -> bool:
    return t == ExpressionType.VALUE or t == ExpressionType.LOGICAL or t == ExpressionType.NODES


def wf_func(f: V) -> bool:
    """opaque: a filter function with a declared signature over the three types"""
    return (isinstance(f, FilterFunction) and is_arr(f.arg_types) and all(is_type(t) for t in seq(f.arg_types))
            and is_type(f.return_type))


def wf_registry(r: V) -> bool:
    """opaque: a function registry: distinct names mapped to typed functions"""
    return (is_obj(r) and nkeys(r) == nvals(r) and all(wf_func(val_at(r, j)) for j in range(nkeys(r)))
            and all(implies(key_at(r, a) == key_at(r, b), a == b) for a in range(nkeys(r)) for b in range(nkeys(r))))


def singular_seg(seg: V) -> bool:
    return (isinstance(seg, JSONPathChildSegment) and is_tuple(seg.selectors) and len(seg.selectors) == 1
            and (isinstance(seq(seg.selectors)[0], NameSelector) or isinstance(seq(seg.selectors)[0], IndexSelector)))


def singular(segments: list, k: int) -> bool:
    """the first k segments are all singular (one name or index selector in a child segment)"""
    return all(singular_seg(segments[j]) for j in range(k))


def func_return(e: V, env: V) -> V:
    """declared result type of a function expression (None if unknown / not a call)"""
    if isinstance(e, FunctionExtension) and has_key(env.function_extensions, str_of(e.name)):
        return get(env.function_extensions, str_of(e.name)).return_type
    return None


def value_typed(e: V, env: V) -> bool:
    """usable where a ValueType is required: literal, singular query, ValueType call"""
    return (isinstance(e, FilterExpressionLiteral)
            or (isinstance(e, FilterQuery) and singular(seq(e.query.segments), len(e.query.segments)))
            or func_return(e, env) == ExpressionType.VALUE)


def logical_typed(e: V, env: V) -> bool:
    """usable as a test / where a LogicalType is required"""
    return (isinstance(e, FilterQuery) or isinstance(e, LogicalExpression) or isinstance(e, ComparisonExpression)
            or isinstance(e, PrefixExpression) or isinstance(e, FilterExpression)
            or func_return(e, env) == ExpressionType.LOGICAL
            or func_return(e, env) == ExpressionType.NODES)


def nodes_typed(e: V, env: V) -> bool:
    return isinstance(e, FilterQuery) or func_return(e, env) == ExpressionType.NODES


def arg_ok(typ: V, e: V, env: V) -> bool:
    if typ == ExpressionType.VALUE:
        return value_typed(e, env)
    if typ == ExpressionType.LOGICAL:
        return logical_typed(e, env)
    return nodes_typed(e, env)


def wf_expr(e: V, env: V) -> bool:
    """e is a well-formed, well-typed expression tree for environment env (one opaque predicate per class)"""
    if isinstance(e, FilterExpression):
        return wf_filter_e(e, env)
    if isinstance(e, FilterExpressionLiteral):
        return is_none(e.value) or is_bool(e.value) or is_int(e.value) or is_float(e.value) or is_str(e.value)
    if isinstance(e, PrefixExpression):
        return wf_prefix_e(e, env)
    if isinstance(e, LogicalExpression):
        return wf_logical_e(e, env)
    if isinstance(e, ComparisonExpression):
        return wf_comparison_e(e, env)
    if isinstance(e, FilterQuery):
        return wf_query(e.query, env)
    if isinstance(e, FunctionExtension):
        return wf_call_e(e, env)
    return False


def wf_filter_e(e: V, env: V) -> bool:
    """opaque: operand is a test"""
    return isinstance(e.expression, Expression) and wf_expr(e.expression, env) and logical_typed(e.expression, env)


def wf_prefix_e(e: V, env: V) -> bool:
    """opaque: '!' applied to a test"""
    return (is_str(e.operator) and str_of(e.operator) == "!" and isinstance(e.right, Expression)
            and wf_expr(e.right, env) and logical_typed(e.right, env))


def wf_logical_e(e: V, env: V) -> bool:
    """opaque: && / || over tests"""
    return (is_str(e.operator) and (str_of(e.operator) == "&&" or str_of(e.operator) == "||")
            and isinstance(e.left, Expression) and isinstance(e.right, Expression)
            and wf_expr(e.left, env) and wf_expr(e.right, env)
            and logical_typed(e.left, env) and logical_typed(e.right, env))


def wf_comparison_e(e: V, env: V) -> bool:
    """opaque: both comparands are ValueType"""
    return (is_str(e.operator) and is_comparison_op(str_of(e.operator))
            and isinstance(e.left, Expression) and isinstance(e.right, Expression)
            and wf_expr(e.left, env) and wf_expr(e.right, env)
            and value_typed(e.left, env) and value_typed(e.right, env))


def is_comparison_op(op: str) -> bool:
    return op == "==" or op == "!=" or op == "<" or op == "<=" or op == ">" or op == ">="


def wf_call_e(e: V, env: V) -> bool:
    """opaque: arguments are expressions; for a registered function they match its signature"""
    return (is_str(e.name) and is_arr(e.args)
            and all(isinstance(a, Expression) and wf_expr(a, env) for a in seq(e.args))
            and implies(has_key(env.function_extensions, str_of(e.name)),
                        len(e.args) == len(get(env.function_extensions, str_of(e.name)).arg_types)
                        and all(arg_ok(seq(get(env.function_extensions, str_of(e.name)).arg_types)[j], seq(e.args)[j], env)
                                for j in range(len(e.args)))))


def wf_ctx(ctx: V) -> bool:
    return isinstance(ctx, FilterContext) and wf_env(ctx.env) and is_json(ctx.current) and is_json(ctx.root)


def is_cmp_arg(v: V) -> bool:
    """what reaches a comparison after singleton unwrapping: a value, Nothing, or an EMPTY nodelist
    (a singular query that selected nothing)"""
    return is_operand(v) or (is_nodelist(v) and len(v) == 0)


def conv_vals(types: list, vals: list, k: int) -> list:
    """opaque: 2.4.2 conversions applied to already evaluated arguments"""
    if k <= 0:
        return []
    return conv_vals(types, vals, k - 1) + [conv_arg(types[k - 1], vals[k - 1])]


def eval_typed(e: V, env: V, v: V) -> bool:
    """typing of evaluation results (RFC 9535 2.4.1-2.4.3): what the static type of an expression promises about the
    value it evaluates to"""
    return (implies(logical_typed(e, env), is_nodelist(v) or is_bool(v))
            and implies(value_typed(e, env), is_operand(v) or (is_nodelist(v) and len(v) <= 1 and all_wf_nodes(seq(v))))
            and implies(nodes_typed(e, env), is_nodelist(v) and all_wf_nodes(seq(v)))
            and implies(is_nodelist(v), all_wf_nodes(seq(v))))
