#!/bin/sh
# Offline setup: nothing to build or fetch. Byte-compile /verif and run the engine's smoke test.
set -e
cd "$(dirname "$0")"
mkdir -p work evidence replays
/opt/veriftools/pyvenv/bin/python3 -m compileall -q pyvc spec contracts bounded effects 2>/dev/null || true
/opt/veriftools/pyvenv/bin/python3 -c "
import sys; sys.path.insert(0,'.')
from pyvc.driver import load_contracts
from pyvc.verify import verify_function
load_contracts()
r = verify_function('node:JSONPathNode.new_child')
assert r['status'] == 'verified', r
print('pyvc smoke test ok')
"
/venv/bin/python -c "import jsonpath_rfc9535, sys; sys.path.insert(0,'.'); from bounded import refsem; print('bounded smoke test ok')"
# false statements must not be proved, a few true ones must (guards against an unsound or vacuous engine)
PYTHONHASHSEED=0 /opt/veriftools/pyvenv/bin/python3 tools/engine_selftest.py > work/engine_selftest.log 2>&1 && echo "engine self-test ok" || { cat work/engine_selftest.log; exit 1; }
