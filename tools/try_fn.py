#!/usr/bin/env python3-vt
"""Diagnostic (never part of a verdict): verify the named functions once, uncached, and print the per-clause verdicts.
usage: tools/try_fn.py <function key>...   (PYVC_REPO=<dir> points the engine at a scratch copy of the package)"""
import sys, json
sys.path.insert(0, '/verif')
from pyvc.driver import load_contracts, run_D
from pyvc.contracts import REGISTRY
load_contracts()
keys = sys.argv[1:]
for k in keys:
    pass
import pyvc.driver as d
# run in-process to keep the trusted override
from pyvc.universe import Source
from pyvc.verify import verify_function
for k in keys:
    r = verify_function(k, src=Source(), timeout_ms=8000, hard_s=150, jobs=int(__import__("os").environ.get("TRY_JOBS", "8")))
    print(k, r.get('status'))
    for o in r.get('obligations', [])[:60]:
        print('  ', o.get('status'), o.get('clause','')[:100], o.get('kind',''))
    if r.get('status') in ('engine-error','unattachable'): print(json.dumps(r)[:3000])
    for o in r.get('obligations', []):
        st = o.get('result') or o.get('verdict') or o.get('status')
    print({k: v for k, v in r.items() if k not in ('obligations',)}.__repr__()[:3000])
