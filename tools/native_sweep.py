"""Bounded stand-in for ONE function under contract that the deductive part can no longer verify (run under /venv/bin/python):
the sidecar contract is checked at run time on the real function over an exhaustive enumeration of small inputs -- strings over
an alphabet taken from the string constants of the function's source (plus a few neutral characters), shortest first, and small
integers -- up to a budget. Only for functions whose parameters (besides a Parser `self` and a dummy `token`) are strings and
integers by the contract's own `is_str` / `is_int` preconditions. stdin: the job of replay_native (without params) plus
"source" (text of the function) and "budget"; stdout: JSON {"applicable", "cases", "failure": {...} | null, "bound": ...}."""
import ast
import itertools
import json
import sys
from pathlib import Path

sys.path.insert(0, str(Path(__file__).resolve().parent))
import replay_native as R  # noqa: E402


def kinds(job):
    ks = {}
    for r in job["requires"]:
        t = ast.parse(r, mode="eval").body
        if isinstance(t, ast.Call) and isinstance(t.func, ast.Name) and len(t.args) == 1 and isinstance(t.args[0], ast.Name):
            if t.func.id == "is_str":
                ks[t.args[0].id] = "str"
            elif t.func.id == "is_int":
                ks[t.args[0].id] = "int"
    return ks


def _consts(src, chars):
    try:
        tree = ast.parse(src)
    except SyntaxError:
        return
    for n in ast.walk(tree):
        if isinstance(n, ast.Constant) and isinstance(n.value, str) and 0 < len(n.value) <= 2:
            for ch in n.value:
                if ch not in chars:
                    chars.append(ch)


def alphabet(job):
    """the characters the CONTRACT talks about (one- and two-character string constants of the spec functions its clauses name,
    followed one level down), then those of the function's own source, then neutral ones"""
    import inspect
    import textwrap

    chars = []
    seen = set()

    def spec_fn(name, depth):
        f = R.NS.get(name)
        if name in seen or not inspect.isfunction(f) or not getattr(f, "__module__", "").startswith("spec."):
            return
        seen.add(name)
        try:
            src = textwrap.dedent(inspect.getsource(f))
        except OSError:
            return
        _consts(src, chars)
        if depth > 0:
            for n in ast.walk(ast.parse(src)):
                if isinstance(n, ast.Name):
                    spec_fn(n.id, depth - 1)

    for cl in job["ensures"] + [c for _, c in job["raises_iff"]] + job["requires"]:
        for n in ast.walk(ast.parse(cl, mode="eval")):
            if isinstance(n, ast.Name):
                spec_fn(n.id, 2)
    _consts(job.get("source", ""), chars)
    for ch in "a0":
        if ch not in chars:
            chars.append(ch)
    return chars[:7]


def main():
    job = json.load(sys.stdin)
    sys.path.insert(0, job["layout_dir"])
    import inspect
    import importlib

    mod, qual = job["key"].split(":")
    m = importlib.import_module("jsonpath_rfc9535." + mod)
    target = m
    for p in qual.split("."):
        target = getattr(target, p, None)
        if target is None:
            print(json.dumps({"applicable": False, "reason": "function not importable"}))
            return
    sig = inspect.signature(target)
    ks = kinds(job)
    names = [n for n in sig.parameters if n not in ("self", "token")]
    if not names or any(n not in ks for n in names) or job.get("mutates"):
        print(json.dumps({"applicable": False, "reason": "parameters are not all strings / integers by the contract"}))
        return
    import jsonpath_rfc9535 as jp
    from jsonpath_rfc9535.tokens import Token, TokenType

    fixed = {}
    if "self" in sig.parameters:
        fixed["self"] = jp.JSONPathEnvironment().parser
    if "token" in sig.parameters:
        fixed["token"] = Token(TokenType.DOUBLE_QUOTE_STRING, "", 0, "")
    alpha = alphabet(job)
    ints = [0, 1, 2, 3, 5, 10, -1]
    budget = int(job.get("budget", 20000))

    def strings():
        for ln in range(0, 8):
            for t in itertools.product(alpha, repeat=ln):
                yield "".join(t)

    gens = [strings() if ks[n] == "str" else iter(ints) for n in names]
    cases = 0
    failure = None
    # the first string parameter is enumerated fully; integer parameters take every small value for each string
    strs = [n for n in names if ks[n] == "str"]
    intn = [n for n in names if ks[n] == "int"]
    pools = {n: ints for n in intn}
    for combo in (strings() if strs else [None]):
        for ivals in itertools.product(*[pools[n] for n in intn]) if intn else [()]:
            params = dict(fixed)
            for n in strs:
                params[n] = combo
            params.update(dict(zip(intn, ivals)))
            out = []
            R.evaluate(job, dict(params), out)
            cases += 1
            rep = out[-1] if out else {}
            if rep.get("confirmed"):
                failure = {"inputs": {k: repr(v)[:200] for k, v in params.items() if k not in ("self", "token")}, "failed_clauses": rep.get("failed_clauses"),
                           "observed": rep.get("observed")}
                break
            if cases >= budget:
                break
        if failure or cases >= budget:
            break
    print(json.dumps({"applicable": True, "cases": cases, "failure": failure,
                      "bound": f"strings over {alpha!r} shortest first, integers {ints}, at most {budget} cases"}))


if __name__ == "__main__":
    main()
