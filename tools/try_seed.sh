#!/bin/sh
# usage: tools/try_seed.sh <worktree>/<seedN> [props...]
# 1. in the scratch worktree: demo passes on the original, tests pass + demo fails with the change
# 2. applies the change to /repo, runs the checks, reverts /repo.
d=$(realpath "$1"); shift
w=$(dirname "$d")
pid=$(python3 -c "import json,sys; print(json.load(open('$d/meta.json'))['property'])")
props="${*:-$pid}"
cd "$w" || exit 3
git checkout -q -- jsonpath_rfc9535
PYTHONPATH="$w" /venv/bin/python "$d/demo.py" >/dev/null 2>&1; echo "demo exit on original: $?"
git apply "$d/patch.diff" || { echo "patch does not apply in worktree"; exit 3; }
echo "tests with change: $(/venv/bin/python -m pytest -q -p no:cacheprovider --continue-on-collection-errors 2>&1 | tail -1)"
PYTHONPATH="$w" /venv/bin/python "$d/demo.py" >/dev/null 2>&1; echo "demo exit with change: $?"
git checkout -q -- jsonpath_rfc9535
cd /repo || exit 3
git diff --quiet || { echo "repo dirty"; exit 3; }
git apply "$d/patch.diff" || { echo "patch does not apply to /repo"; exit 3; }
cd /verif
for p in $props; do
  timeout 2400 ./check "$p" > /tmp/w/seedrun_$p.txt 2>&1; c=$?
  echo "check $p exit=$c: $(grep -c '^VIOLATION' /tmp/w/seedrun_$p.txt) violation lines"; grep -A1 '^VIOLATION\|^DEGRADED\|^CHECKER\|^UNDECIDED' /tmp/w/seedrun_$p.txt | cut -c1-300 | head -14
done
git -C /repo checkout -- . ; git -C /repo status --short | head -3
