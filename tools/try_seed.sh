#!/bin/sh
# usage: tools/try_seed.sh <seed dir with patch.diff demo.py meta.json> [props...]
# applies the change to /repo, confirms tests pass + demo fails, runs the checks, reverts.
d="$1"; shift
pid=$(python3 -c "import json,sys; print(json.load(open('$d/meta.json'))['property'])")
props="${*:-$pid}"
cd /repo || exit 3
git diff --quiet || { echo "repo dirty"; exit 3; }
echo "== original: demo"; /venv/bin/python "$d/demo.py" >/dev/null 2>&1; echo "demo exit on original: $?"
git apply "$d/patch.diff" || { echo "patch does not apply"; exit 3; }
echo "== with change: tests"; /venv/bin/python -m pytest -q -p no:cacheprovider --continue-on-collection-errors 2>&1 | tail -1
/venv/bin/python "$d/demo.py" >/dev/null 2>&1; echo "demo exit with change: $?"
cd /verif
for p in $props; do
  timeout 2400 ./check "$p" > /tmp/w/seedrun_$p.txt 2>&1; c=$?
  echo "check $p exit=$c: $(grep -c '^VIOLATION' /tmp/w/seedrun_$p.txt) violation lines"; grep -A1 '^VIOLATION\|^DEGRADED\|^CHECKER' /tmp/w/seedrun_$p.txt | cut -c1-260 | head -12
done
git -C /repo checkout -- . ; git -C /repo status --short | head -3
