"""Regenerate MANIFEST.json from levels.json and the list of claimed properties (tools/claimed.txt)."""
import json
from pathlib import Path

ROOT = Path(__file__).resolve().parent.parent
levels = json.loads((ROOT / "levels.json").read_text())
claimed = [l.split()[0] for l in (ROOT / "tools" / "claimed.txt").read_text().splitlines() if l.strip() and not l.startswith("#")]
na = {}
for l in (ROOT / "tools" / "not_applicable.txt").read_text().splitlines():
    if l.strip() and not l.startswith("#"):
        pid, reason = l.split(None, 1)
        na[pid] = reason
props = [json.loads(l)["id"] for l in (ROOT / "properties.jsonl").read_text().splitlines()]
TECH = {
    "proof": "contract-based deductive verification: VCs generated from /repo's source by pyvc (sidecar contracts), discharged by z3",
    "other": "contract-based deductive verification of the real functions the property rests on (sidecar contracts, VCs generated from /repo's source by pyvc, discharged by z3) + bounded run-time contract check of what the contracts do not decide (stated per property)",
    "exploration": "bounded stand-in: run-time contract check over an exhaustive bounded enumeration against an RFC-derived oracle (the deciding functions are outside the deductive verifier's reach; contracts on the functions around them are discharged where they exist)",
}
checks = []
for pid in props:
    if pid not in claimed:
        continue
    lv = levels[pid]
    tech = TECH[lv["level"]]
    if lv.get("frame"):
        tech = "frame/effect contracts checked statically over every function reachable from the public entry points (contract-based, all histories) + bounded refuter harness"
    checks.append({
        "property_id": pid,
        "quick_cmd": f"./check {pid} --tier quick",
        "thorough_cmd": f"./check {pid} --tier thorough",
        "evidence_file": f"/verif/evidence/{pid}.json",
        "replay_cmd_template": f"./check {pid} --replay {{path}}",
        "engine": "pyvc+bounded",
        "level_claimed": {"category": lv["level"], "text": lv["explanation"], "design_ref": f"DESIGN.md section 4 {pid}"},
        "level_note": "; ".join(lv["trusted_base"]) + ". Assumptions: " + " | ".join(a.split(" ", 1)[0] for a in lv["assumptions"]),
        "technique": tech,
    })
m = {
    "version": 1,
    "setup_cmd": "./setup.sh",
    "hooks": {"guard": "JSONPATH_RFC9535_VERIF",
              "enable": "no source hooks: contracts are sidecar files under /verif; pyvc re-reads /repo's source text on every run and the bounded runners import /repo's working tree through the editable install",
              "baseline_off_cmd": "cd /repo && /venv/bin/python -m pytest -ra -q -p no:cacheprovider --timeout=900 --continue-on-collection-errors",
              "source_commits": [], "add_only": True},
    "engines": [
        {"name": "pyvc", "path": "/verif/pyvc", "serves_properties": [p for p in claimed if levels[p]["level"] in ("proof", "other") or p in ("C11",)],
         "kind_free_text": "AST->SMT verification-condition generator with sidecar contracts (requires/ensures/yields/raises/loop invariants/in-place updates), modular calls, ground unfolding of executable spec functions, lemmas by induction, z3 back end with a theory-abstraction rung; syntactic frame obligations read from /repo's AST"},
        {"name": "effects", "path": "/verif/effects", "serves_properties": [p for p in claimed if levels[p].get("frame")],
         "kind_free_text": "static frame/effect contract checker (rules W1-W5) over the package call graph"},
        {"name": "bounded", "path": "/verif/bounded", "serves_properties": claimed,
         "kind_free_text": "run-time contract checks over exhaustive bounded enumerations against RFC-derived oracles (bounded stand-in, never counted as proved)"},
    ],
    "checks": checks,
    "notes": "See DESIGN.md. Fix commits in /repo and open findings are listed in known_findings.json.",
    "not_applicable": [{"property_id": p, "reason": na.get(p, "check not built yet (build in progress)")} for p in props if p not in claimed],
}
(ROOT / "MANIFEST.json").write_text(json.dumps(m, indent=1))
print("claimed", claimed)
