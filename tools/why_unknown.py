#!/usr/bin/env python3-vt
"""Diagnostic for an undischarged obligation (never part of a verdict): solve the theory abstraction of the
saturated query with every quantifier replaced by a Boolean; the model then shows which ground facts the
abstract rung lacks: quantifier instances that the model falsifies, and spec applications without a
definitional instance.  usage: why_unknown.py <function key> <clause substring> [n]"""
import re
import sys
import time

sys.path.insert(0, str(__import__("pathlib").Path(__file__).resolve().parent.parent))
import z3  # noqa: E402

from pyvc.abstraction import Abstractor  # noqa: E402
from pyvc.contracts import REGISTRY  # noqa: E402
from pyvc.core import _abstract_quant  # noqa: E402
from pyvc.driver import load_contracts  # noqa: E402
from pyvc.verify import Engine  # noqa: E402


def flat(t, n=300):
    return re.sub(r"\s+", " ", t.sexpr())[:n]


def main():
    load_contracts()
    key, sel = sys.argv[1], sys.argv[2]
    which = int(sys.argv[3]) if len(sys.argv) > 3 else 0
    c = REGISTRY[key]
    e = Engine()
    if key.startswith("lemma:"):
        from pyvc.lemmas import lemma_obligations

        obs = lemma_obligations(e, key[6:])
    else:
        obs, _ = e.gen_obligations(key)
    cands = [o for o in obs if sel in o.clause and not o.must_be_sat]
    print(len(cands), "matching obligations; taking", which)
    ob = cands[which]
    base = list(ob.hyps) + list(e.axioms)
    e.cur_contract = c
    goal = e.open_goal(ob.goal, base) if getattr(c, "open_goal", False) else ob.goal
    neg = z3.Not(e._skolemize(goal))
    allf = e.saturate(base + [neg], base, getattr(c, "depth", 0) or 2, 2, focus=[neg])
    A = Abstractor(e.V)
    ab = A.run(allf)
    qf = [_abstract_quant(f) for f in ab]
    s = z3.Solver()
    s.set("timeout", 20000)
    for f in qf:
        s.add(f)
    t0 = time.time()
    r = s.check()
    print("abstract, quantifier-free:", r, round(time.time() - t0, 2), "s;", len(allf), "formulas")
    if r != z3.sat:
        return
    m = s.model()
    quants, idx, apps, defs = {}, {}, {}, set()
    for f in ab:
        if z3.is_eq(f) and z3.is_app(f.arg(0)) and f.arg(0).decl().name().startswith("spec_"):
            defs.add(f.arg(0).get_id())
        stack, seen = [f], set()
        while stack:
            x = stack.pop()
            if x.get_id() in seen:
                continue
            seen.add(x.get_id())
            if z3.is_quantifier(x):
                if x.is_forall() and x.num_vars() == 1:
                    quants[x.get_id()] = x
                continue
            if z3.is_app(x):
                n = x.decl().name()
                if n.startswith("seq.nth") and x.num_args() == 2:
                    idx[x.arg(1).get_id()] = x.arg(1)
                if n.startswith("spec_"):
                    apps[x.get_id()] = x
                if n.startswith("sk_") or n.startswith("cj!"):
                    idx[x.get_id()] = x
                stack.extend(x.children())
    print("-- index terms:")
    for t in idx.values():
        print("   ", m.eval(t), ":=", flat(t, 100))
    print("-- spec applications without a definitional instance (value in the model):")
    for a in apps.values():
        if a.get_id() not in defs:
            print("   ", str(m.eval(a))[:12], a.decl().name(), [flat(a.arg(i), 130) for i in range(a.num_args())])
    print("-- quantifier instances falsified by the model:")
    for q in quants.values():
        qv = m.eval(_abstract_quant(q))
        if not z3.is_true(qv):
            continue
        for t in idx.values():
            if t.sort() != q.var_sort(0):
                continue
            inst = _abstract_quant(z3.substitute_vars(q.body(), t))
            if z3.is_false(m.eval(inst, model_completion=True)):
                print("    Q", flat(q, 260))
                print("      at", flat(t, 100), "=", m.eval(t))
    print("-- negated goal:", flat(A.tr(neg), 1500))


if __name__ == "__main__":
    main()
