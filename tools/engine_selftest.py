#!/usr/bin/env python3-vt
"""Guard against an unsound or vacuous engine (DESIGN 2.9): statements that are FALSE must not come out `proved`, a few true
ones must. Runs the same pipeline as the checks (saturation, theory abstraction, concrete ladder). Exit 0 = as expected."""
import sys
from pathlib import Path

sys.path.insert(0, str(Path(__file__).resolve().parent.parent))
from pyvc.driver import load_contracts  # noqa: E402
from pyvc.lemmas import LEMMAS, Lemma, lemma_obligations  # noqa: E402
from pyvc.verify import Engine  # noqa: E402

FALSE = [
    ("append keeps the length", {"xs": "list", "x": "V"}, [], "len(xs + [x]) == len(xs)"),
    ("concatenation commutes", {"xs": "list", "ys": "list"}, [], "xs + ys == ys + xs"),
    ("four hex digits stay below 65535", {"bs": "list", "k": "int"}, ["k <= 4", "all_hex(bs, k)", "k <= len(bs)"], "hex_val(bs, k) < 65535"),
    ("every value is a string", {"v": "V"}, [], "is_str(v)"),
    ("a singular prefix of length k selects exactly one node", {"segments": "list", "nodes": "list", "k": "int"},
     ["len(nodes) <= 1", "k <= len(segments)", "singular(segments, k)"], "len(apply_segments(segments, nodes, k)) == 1"),
    ("an escaped dot is translated", {"p": "str"}, ["len(p) == 2", "p[0] == '\\\\'", "p[1] == '.'"], "len(mre_parts(p, 2)) == 3"),
    ("surrogate pairs below the BMP", {"hi": "int", "lo": "int"}, ["is_high(hi)", "is_low(lo)"], "pair_value(hi, lo) < 65536"),
]
TRUE = [
    ("append adds one", {"xs": "list", "x": "V"}, [], "len(xs + [x]) == len(xs) + 1"),
    ("concatenation is associative", {"xs": "list", "ys": "list", "zs": "list"}, [], "(xs + ys) + zs == xs + (ys + zs)"),
    ("surrogate pairs are supplementary", {"hi": "int", "lo": "int"}, ["is_high(hi)", "is_low(lo)"], "pair_value(hi, lo) >= 65536 and pair_value(hi, lo) <= 1114111"),
]


def verdict(name, params, hyps, goal):
    LEMMAS["__selftest__"] = Lemma("__selftest__", params, hyps, goal, depth=4)
    try:
        e = Engine()
        obs = lemma_obligations(e, "__selftest__")
        return [e.solve(o, 4000)[0] for o in obs]
    finally:
        LEMMAS.pop("__selftest__", None)


def main():
    load_contracts()
    bad = 0
    for name, params, hyps, goal in FALSE:
        v = verdict(name, params, hyps, goal)
        ok = "proved" not in v
        print(("ok   " if ok else "FAIL ") + f"false statement not proved: {name} -> {v}")
        bad += not ok
    for name, params, hyps, goal in TRUE:
        v = verdict(name, params, hyps, goal)
        ok = v == ["proved"]
        print(("ok   " if ok else "FAIL ") + f"true statement proved: {name} -> {v}")
        bad += not ok
    sys.exit(1 if bad else 0)


if __name__ == "__main__":
    main()
