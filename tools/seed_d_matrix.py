#!/usr/bin/env python3-vt
"""For every kept seeded change: apply it to /repo, run the deductive part (D) for the property it breaks, report
which functions/clauses no longer discharge, and restore /repo. Writes seeded/d_matrix.json."""
import json
import subprocess
import sys
from pathlib import Path

ROOT = Path(__file__).resolve().parent.parent
sys.path.insert(0, str(ROOT))

RUN = r'''
import sys, json
sys.path.insert(0, %r)
from pyvc.driver import load_contracts, run_D
reg = load_contracts()
pid = sys.argv[1]
keys = [k for k, c in reg.items() if pid in c.props and not c.abstract and not c.trusted and not c.heavy]
from pyvc.lemmas import LEMMAS
out, dt = run_D(keys, "quick", use_cache=False)
res = {}
for k, r in out.items():
    bad = {c: v for c, v in r.get("clauses", {}).items() if v not in ("proved", "covered") and "/cover:" not in c}
    if r["status"] != "verified" or bad:
        res[k] = {"status": r["status"], "reason": r.get("reason", "")[:200], "clauses": bad}
print("RESULT " + json.dumps({"seconds": round(dt, 1), "functions": len(keys), "not_verified": res}))
''' % str(ROOT)


def main():
    only = sys.argv[1:]
    table = {}
    if subprocess.run(["git", "-C", "/repo", "diff", "--quiet"]).returncode != 0:
        sys.exit("repo dirty")
    for d in sorted((ROOT / "seeded").iterdir()):
        if not (d / "patch.diff").exists() or (only and d.name not in only):
            continue
        meta = json.loads((d / "meta.json").read_text())
        pid = meta["property"]
        try:
            subprocess.run(["git", "-C", "/repo", "apply", str(d / "patch.diff")], check=True)
            p = subprocess.run(["python3-vt", "-c", RUN, pid], capture_output=True, text=True, timeout=3000)
            line = [ln for ln in p.stdout.splitlines() if ln.startswith("RESULT ")]
            table[d.name] = json.loads(line[0][7:]) if line else {"error": (p.stderr or p.stdout)[-400:]}
        finally:
            subprocess.run(["git", "-C", "/repo", "checkout", "--", "."], check=True)
        nv = table[d.name].get("not_verified", {})
        print(d.name, pid, table[d.name].get("seconds"), "D catches" if nv else "D silent", {k.split(":")[1]: (v["status"], sorted(c.split("/")[1] for c in v["clauses"])[:4]) for k, v in nv.items()}, table[d.name].get("error", ""), flush=True)
    if not only:
        (ROOT / "seeded" / "d_matrix.json").write_text(json.dumps(table, indent=1, sort_keys=True))


if __name__ == "__main__":
    main()
