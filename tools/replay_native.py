"""Native replay of a pyvc counter-model (run under /venv/bin/python): build real objects from the
model's parameter values, call the REAL function of /repo's working tree, and re-evaluate the
contract's clauses by running the same (executable) spec functions. stdin: JSON
{"key": "module:qualname", "params": {name: tree}, "requires": [...], "ensures": [...], "yields": [...],
 "raises": [...], "raises_iff": [[cls, cond], ...]};  stdout: JSON {"confirmed": bool, "reason": ...}."""
import importlib
import json
import sys
from fractions import Fraction
from pathlib import Path

sys.path.insert(0, str(Path(__file__).resolve().parent.parent))
from bounded import refsem  # noqa: E402
from spec import prims  # noqa: E402
import jsonpath_rfc9535 as jp  # noqa: E402

from spec import lexer as _lexer_spec  # noqa: E402
from spec import text as _text_spec  # noqa: E402

NS = dict(vars(refsem.prims))
for m in (refsem.rfc_select, refsem.rfc_filter, refsem.pysem, _lexer_spec, _text_spec):
    NS.update({k: v for k, v in vars(m).items() if not k.startswith("__")})


class Spurious(Exception):
    pass


def find_class(name):
    for modname in ("selectors", "segments", "query", "node", "filter_expressions", "environment", "tokens", "parse", "lex",
                    "function_extensions", "function_extensions.filter_function"):
        m = importlib.import_module("jsonpath_rfc9535." + modname)
        if hasattr(m, name):
            return getattr(m, name)
    raise Spurious("unknown class " + name)


def build(t):
    c = t["$c"]
    if c == "int":
        return t["v"]
    if c == "bool":
        return t["v"]
    if c == "str":
        return t["v"]
    if c == "real":
        f = Fraction(t["n"], t["d"])
        x = float(f)
        if Fraction(x) != f:
            raise Spurious("real value is not a double")
        return x
    if c == "seq":
        return [build(x) for x in t["items"]]
    a = t.get("args", [])
    if c == "VNone":
        return None
    if c == "VNothing":
        return jp.NOTHING
    if c in ("VBool", "VInt", "VStr", "VFloat"):
        return build(a[0])
    if c == "VList":
        return list(build(a[0]))
    if c == "VTuple":
        return tuple(build(a[0]))
    if c == "VNodeList":
        return jp.JSONPathNodeList(build(a[0]))
    if c == "VDict":
        ks, vs = build(a[0]), build(a[1])
        if len(ks) != len(vs) or len(set(ks)) != len(ks):
            raise Spurious("not a real dict")
        return dict(zip(ks, vs))
    if c == "VSlice":
        return slice(build(a[0]), build(a[1]), build(a[2]))
    if c == "VGen":
        items = build(a[0])
        return iter(items)
    if c == "VEnum":
        from jsonpath_rfc9535.function_extensions import ExpressionType
        from jsonpath_rfc9535.tokens import TokenType
        enums = [ExpressionType, TokenType]
        return list(enums[build(a[0])])[build(a[1])]
    if c.startswith("C_"):
        cls = find_class(c[2:])
        obj = object.__new__(cls)
        # field order = base-first layout, the same rule pyvc.universe uses
        from pyvc_layout import layout  # noqa: F401  (generated next to this file at call time)
        for f, v in zip(layout[c[2:]], a):
            try:
                object.__setattr__(obj, f, build(v))
            except (AttributeError, TypeError):
                pass
        return obj
    raise Spurious("cannot build " + c)


def main():
    job = json.load(sys.stdin)
    sys.path.insert(0, job["layout_dir"])
    try:
        params = {k: build(v) for k, v in job["params"].items()}
    except Spurious as e:
        print(json.dumps({"confirmed": False, "reason": "spurious model: " + str(e)}))
        return
    except Exception as e:  # noqa: BLE001
        print(json.dumps({"confirmed": False, "reason": f"model not concretisable: {type(e).__name__}: {e}"}))
        return
    evaluate(job, params)


def evaluate(job, params, sink=None):
    """call the real function on concrete parameter objects and re-evaluate the contract; prints (or, with `sink`, returns) the report"""
    def print(x):  # noqa: A001 -- one report per call
        if sink is None:
            sys.stdout.write(x + "\n")
        else:
            sink.append(json.loads(x))

    mod, qual = job["key"].split(":")
    env = dict(NS)
    env.update(params)

    def holds(clause):
        return bool(eval(compile(clause, "<clause>", "eval"), env))  # noqa: S307

    try:
        for r in job["requires"]:
            if not holds(r):
                print(json.dumps({"confirmed": False, "reason": "spurious model: precondition false natively: " + r}))
                return
    except Exception as e:  # noqa: BLE001
        print(json.dumps({"confirmed": False, "reason": f"precondition not evaluable: {type(e).__name__}: {e}"}))
        return
    # objects updated in place: `name0` is a copy taken before the call; conditions over entry values are decided now
    import copy

    def snapshot(o):
        """entry state of an object updated in place: same field values, containers copied one level (elements shared,
        so that equality of untouched fields does not depend on how their elements compare)"""
        n = object.__new__(type(o))
        names = [f for k in type(o).__mro__ for f in getattr(k, "__slots__", ())] or list(getattr(o, "__dict__", {}))
        for f in names:
            if hasattr(o, f):
                v = getattr(o, f)
                object.__setattr__(n, f, copy.copy(v) if isinstance(v, (list, dict, set)) else v)
        return n

    for name in job.get("mutates", {}):
        if name in params:
            env[name + "0"] = snapshot(params[name])
    try:
        iff_now = [(cls, cond, holds(cond)) for cls, cond in job["raises_iff"]]
    except Exception as e:  # noqa: BLE001
        print(json.dumps({"confirmed": False, "reason": f"condition not evaluable: {type(e).__name__}: {e}"}))
        return
    m = importlib.import_module("jsonpath_rfc9535." + mod)
    target = m
    parts = qual.split(".")
    for p in parts:
        target = getattr(target, p)
    import inspect

    raised = None
    result = None
    out = None
    try:
        sig = inspect.signature(target)
        pos, kw = [], {}
        for name, prm in sig.parameters.items():
            if name not in params:
                # a parameter the counter-model leaves unconstrained: any value will do
                if name == "self" or prm.default is not inspect.Parameter.empty or prm.kind == inspect.Parameter.VAR_POSITIONAL:
                    continue
                from jsonpath_rfc9535.tokens import Token, TokenType

                params[name] = Token(TokenType.EOF, "", 0, "") if name == "token" else None
            v = params[name]
            if prm.kind == inspect.Parameter.VAR_POSITIONAL:
                pos.extend(list(v))
            elif prm.kind == inspect.Parameter.KEYWORD_ONLY:
                kw[name] = v
            else:
                pos.append(v)
        if parts[-1] == "__init__" and "self" not in params:
            cls = getattr(m, parts[0])
            obj = object.__new__(cls)
            r = target(obj, *pos, **kw)
            env["self"] = obj
        else:
            r = target(*pos, **kw)
        if hasattr(r, "__next__"):
            out = []
            for x in r:
                out.append(x)
        else:
            result = r
    except BaseException as e:  # noqa: BLE001
        raised = e
    failed = []
    env.update(params)
    try:
        if raised is None:
            if out is not None:
                env["out"] = out
                env["result"] = iter(out)
                clauses = job["yields"]
            else:
                env["result"] = result
                clauses = job["ensures"]
            for cl in clauses:
                cl2 = cl
                if not _clause_holds(cl2, env):
                    failed.append(cl)
            for cls, cond, was in iff_now:
                if was:
                    failed.append(f"should have raised {cls}: {cond}")
        else:
            allowed = job["raises"] + [c for c, _ in job["raises_iff"]]
            names = [k.__name__ for k in type(raised).__mro__]
            if not any(a in names for a in allowed):
                failed.append(f"raised {type(raised).__name__}: {raised} (allowed: {allowed})")
            for cls, cond, was in iff_now:
                if cls in names and not was:
                    failed.append(f"raised {cls} although not ({cond})")
            env["exc"] = raised
            for cl in job.get("raises_ensures", []):
                if not _clause_holds(cl, env):
                    failed.append(cl)
    except Exception as e:  # noqa: BLE001
        print(json.dumps({"confirmed": False, "reason": f"clause not evaluable natively: {type(e).__name__}: {e}"}))
        return
    print(json.dumps({"confirmed": bool(failed), "failed_clauses": failed,
                      "observed": repr(raised) if raised is not None else repr(out if out is not None else result)[:500],
                      "inputs": {k: repr(v)[:300] for k, v in params.items()}}))


def _clause_holds(cl, env):
    """top-level `a == b` means identity of mathematical values: use same()"""
    import ast
    tree = ast.parse(cl, mode="eval").body
    if isinstance(tree, ast.Compare) and len(tree.ops) == 1 and isinstance(tree.ops[0], ast.Eq):
        a = eval(compile(ast.Expression(tree.left), "<c>", "eval"), env)  # noqa: S307
        b = eval(compile(ast.Expression(tree.comparators[0]), "<c>", "eval"), env)  # noqa: S307
        return prims.same(a, b) or prims.same(list(a) if isinstance(a, (list, tuple)) else a, list(b) if isinstance(b, (list, tuple)) else b)
    return bool(eval(compile(cl, "<clause>", "eval"), env))  # noqa: S307


if __name__ == "__main__":
    main()
