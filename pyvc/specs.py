"""Spec library: executable Python spec functions (/verif/spec/*.py) translated mechanically.

Non-recursive spec functions are inlined at every use; recursive ones (incl. mutually
recursive) become uninterpreted SMT functions whose definition is instantiated on the
ground applications that occur in an obligation (`unfold`), never as a quantified axiom
(DESIGN 2.4: define-fun-rec / triggered axioms time out)."""
from __future__ import annotations

import ast
from pathlib import Path

import z3

from .core import State, pin
from .vals import T, Tup, Unsupported

SPEC_DIR = Path(__file__).resolve().parent.parent / "spec"
SORT_OF_ANN = {"int": "int", "bool": "bool", "str": "str", "list": "list", "tuple": "tuple", "float": "real", "V": "V", "object": "V", "nodelist": "nodelist"}


class SpecLib:
    def __init__(self, engine):
        self.e = engine
        self.funcs: dict[str, ast.FunctionDef] = {}
        self.file_of: dict[str, str] = {}
        for p in sorted(SPEC_DIR.glob("*.py")):
            if p.name in ("prims.py", "__init__.py"):
                continue
            tree = ast.parse(p.read_text())
            for n in tree.body:
                if isinstance(n, ast.FunctionDef):
                    self.funcs[n.name] = n
                    self.file_of[n.name] = p.name
        self.calls = {f: self._callees(n) for f, n in self.funcs.items()}
        self.recursive = {f for f in self.funcs if self._reaches(f, f)}
        # opaque: first statement is the docstring marker "opaque: ..." -- never inlined, unfolded only
        # where a contract reveals it (keeps queries small; Verus-style opaque/reveal)
        self.opaque = {f for f, n in self.funcs.items() if (ast.get_docstring(n) or "").startswith("opaque")}
        self.base_opaque = set(self.opaque)
        self.revealed: set[str] = set()
        self.decls: dict[str, z3.FuncDeclRef] = {}
        self.sig: dict[str, tuple] = {}
        self._apps_cache = {}
        self._declared_all = False
        self._under = {}
        self._inlining: list[str] = []
        self._ghost = None  # recogniser facts of the obligation being unfolded

    def _callees(self, fn):
        return {n.func.id for n in ast.walk(fn) if isinstance(n, ast.Call) and isinstance(n.func, ast.Name) and n.func.id in self.funcs}

    def _reaches(self, a, b, seen=None):
        seen = seen or set()
        for c in self.calls[a]:
            if c == b:
                return True
            if c not in seen:
                seen.add(c)
                if self._reaches(c, b, seen):
                    return True
        return False

    # ------------------------------------------------------------------
    def kinds(self, name):
        if name in self.sig:
            return self.sig[name]
        fn = self.funcs[name]
        ps = []
        for a in fn.args.args:
            ann = ast.unparse(a.annotation) if a.annotation is not None else "V"
            ps.append((a.arg, SORT_OF_ANN.get(ann, "V")))
        ret = SORT_OF_ANN.get(ast.unparse(fn.returns) if fn.returns is not None else "V", "V")
        self.sig[name] = (ps, ret)
        return self.sig[name]

    def sort(self, kind):
        e = self.e
        return {"int": z3.IntSort(), "bool": z3.BoolSort(), "str": z3.StringSort(), "real": z3.RealSort(), "V": e.V}.get(kind, e.U.SeqV)

    def coerce(self, v, kind):
        e = self.e
        if kind == "V":
            return e.box(v)
        if kind == "int":
            return e.int_term(v)
        if kind == "bool":
            return e.truthy(v) if not (isinstance(v, T) and v.kind == "bool") else v.t
        if kind == "str":
            return e.str_term(v)
        if kind == "real":
            return e.real_term(v)
        return e.seq_term(v)

    def decl(self, name):
        if name not in self.decls:
            ps, ret = self.kinds(name)
            self.decls[name] = z3.Function("spec_" + name, *[self.sort(k) for _, k in ps], self.sort(ret))
        return self.decls[name]

    def apply(self, name, args):
        ps, ret = self.kinds(name)
        if len(args) != len(ps):
            raise Unsupported(f"spec {name}: arity")
        if name not in self.recursive and name not in self.opaque:
            if name in self._inlining:
                raise Unsupported("recursion through inlining " + name)
            return self.body_val(name, [T(k, self.coerce(a, k)) for a, (_, k) in zip(args, ps)])
        f = self.decl(name)
        return T(ret, f(*[self.coerce(a, k) for a, (_, k) in zip(args, ps)]))

    # ------------------------------------------------------------------
    def body_val(self, name, argvals, ghost=None):
        """the function body as a value, parameters bound to argvals (typed T values)"""
        e = self.e
        fn = self.funcs[name]
        ps, ret = self.kinds(name)
        env = {p: v for (p, _), v in zip(ps, argvals)}
        self._inlining.append(name)
        save = e.cur_module
        e.cur_module = "__spec__"
        try:
            v = self._block(fn.body, State(env=env, mode="spec", ghost=dict(ghost or self._ghost or self.e._g or {})), ret)
        finally:
            e.cur_module = save
            self._inlining.pop()
        return T(ret, self.coerce(v, ret))

    def _block(self, stmts, st, ret):
        e = self.e
        if not stmts:
            raise Unsupported("spec function falls off the end")
        s, rest = stmts[0], stmts[1:]
        if isinstance(s, ast.Expr) and isinstance(s.value, ast.Constant):
            return self._block(rest, st, ret)
        if isinstance(s, ast.Return):
            return e.ev1(s.value, st)
        if isinstance(s, ast.Assign) and len(s.targets) == 1:
            v = e.ev1(s.value, st)
            return self._block(rest, e.bind_target(s.targets[0], v, st), ret)
        if isinstance(s, ast.If):
            c = e.truthy(e.ev1(s.test, st))
            a = self._block(s.body + rest, st.fork(c), ret)
            b = self._block(s.orelse + rest, st.fork(z3.Not(c)), ret)
            return T(ret, z3.If(c, self.coerce(a, ret), self.coerce(b, ret)))
        raise Unsupported("spec statement " + type(s).__name__)

    # ------------------------------------------------------------------
    def unfold(self, formulas, depth=2, successor=True, known=None):
        """ground definitional instances for the recursive-spec applications in `formulas`.
        `known`: formulas asserted in the same query; their top-level recogniser facts are used to
        read attributes through one accessor instead of an if-chain (valid under those hypotheses)."""
        from .core import _note_recognisers

        g = {}
        for f in (known if known is not None else []):
            _note_recognisers(f, g)
        self._ghost = g
        try:
            return self._unfold(formulas, depth, successor)
        finally:
            self._ghost = None

    def declare_all(self):
        """declare every recursive / opaque spec function up front, so that applications created while
        unfolding are recognised in the same pass"""
        if not self._declared_all:
            self._declared_all = True
            for name in sorted(self.recursive | self.opaque):
                self.decl(name)

    def _unfold(self, formulas, depth, successor):
        self.declare_all()
        by_decl = {d.name(): n for n, d in self.decls.items()}
        done = set()
        facts = []
        frontier = self._apps(formulas, by_decl)
        level = 0
        while frontier and level < depth:
            nxt = []
            for app in frontier:
                key = pin(app)
                if key in done:
                    continue
                done.add(key)
                name = by_decl[app.decl().name()]
                if name in self.opaque and name not in self.revealed:
                    continue
                insts = [app]
                if successor and level == 0:
                    ps, _ = self.kinds(name)
                    if ps and ps[-1][0] == "k" and ps[-1][1] == "int":
                        args = [app.arg(i) for i in range(app.num_args())]
                        succ = app.decl()(*args[:-1], args[-1] + 1)
                        if succ.get_id() not in done:
                            done.add(pin(succ))
                            insts.append(succ)
                for a in insts:
                    try:
                        eq = self.instance(name, a)
                    except Unsupported:
                        continue  # a body that only runs natively (e.g. reads a property): stays uninterpreted
                    facts.append(eq)
                    nxt.extend(self._apps([eq], by_decl))
            frontier = nxt
            level += 1
        return facts

    def instance(self, name, app):
        ps, ret = self.kinds(name)
        argvals = [T(k, app.arg(i)) for i, (_, k) in enumerate(ps)]
        body = self.body_val(name, argvals)
        return app == body.t

    def _apps(self, formulas, by_decl):
        res, have = [], set()
        for f in formulas:
            key = (pin(f), len(by_decl))
            hit = self._apps_cache.get(key)
            if hit is None:
                hit = self._apps_one(f, by_decl)
                self._apps_cache[key] = hit
            for a in hit:
                if a.get_id() not in have:
                    have.add(a.get_id())
                    res.append(a)
        return res

    def _apps_one(self, f, by_decl):
        """ground applications of declared spec functions under f; memoised per sub-term id (formulas of one
        run share almost all their sub-terms, so each distinct node is visited once per run)"""
        memo = self._under
        gen = len(by_decl)
        stack = [(f, False)]
        while stack:
            t, done = stack.pop()
            k = (t.get_id(), gen)
            if k in memo:
                continue
            if z3.is_quantifier(t):
                kids = [t.body()]
            elif z3.is_app(t):
                kids = t.children()
            else:
                memo[k] = ()
                continue
            if not done:
                stack.append((t, True))
                for ch in kids:
                    if (ch.get_id(), gen) not in memo:
                        stack.append((ch, False))
                continue
            acc = {}
            for ch in kids:
                for a in memo.get((ch.get_id(), gen), ()):
                    acc[a.get_id()] = a
            if z3.is_app(t) and t.decl().name() in by_decl and not _has_var(t):
                acc[t.get_id()] = t
            memo[k] = tuple(acc.values())
        return list(memo[(f.get_id(), gen)])


def _has_var(t):
    stack = [t]
    seen = set()
    while stack:
        x = stack.pop()
        if x.get_id() in seen:
            continue
        seen.add(x.get_id())
        if z3.is_var(x):
            return True
        if z3.is_quantifier(x):
            stack.append(x.body())
        elif z3.is_app(x):
            stack.extend(x.children())
    return False
