"""Function-by-function verification driver: generate obligations for one function under
contract from /repo's current source, discharge them with z3 (ground unfolding), and
report per-clause verdicts."""
from __future__ import annotations

import ast
import json
import os
import signal
import time
import traceback

import z3

from .contracts import REGISTRY, Contract
from .core import Obligation, State, fresh_name, pin
from .expr import OK, RAISE
from .specs import SpecLib
from .stmt import BREAK, CONTINUE, NORMAL, RETURN, StmtMixin, comps_in_order, loops_in_order
from .universe import Source, Universe
from .vals import Cls, T, Tup, Unsupported


class Engine(StmtMixin):
    def __init__(self, src: Source | None = None):
        self.src = src or Source()
        super().__init__(Universe(self.src))
        self.speclib = SpecLib(self)
        self.speclib.declare_all()
        self.cur_module = "__spec__"
        self.cur_class = None
        self.cur_contract = None
        self.cur_fn_node = None
        self.fn_key_inner = None
        self.loop_ord = {}
        self.used_contracts = set()

    # ------------------------------------------------------------------
    def gen_obligations(self, key: str):
        """symbolically execute function `key` against its contract; returns (obligations, info)"""
        c: Contract = REGISTRY[key]
        fn = self.src.functions.get(key)
        if fn is None:
            raise Unsupported(f"function {key} not found in source")
        mod, qual = key.split(":")
        self.fn_key = key
        self.cur_module = mod
        self.cur_class = qual.split(".")[0] if "." in qual and qual.split(".")[0] in self.src.classes else None
        self.cur_contract = c
        self.speclib.opaque = set(self.speclib.base_opaque) | set(getattr(c, 'hide', ()))
        self.speclib._declared_all = False
        self.speclib.declare_all()
        self.speclib.revealed = set(c.unfold)
        self.cur_fn_node = fn
        self.loop_ord = loops_in_order(fn)
        self.comp_ord = comps_in_order(fn)
        self.obligations = []
        from .core import AxiomList

        self.axioms = AxiomList()
        import z3 as _z3
        self._feas = _z3.Solver()
        self._feas.set("timeout", 1000)
        self._feas_stack = []
        from .abstraction import Abstractor as _Abstractor

        self._feas_abs = _Abstractor(self.V)
        self.used_contracts = set()
        U = self.U
        env = {}
        a = fn.args
        for p in a.posonlyargs + a.args + a.kwonlyargs:
            env[p.arg] = T("V", z3.Const("p_" + p.arg, self.V))
        if a.vararg:
            env[a.vararg.arg] = T("tuple", z3.Const("p_" + a.vararg.arg, U.SeqV))
        if a.kwarg:
            pass  # **kwds of an abstract method: no keyword is ever passed by the package (checked at call sites)
        if ".<locals>." in qual:
            # a nested function: the variables it reads from the enclosing function are further (symbolic) parameters,
            # constrained by the contract's requires like any other
            outer = self.src.functions.get(mod + ":" + qual.rsplit(".<locals>.", 1)[0])
            if outer is not None:
                oa = outer.args
                names = [p.arg for p in oa.posonlyargs + oa.args + oa.kwonlyargs]
                for n in outer.body:
                    if isinstance(n, ast.Assign):
                        names += [t.id for t in n.targets if isinstance(t, ast.Name)]
                for nm in names:
                    if nm not in env:
                        env[nm] = T("V", z3.Const("p_" + nm, self.V))
        if fn.name == "__init__" and self.cur_class:
            from .expr import Rec

            env["self"] = Rec(self.cur_class)  # the object under construction
        is_gen = any(isinstance(n, (ast.Yield, ast.YieldFrom)) for n in _own_nodes(fn))
        code_env = dict(env)
        pre = []
        mut = dict(getattr(c, "mutates", None) or {})
        for name, cls in mut.items():
            # an object the function updates in place: the body works on a record of its fields (initially the
            # entry values), the postconditions read the record at exit as `name` and the entry object as `name0`
            if name not in env or not isinstance(env[name], T):
                raise Unsupported(f"mutates: no parameter {name}")
            code_env[name] = self.rec_of(cls, env[name].t)
            if name != "self":
                pre.append(self.isinstance_term(env[name], Cls(cls)))
        st = State(code_env, [], z3.Empty(U.SeqV) if is_gen else None, "code")
        st.ghost["entry"] = dict(env)
        spec_st = State(dict(env), [], None, "spec")
        for f in pre:
            spec_st = spec_st.fork(f)

        def exit_env(s):
            from .expr import Rec

            e2 = dict(env)
            for name in list(mut) + (["self"] if isinstance(env.get("self"), Rec) else []):
                cur = s.env.get(name)
                if isinstance(cur, Rec):
                    e2[name] = T("V", self.rec_term(cur))
                if isinstance(env.get(name), T):
                    e2[name + "0"] = env[name]
            return e2

        if self.cur_class and "self" in env and isinstance(env["self"], T) and not any(
                isinstance(d, ast.Name) and d.id == "staticmethod" for d in fn.decorator_list):
            # dynamic dispatch: a method body only ever runs with self an instance of its class
            f = self.isinstance_term(env["self"], Cls(self.cur_class))
            pre.append(f)
            spec_st = spec_st.fork(f)
        for cl in c.requires:
            f = self.truthy(self.ev1(c.parsed(cl), spec_st))
            pre.append(f)
            spec_st = spec_st.fork(f)  # later clauses are read under the earlier ones
        st = self.assume(st, pre)
        if c.lemmas:
            from .lemmas import LEMMAS, instance

            facts = []
            for item in c.lemmas:
                if isinstance(item, (tuple, list)) and item[0] in LEMMAS:
                    facts.append(instance(self, item[0], item[1], st))
            if facts:
                st = self.assume(st, facts)
        # cover: the precondition is satisfiable
        self.obligations.append(Obligation(f"{key}/cover:requires", [], z3.And(*pre) if pre else z3.BoolVal(True), "requires satisfiable", must_be_sat=True))
        outs = self.exec_block(fn.body, st)
        exits = {"normal": 0, "raise": 0}
        for tag, p, s in outs:
            if tag in (NORMAL, RETURN):
                exits["normal"] += 1
                val = p if tag == RETURN and p is not None else T("V", U.none)
                ps = State(exit_env(s), s.pc, None, "spec", None, dict(s.ghost))
                if is_gen:
                    ps.env["out"] = T("list", s.out)
                    for idx, cl in enumerate(c.yields):
                        self.oblige(s, f"yields#{idx}", self.truthy(self.ev1(c.parsed(cl), ps)), cl)
                    ps.env["result"] = T("V", U.con("VGen", s.out, U.none))
                    for idx, cl in enumerate(c.ensures):
                        self.oblige(s, f"post#{idx}", self.truthy(self.ev1(c.parsed(cl), ps)), cl)
                else:
                    ps.env["result"] = val
                    for idx, cl in enumerate(c.ensures):
                        self.oblige(s, f"post#{idx}", self.truthy(self.ev1(c.parsed(cl), ps)), cl)
                es = State(dict(env), s.pc, None, "spec", None, dict(s.ghost))  # conditions are over entry values
                for ecls, cond in c.raises_iff:
                    self.oblige(s, f"raises-iff:{ecls}:returned", z3.Not(self.truthy(self.ev1(c.parsed(cond), es))), cond)
            elif tag == RAISE:
                exits["raise"] += 1
                ps = State(exit_env(s), s.pc, None, "spec", None, dict(s.ghost))
                ps.env["exc"] = T("V", p)
                for idx, cl in enumerate(getattr(c, "raises_ensures", ())):
                    self.oblige(s, f"raises-post#{idx}", self.truthy(self.ev1(c.parsed(cl), ps)), cl)
                allowed = list(c.raises) + [e for e, _ in c.raises_iff]
                goal = z3.Or(*[U.isinstance_exc(p, a) for a in allowed]) if allowed else z3.BoolVal(False)
                self.oblige(s, "raises", goal, f"only {allowed} may escape")
                es = State(dict(env), s.pc, None, "spec", None, dict(s.ghost))
                for ecls, cond in c.raises_iff:
                    self.oblige(s, f"raises-iff:{ecls}:raised", z3.Implies(U.isinstance_exc(p, ecls), self.truthy(self.ev1(c.parsed(cond), es))), cond)
                if is_gen:
                    ps.env["result"] = T("V", U.con("VGen", s.out if s.out is not None else z3.Empty(U.SeqV), p))
                    for idx, cl in enumerate(c.ensures):
                        self.oblige(s, f"post#{idx}", self.truthy(self.ev1(c.parsed(cl), ps)), cl)
            else:
                raise Unsupported("break/continue escaping function body")
        return self.obligations, {"exits": exits, "paths": len(outs), "callees": sorted(self.used_contracts)}

    # ------------------------------------------------------------------
    def solve(self, ob: Obligation, timeout_ms=10000, depth=2):
        """returns (verdict, seconds, model_or_None). verdict: proved | refuted | unknown | covered | vacuous.
        Ladder: direct query; then congruence cuts; then case analysis on the most frequent
        arithmetic `if` condition inside arguments of uninterpreted builtins, each case with cuts.
        Every step only adds consequences or splits exhaustively, so `unsat` stays sound."""
        from .core import _has_quant

        t0 = time.time()
        depth = max(depth, getattr(self, "default_depth", 0), getattr(self.cur_contract, "depth", 0) or 0)
        base = list(ob.hyps) + list(self.axioms)
        goal = ob.goal
        if ob.must_be_sat:
            from .core import _abstract_quant

            # satisfiability with quantified subformulas abstracted by Boolean constants: `unsat` is a
            # definite vacuity, `sat` means the quantifier-free skeleton of the precondition is consistent
            forms = [_abstract_quant(f) for f in base if not _has_quant(f)] + [_abstract_quant(goal)]
            r = self._check(forms, timeout_ms)[0]
            if r == z3.unknown:
                s2 = z3.Solver()  # the default tactic is more complete on sat instances
                s2.set("timeout", int(max(timeout_ms, 10000)))
                for f in forms:
                    s2.add(f)
                r = s2.check()
            return ("covered" if r == z3.sat else "vacuous" if r == z3.unsat else "unknown"), time.time() - t0, None
        if getattr(self.cur_contract, "open_goal", False):
            goal = self.open_goal(goal, base)
        neg = z3.Not(self._skolemize(goal))
        forms = base + [neg]
        allf = self.saturate(forms, base, depth, focus=[neg])
        self.last_rung = "direct"
        # cheapest rung first: sequence / string theory abstracted away (pyvc/abstraction.py); only `unsat` counts
        from .abstraction import Abstractor, Untranslatable

        try:
            ab = Abstractor(self.V).run(allf)
            # quantifiers as Boolean atoms first (their instances are already there: saturate): a quantifier-free query in
            # equality + datatypes + linear arithmetic, decided in well under a second even with a thousand formulas
            from .core import _abstract_quant

            s0 = z3.Solver()
            s0.set("timeout", int(min(timeout_ms, 5000)))
            for f in ab:
                s0.add(_abstract_quant(f))
            r = s0.check()
            if r != z3.unsat:
                r = self._check(ab, min(timeout_ms, 4000), retries=False)[0]
        except (z3.Z3Exception, Untranslatable, KeyError):
            r = z3.unknown
        if r == z3.unsat:
            self.last_rung = "abstract-seq"
            return "proved", time.time() - t0, None
        r, model = self._check(allf, timeout_ms)
        if r != z3.unsat:
            # `sat` under partial unfolding is not a verdict either: try the assisted ladder before looking for a witness
            r2, model2 = self._assisted(allf, timeout_ms, 2)
            if r2 == z3.unsat:
                r, model = r2, None
            elif r == z3.unknown:
                r, model = r2, model2
        if r != z3.unsat:
            # a `sat` under partial unfolding / with quantifiers may be an artefact, and with quantifiers z3
            # mostly answers `unknown`: look for a witness on bounded shapes where the encoding is exact
            m2 = self.refute(forms, base, min(timeout_ms, 8000))
            if m2 is not None:
                return "refuted", time.time() - t0, m2
            if r == z3.sat:
                r = z3.unknown  # no bounded witness: undecided, never a violation
        dt = time.time() - t0
        if r == z3.unsat:
            return "proved", dt, None
        return "unknown", dt, None

    def refute(self, forms, known, timeout_ms, bound=2):
        """refutation mode (DESIGN 2.4): sequences of length <= bound, quantifiers over sequence
        positions expanded to the positions 0..bound-1, spec functions unfolded 3 deep. A model of
        that is a candidate witness; it only counts after native replay."""
        from .core import _abstract_quant

        saved_reveal = self.speclib.revealed
        self.speclib.revealed = set(self.speclib.opaque)  # candidates should satisfy the well-formedness predicates too
        try:
            return self._refute(forms, known, timeout_ms, bound)
        finally:
            self.speclib.revealed = saved_reveal

    def _refute(self, forms, known, timeout_ms, bound):
        from .core import _abstract_quant

        # cheapest candidate: quantified subformulas abstracted by Boolean constants
        s0 = z3.Solver()
        s0.set("timeout", int(min(timeout_ms, 3000)))
        for f in self.saturate(forms, known, depth=2, rounds=1):
            s0.add(_abstract_quant(f))
        if s0.check() == z3.sat:
            return s0.model()
        allf = self.saturate(forms, known, depth=3, rounds=2)
        for _ in range(3):
            subs = []
            stack, seen = list(allf), set()
            while stack:
                t = stack.pop()
                if t.get_id() in seen:
                    continue
                seen.add(t.get_id())
                if z3.is_quantifier(t):
                    if t.is_forall() and t.num_vars() <= 2 and all(t.var_sort(i) == z3.IntSort() for i in range(t.num_vars())):
                        insts = []
                        import itertools as _it
                        for combo in _it.product(range(bound), repeat=t.num_vars()):
                            insts.append(z3.substitute_vars(t.body(), *[z3.IntVal(c) for c in reversed(combo)]))
                        subs.append((t, z3.And(*insts)))
                    continue
                if z3.is_app(t):
                    stack.extend(t.children())
            if not subs:
                break
            allf = [z3.substitute(f, *subs) for f in allf]
            allf = allf + self.speclib.unfold(allf, depth=2, known=known)
        lens = {}
        stack, seen = list(allf), set()
        while stack:
            t = stack.pop()
            if t.get_id() in seen:
                continue
            seen.add(t.get_id())
            if z3.is_quantifier(t):
                continue
            if z3.is_app(t):
                if t.decl().kind() == z3.Z3_OP_SEQ_LENGTH and not _has_free_var(t):
                    lens[t.get_id()] = t
                stack.extend(t.children())
        allf = allf + [l <= bound for l in lens.values()]
        # whatever quantifier is left (deeper than the expansion went) is dropped: the candidate may then be
        # spurious, which the native replay decides
        left = []
        stack, seen = list(allf), set()
        while stack:
            t = stack.pop()
            if t.get_id() in seen:
                continue
            seen.add(t.get_id())
            if z3.is_quantifier(t):
                left.append((t, z3.BoolVal(True) if t.is_forall() else z3.BoolVal(False)))
            elif z3.is_app(t):
                stack.extend(t.children())
        if left:
            allf = [z3.substitute(f, *left) for f in allf]
        s = z3.Solver()
        s.set("timeout", int(timeout_ms))
        for f in allf:
            s.add(f)
        if s.check() == z3.sat:
            return s.model()
        return None

    def saturate(self, forms, known, depth=2, rounds=2, focus=None):
        """definitional unfolding and sequence-element instantiation, alternated. Goal-directed when `focus`
        (the negated goal) is given: only applications / element terms occurring in the goal or in facts
        derived from it are expanded; the hypotheses were already expanded when they were assumed
        (Core.assume). Dropping consequences is always sound; it keeps the query small."""
        allf = list(forms)
        n_ax = len(self.axioms)
        have = {f.get_id() for f in allf}
        src = list(focus) if focus is not None else list(forms)
        new = list(src)
        if focus is not None:
            # spec applications among the hypotheses that talk about a compound ground term of the goal (an element
            # s[t], an attribute of it, ...) are expanded too: the goal itself may contain no spec application at all
            new += self._goal_relevant_apps(forms, focus)
        for _ in range(rounds):
            unfolded = self.speclib.unfold(new, depth=depth, known=known)
            facts = [f for f in unfolded if f.get_id() not in have]
            for f in facts:
                have.add(f.get_id())
            allf += facts
            src += unfolded  # also the definitions that were already among the hypotheses: expansion goes on through them
            inst = [f for f in self._instantiate(allf, sources=src) if f.get_id() not in have]
            inst += self._nth_of_definitions(allf, have, sources=src)
            for f in inst:
                have.add(f.get_id())
            # facts about uninterpreted builtins (dict_index, progressions, ...) created while unfolding
            fresh_ax = [a for a in self.axioms[n_ax:] if a.get_id() not in have]
            n_ax = len(self.axioms)
            for a in fresh_ax:
                have.add(a.get_id())
            allf += inst + fresh_ax
            src += inst
            new = inst + fresh_ax
            if not new:
                break
        fresh_ax = [a for a in self.axioms[n_ax:] if a.get_id() not in have]
        return allf + fresh_ax

    def _goal_relevant_apps(self, forms, focus):
        goal_terms = set()
        stack, seen = list(focus), set()
        while stack:
            t = stack.pop()
            if t.get_id() in seen:
                continue
            seen.add(t.get_id())
            if z3.is_quantifier(t):
                continue
            if z3.is_app(t):
                if t.num_args() and t.sort() == self.V:
                    goal_terms.add(t.get_id())
                stack.extend(t.children())
        self.speclib.declare_all()
        by_decl = {d.name(): n for n, d in self.speclib.decls.items()}
        out = []
        for a in self.speclib._apps(forms, by_decl):
            name = by_decl[a.decl().name()]
            # ... and the applications of the predicates this contract reveals (`unfold=[...]`): few, and asked for
            if (name in self.speclib.revealed and name in self.speclib.opaque) or any(a.arg(i).get_id() in goal_terms for i in range(a.num_args())):
                out.append(a)
        return out

    def _nth_of_definitions(self, allf, have, sources=None):
        """For a sequence-valued spec application S with a definitional instance S == body in the query and
        a ground element term S[t]: add  0 <= t < len(S)  ->  S[t] == body[t]  with body[t] pushed through
        if-then-else / concatenation / unit (valid sequence facts). This exposes the element terms A[t] of
        the prefix recursion S == A ++ [x], which the induction hypotheses talk about."""
        defs = {}
        for f in allf:
            if z3.is_eq(f) and z3.is_app(f.arg(0)) and f.arg(0).decl().name().startswith("spec_") and z3.is_seq(f.arg(0)) and _appends_one(f.arg(1)):
                defs[f.arg(0).get_id()] = (f.arg(0), f.arg(1))
        if not defs:
            return []
        out = []
        nths = {}
        for f in (sources if sources is not None else allf):
            _, n = _scan_quant_nth(f)
            for sid, idxs in n.items():
                if sid in defs:
                    nths.setdefault(sid, {}).update(idxs)
        for sid, idxs in nths.items():
            lhs, body = defs[sid]
            for t in idxs.values():
                fact = z3.Implies(z3.And(t >= 0, t < z3.Length(lhs)), lhs[t] == _nth_expand(body, t))
                if fact.get_id() not in have:
                    have.add(fact.get_id())
                    out.append(fact)
        return out

    def open_goal(self, goal, known, depth=4):
        """a conjunct of the goal that is an application P(x) of a revealed Boolean spec predicate is replaced by its
        definitional body (P(x) <=> body), repeatedly: universal quantifiers inside then surface and are skolemised like any
        other part of the goal (contract option `open_goal=True`)"""
        from .core import _conjuncts, _note_recognisers, _simplify_known

        names = {d.name(): n for n, d in self.speclib.decls.items()}
        g = {}
        for k in known:
            _note_recognisers(k, g)

        def opened(f, d):
            if d <= 0:
                return f
            if z3.is_and(f):
                return z3.And(*[opened(c, d) for c in f.children()])
            if z3.is_app(f) and f.decl().kind() == z3.Z3_OP_IMPLIES:
                return z3.Implies(f.arg(0), opened(f.arg(1), d))
            if z3.is_app(f) and z3.is_bool(f) and f.decl().name() in names:
                n = names[f.decl().name()]
                if n in self.speclib.opaque and n not in self.speclib.revealed:
                    return f
                self.speclib._ghost = g
                try:
                    body = self.speclib.instance(n, f).arg(1)
                except Unsupported:
                    return f
                finally:
                    self.speclib._ghost = None
                from .core import simp

                return opened(simp(_simplify_known(body, g)), d - 1)
            if z3.is_app(f) and f.decl().kind() == z3.Z3_OP_ITE and z3.is_bool(f):
                c0 = z3.simplify(f.arg(0))
                if z3.is_true(c0):
                    return opened(f.arg(1), d)
                if z3.is_false(c0):
                    return opened(f.arg(2), d)
            return f

        return opened(goal, depth)

    def _skolemize(self, goal):
        """universally quantified conjuncts of a goal: replace bound variables by fresh constants
        (proving phi(c) for a fresh c proves forall j. phi(j)); makes the element terms visible to
        `_instantiate`"""
        if z3.is_quantifier(goal) and goal.is_forall():
            cs = [z3.Const(fresh_name("sk_" + goal.var_name(i)), goal.var_sort(i)) for i in range(goal.num_vars())]
            return self._skolemize(z3.substitute_vars(goal.body(), *reversed(cs)))
        if z3.is_and(goal):
            return z3.And(*[self._skolemize(c) for c in goal.children()])
        if z3.is_app(goal) and goal.decl().kind() == z3.Z3_OP_IMPLIES:
            return z3.Implies(goal.arg(0), self._skolemize(goal.arg(1)))
        return goal

    def _instantiate(self, forms, rounds=2, sources=None):
        """z3 rewrites seq.nth internally, so E-matching on `s[j]` patterns is unreliable (obligations
        came back `unknown (incomplete theory seq)`). Do that instantiation here instead: for every
        universally quantified subformula Q = forall j. phi(j) (one bound variable) whose body reads
        S[j], and every ground term S[t] in the query, add the tautology Q -> phi(t)."""
        added, seen_inst = [], set()
        cur = list(forms)
        allq, alln, skolems = {}, {}, {}
        srcids = None if sources is None else {f.get_id() for f in sources}
        for _ in range(rounds):
            for f in cur:
                q, n = _scan_quant_nth(f)
                allq.update(q)
                if srcids is not None and f.get_id() not in srcids:
                    continue  # element terms are taken from the goal-relevant formulas only
                for k, v in n.items():
                    alln.setdefault(k, {}).update(v)
            new = []
            # the goal's own skolem positions are tried on every position quantifier, whatever sequence it ranges over:
            # the sequence of the hypothesis and that of the goal are often equal only by congruence (o.f == o'.f)
            for f in cur:
                if srcids is None or f.get_id() in srcids:
                    skolems.update(_scan_skolems(f))
            for q in allq.values():
                if skolems and _nth_on_var_cached(q) and q.var_sort(0).kind() == z3.Z3_INT_SORT:
                    for idx in skolems.values():
                        key = (q.get_id(), idx.get_id())
                        if key not in seen_inst:
                            seen_inst.add(key)
                            if q.is_forall():
                                new.append(z3.Implies(q, z3.substitute_vars(q.body(), idx)))
                            else:  # witness introduction (used contrapositively under a negated existential)
                                new.append(z3.Implies(z3.substitute_vars(q.body(), idx), q))
            for q in allq.values():
                for sq in _nth_on_var_cached(q):
                    for idx in alln.get(sq.get_id(), {}).values():
                        key = (q.get_id(), idx.get_id())
                        if key in seen_inst:
                            continue
                        seen_inst.add(key)
                        if q.is_forall():
                            new.append(z3.Implies(q, z3.substitute_vars(q.body(), idx)))
                        else:  # witness introduction: psi(t) -> exists j. psi(j)
                            new.append(z3.Implies(z3.substitute_vars(q.body(), idx), q))
            if not new:
                break
            added.extend(new)
            cur = new
            if srcids is not None:
                srcids |= {f.get_id() for f in new}
        return added

    def _check(self, forms, timeout_ms, inert=True, retries=True):
        """z3 on one query. Observed: (i) with its own quantifier instantiation on, z3 runs into matching loops
        on the nested well-formedness predicates, while the quantifiers that matter (over sequence positions)
        are instantiated by `_instantiate` anyway; (ii) on seq + datatype queries z3 sometimes gives up at once
        with `unknown (incomplete (theory seq))` and succeeds on the identical query with another random seed.
        So: a short attempt with E-matching, an attempt with quantifiers inert, then the full budget; quick
        give-ups are retried with other seeds. Only `unsat` is ever taken at face value."""
        from .core import _has_quant

        has_q = any(_has_quant(f) for f in forms)
        first_model = None

        def attempt(budget, inert_q, seed):
            s = z3.Solver()
            s.set("timeout", int(budget))
            s.set("smt.random_seed", seed)
            if inert_q:
                s.set("smt.ematching", False)
                s.set("smt.mbqi", False)
            for f in forms:
                s.add(f)
            t0 = time.time()
            r = s.check()
            quick = (time.time() - t0) < 0.5 * budget / 1000.0
            return r, (s.model() if r == z3.sat else None), quick

        plan = []
        if has_q and inert:
            plan.append((min(timeout_ms, 1500), False))
            plan.append((min(timeout_ms, 10000), True))
        plan.append((timeout_ms, False))
        last = z3.unknown
        for budget, inert_q in plan:
            for seed in ((0, 7, 23) if retries else (0,)):
                r, m, quick = attempt(budget, inert_q, seed)
                if r == z3.unsat:
                    return z3.unsat, None
                if r == z3.sat and first_model is None and not inert_q:
                    first_model = m
                last = r if not inert_q else last
                if not (r == z3.unknown and quick):
                    break  # a timeout or a model: another seed will not help cheaply
        if first_model is not None:
            return z3.sat, first_model
        return z3.unknown, None

    def _uf_apps(self, forms):
        names = {f.name() for f in self._ufs.values()}
        out = {}
        stack, seen = list(forms), set()
        while stack:
            t = stack.pop()
            if t.get_id() in seen:
                continue
            seen.add(t.get_id())
            if z3.is_quantifier(t):
                continue  # bound variables: no ground cuts
            if z3.is_app(t):
                if t.num_args() and t.decl().name() in names:
                    out.setdefault(t.decl().name(), []).append(t)
                stack.extend(t.children())
        return out

    def _cuts(self, forms, max_pairs=400):
        """congruence assistance: for two applications of the same uninterpreted builtin whose
        arguments are provably equal under the quantifier-free part of the query, add f(a)==f(b)"""
        from .core import _has_quant

        hy = [f for f in forms if not _has_quant(f)]
        cuts, tried = [], 0
        r0, m0 = self._check(hy, 3000)
        if r0 == z3.unsat:
            return [z3.BoolVal(False)]
        for name, apps in self._uf_apps(forms).items():
            for x in range(len(apps)):
                for y in range(x + 1, len(apps)):
                    if tried >= max_pairs:
                        return cuts
                    a, b = apps[x], apps[y]
                    if all(a.arg(k).eq(b.arg(k)) for k in range(a.num_args())):
                        continue
                    if m0 is not None:
                        # only pairs that agree in one model of the hypotheses can be provably equal
                        try:
                            if not all(z3.is_true(m0.eval(a.arg(k) == b.arg(k), model_completion=True)) for k in range(a.num_args())):
                                continue
                        except z3.Z3Exception:
                            pass
                    tried += 1
                    r, _ = self._check(hy + [z3.Not(z3.And(*[a.arg(k) == b.arg(k) for k in range(a.num_args())]))], 1000)
                    if r == z3.unsat:
                        cuts.append(a == b)
        return cuts

    def _split_atoms(self, forms, how_many=1):
        count = {}
        keep = {}
        for name, apps in self._uf_apps(forms).items():
            for a in apps:
                stack, seen = list(a.children()), set()
                while stack:
                    t = stack.pop()
                    if t.get_id() in seen or not z3.is_app(t):
                        continue
                    seen.add(t.get_id())
                    if t.decl().kind() == z3.Z3_OP_ITE:
                        c = t.arg(0)
                        if z3.is_app(c) and c.decl().kind() in (z3.Z3_OP_LE, z3.Z3_OP_LT, z3.Z3_OP_GE, z3.Z3_OP_GT):
                            count[c.get_id()] = count.get(c.get_id(), 0) + 1
                            keep[c.get_id()] = c
                    stack.extend(t.children())
        ranked = sorted(count, key=lambda k: -count[k])
        return [keep[k] for k in ranked[:how_many]]

    def _assisted(self, allf, timeout_ms, levels):
        quick = min(timeout_ms, 3000)
        if levels > 0:
            atoms = self._split_atoms(allf)
            if atoms:
                c = atoms[0]
                verdicts = []
                for case in (c, z3.Not(c)):
                    fs = allf + [case]
                    r, model = self._check(fs, quick)
                    if r == z3.unknown:
                        r, model = self._assisted(fs, timeout_ms, levels - 1)
                    if r == z3.sat:
                        return r, model
                    verdicts.append(r)
                if all(v == z3.unsat for v in verdicts):
                    return z3.unsat, None
        cuts = self._cuts(allf)
        if cuts:
            return self._check(allf + cuts, timeout_ms)
        return z3.unknown, None


def _appends_one(body):
    """body == if c then [] else A ++ [x]  (the shape of a prefix recursion that appends one element)"""
    if not (z3.is_app(body) and body.decl().kind() == z3.Z3_OP_ITE):
        return False
    for br in (body.arg(1), body.arg(2)):
        if z3.is_app(br) and br.decl().kind() == z3.Z3_OP_SEQ_CONCAT and br.num_args() == 2:
            last = br.arg(1)
            if z3.is_app(last) and last.decl().kind() == z3.Z3_OP_SEQ_UNIT:
                return True
    return False


def _nth_expand(seq, t):
    """seq[t] pushed through ite / concat / unit (t assumed in range)"""
    if z3.is_app(seq):
        k = seq.decl().kind()
        if k == z3.Z3_OP_ITE:
            return z3.If(seq.arg(0), _nth_expand(seq.arg(1), t), _nth_expand(seq.arg(2), t))
        if k == z3.Z3_OP_SEQ_UNIT:
            return seq.arg(0)
        if k == z3.Z3_OP_SEQ_CONCAT:
            parts = seq.children()
            first, rest = parts[0], (parts[1] if len(parts) == 2 else z3.Concat(*parts[1:]))
            return z3.If(t < z3.Length(first), _nth_expand(first, t), _nth_expand(rest, t - z3.Length(first)))
    return seq[t]


_scan_cache = {}
_nov_cache = {}


def _scan_quant_nth(f):
    """(universal one-variable quantifiers, ground s[t] terms grouped by id(s)) occurring in f -- cached per formula"""
    k = pin(f)
    hit = _scan_cache.get(k)
    if hit is not None:
        return hit
    quants, nths = {}, {}
    stack, seen = [f], set()
    while stack:
        t = stack.pop()
        if t.get_id() in seen:
            continue
        seen.add(t.get_id())
        if z3.is_quantifier(t):
            if (t.is_forall() or t.is_exists()) and t.num_vars() == 1:
                quants[t.get_id()] = t
            stack.append(t.body())
            continue
        if z3.is_app(t):
            if _is_elem(t) and not _has_free_var(t):
                nths.setdefault(t.arg(0).get_id(), {})[t.arg(1).get_id()] = t.arg(1)
            stack.extend(t.children())
    _scan_cache[k] = (quants, nths)
    return quants, nths


_sk_cache = {}


def _scan_skolems(f):
    """integer skolem constants (introduced by Engine._skolemize) occurring in f"""
    k = pin(f)
    hit = _sk_cache.get(k)
    if hit is not None:
        return hit
    out = {}
    stack, seen = [f], set()
    while stack:
        t = stack.pop()
        if t.get_id() in seen:
            continue
        seen.add(t.get_id())
        if z3.is_quantifier(t):
            stack.append(t.body())
        elif z3.is_app(t):
            if t.num_args() == 0 and t.decl().kind() == z3.Z3_OP_UNINTERPRETED and t.sort().kind() == z3.Z3_INT_SORT and t.decl().name().startswith("sk_"):
                out[t.get_id()] = t
            stack.extend(t.children())
    _sk_cache[k] = out
    return out


def _nth_on_var_cached(q):
    k = pin(q)
    if k not in _nov_cache:
        _nov_cache[k] = [sq for sq in _nth_on_var(q.body()) if not _has_free_var(sq)]
    return _nov_cache[k]


def _has_free_var(t):
    stack, seen = [t], set()
    while stack:
        x = stack.pop()
        if x.get_id() in seen:
            continue
        seen.add(x.get_id())
        if z3.is_var(x):
            return True
        if z3.is_app(x):
            stack.extend(x.children())
        elif z3.is_quantifier(x):
            stack.append(x.body())
    return False


def _is_elem(t):
    """an element term: S[t] of a sequence, or the one-character substring s[t:t+1] of a string"""
    k = t.decl().kind()
    if k == z3.Z3_OP_SEQ_NTH:
        return True
    if k == z3.Z3_OP_SEQ_EXTRACT and t.num_args() == 3:
        n = t.arg(2)
        return z3.is_int_value(n) and n.as_long() == 1
    return False


def _nth_on_var(body):
    """sequence terms S such that S[Var(0)] occurs in body"""
    out = {}
    stack, seen = [body], set()
    while stack:
        x = stack.pop()
        if x.get_id() in seen:
            continue
        seen.add(x.get_id())
        if z3.is_app(x):
            if _is_elem(x) and z3.is_var(x.arg(1)) and z3.get_var_index(x.arg(1)) == 0:
                out[x.arg(0).get_id()] = x.arg(0)
            stack.extend(x.children())
    return list(out.values())


def _own_nodes(fn):
    """nodes of fn excluding nested function bodies"""
    stack = list(fn.body)
    while stack:
        n = stack.pop()
        yield n
        for ch in ast.iter_child_nodes(n):
            if isinstance(ch, (ast.FunctionDef, ast.AsyncFunctionDef, ast.Lambda, ast.ClassDef)):
                continue
            stack.append(ch)


def _solve_child(eng, ob, timeout_ms, wfd):
    """runs in a forked child: full ladder for one obligation, result as JSON on the pipe"""
    try:
        verdict, dt, model = eng.solve(ob, timeout_ms)
        if verdict == "unknown":
            verdict, dt2, model = eng.solve(ob, timeout_ms * 3, depth=3)
            dt += dt2
        rec = {"verdict": verdict, "seconds": round(dt, 4), "rung": getattr(eng, "last_rung", "")}
        if model is not None:
            rec["model"] = model_summary(eng, model)
    except Exception as e:  # engine fault: never a verdict
        rec = {"verdict": "error", "seconds": 0.0, "error": f"{type(e).__name__}: {e}"}
    try:
        os.write(wfd, json.dumps(rec).encode())
    finally:
        os._exit(0)


def solve_parallel(eng, obs, timeout_ms, hard_s, jobs):
    """one forked child per obligation (z3 terms are not picklable; a fork shares them), at most
    `jobs` at a time, each killed after hard_s seconds: z3's own timeout is not always honoured
    (seq + quantifiers), and a stuck query must end `unknown`, never block the check."""
    results = [None] * len(obs)
    pending = list(range(len(obs)))
    running = {}  # pid -> (idx, rfd, t0)
    while pending or running:
        while pending and len(running) < jobs:
            idx = pending.pop(0)
            rfd, wfd = os.pipe()
            pid = os.fork()
            if pid == 0:
                os.close(rfd)
                _solve_child(eng, obs[idx], timeout_ms, wfd)
            os.close(wfd)
            running[pid] = (idx, rfd, time.time())
        time.sleep(0.01)
        for pid in list(running):
            idx, rfd, t0 = running[pid]
            done, _ = os.waitpid(pid, os.WNOHANG)
            if done == 0:
                if time.time() - t0 > hard_s:
                    os.kill(pid, signal.SIGKILL)
                    os.waitpid(pid, 0)
                    os.close(rfd)
                    results[idx] = {"verdict": "unknown", "seconds": round(time.time() - t0, 2), "error": "hard timeout"}
                    del running[pid]
                continue
            data = b""
            while True:
                chunk = os.read(rfd, 65536)
                if not chunk:
                    break
                data += chunk
            os.close(rfd)
            try:
                results[idx] = json.loads(data.decode())
            except Exception:
                results[idx] = {"verdict": "error", "seconds": round(time.time() - t0, 2), "error": "child died"}
            del running[pid]
    return results


def verify_function(key, src=None, timeout_ms=8000, verbose=False, jobs=None, hard_s=90):
    """-> dict(status, clauses{clause: verdict}, obligations[...], info)"""
    t0 = time.time()
    jobs = jobs or int(os.environ.get("PYVC_JOBS", "16"))
    try:
        eng = Engine(src)
        if key.startswith("lemma:"):
            from .lemmas import lemma_obligations

            obs, info = lemma_obligations(eng, key[6:]), {"exits": {}, "paths": 0, "callees": []}
        else:
            obs, info = eng.gen_obligations(key)
    except Unsupported as e:
        return {"key": key, "status": "unattachable", "reason": str(e), "clauses": {}, "obligations": [], "wall": time.time() - t0}
    except Exception as e:  # engine fault, never a verdict
        return {"key": key, "status": "engine-error", "reason": f"{type(e).__name__}: {e}", "trace": traceback.format_exc(), "clauses": {}, "obligations": [], "wall": time.time() - t0}
    gen_s = time.time() - t0
    solved = solve_parallel(eng, obs, timeout_ms, hard_s, jobs)
    results = []
    clauses = {}
    rank = {"proved": 0, "covered": 0, "unknown": 1, "error": 1, "vacuous": 2, "refuted": 3}
    for n, (ob, r) in enumerate(zip(obs, solved)):
        rec = {"clause": ob.clause, "n": n, "note": ob.note}
        rec.update(r)
        results.append(rec)
        prev = clauses.get(ob.clause)
        if prev is None or rank[r["verdict"]] > rank[prev]:
            clauses[ob.clause] = r["verdict"]
        if verbose:
            print(f"  {r['verdict']:8s} {r['seconds']:6.2f}s {ob.clause}  -- {ob.note[:70]}")
    status = "verified"
    if any(v == "refuted" for v in clauses.values()):
        status = "refuted"
    elif any(v == "error" for v in clauses.values()):
        status = "engine-error"
    elif any(v in ("unknown", "vacuous") for k, v in clauses.items() if not (v == "unknown" and "/cover:" in k)):
        status = "undecided"
    return {"key": key, "status": status, "clauses": clauses, "obligations": results, "info": info,
            "sha": (eng.src.func_sha(key) if not key.startswith("lemma:") else "lemma"), "wall": round(time.time() - t0, 3), "gen_s": round(gen_s, 3),
            "solver_s": round(sum(r["seconds"] for r in solved), 3)}


def model_summary(eng, model):
    """parameter values of a counter-model: printable form and a JSON tree for native replay"""
    out = {}
    tree = {}
    for d in model.decls():
        if d.arity() == 0 and d.name().startswith("p_"):
            try:
                out[d.name()[2:]] = str(model[d])
                tree[d.name()[2:]] = term_to_json(model[d])
            except Exception:
                pass
    out["__tree__"] = tree
    return out


def term_to_json(t, depth=0):
    if depth > 40:
        return {"$c": "?"}
    if z3.is_int_value(t):
        return {"$c": "int", "v": t.as_long()}
    if z3.is_rational_value(t):
        return {"$c": "real", "n": t.numerator_as_long(), "d": t.denominator_as_long()}
    if z3.is_true(t) or z3.is_false(t):
        return {"$c": "bool", "v": z3.is_true(t)}
    if z3.is_string_value(t):
        return {"$c": "str", "v": t.as_string()}
    if z3.is_app(t):
        k = t.decl().kind()
        if k == z3.Z3_OP_SEQ_EMPTY:
            return {"$c": "seq", "items": []}
        if k == z3.Z3_OP_SEQ_UNIT:
            return {"$c": "seq", "items": [term_to_json(t.arg(0), depth + 1)]}
        if k == z3.Z3_OP_SEQ_CONCAT:
            items = []
            for ch in t.children():
                j = term_to_json(ch, depth + 1)
                items.extend(j.get("items", []))
            return {"$c": "seq", "items": items}
        if k == z3.Z3_OP_DT_CONSTRUCTOR:
            return {"$c": t.decl().name(), "args": [term_to_json(a, depth + 1) for a in t.children()]}
    return {"$c": "?", "text": str(t)[:80]}
