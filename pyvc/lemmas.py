"""Inductive lemmas over spec functions (DESIGN 2.4): base and step obligations, discharged like any other
obligation; a proved lemma may then be instantiated by contracts (`lemmas=[(name, {param: expr})]`)."""
from __future__ import annotations

import ast

import z3

from .core import Obligation, State
from .vals import T

LEMMAS: dict[str, "Lemma"] = {}
KINDS = {"int": z3.IntSort, "bool": z3.BoolSort, "str": z3.StringSort}


class Lemma:
    def __init__(self, name, params, hyps, goal, induction=None, unfold=(), props=(), note="", depth=2, assumed=False):
        self.name = name
        self.params = dict(params)  # name -> kind (V | int | list | str | bool)
        self.hyps = list(hyps)
        self.goal = goal
        self.induction = induction
        self.unfold = list(unfold)
        self.props = list(props)
        self.note = note
        self.depth = depth
        self.assumed = assumed  # an external fact (not a theorem about the spec functions): never proved, always listed as an assumption


def lemma(name, **kw):
    LEMMAS[name] = Lemma(name, **kw)
    return LEMMAS[name]


def _consts(eng, lem, suffix=""):
    env = {}
    for p, k in lem.params.items():
        if k == "int":
            env[p] = T("int", z3.Int("L_" + p + suffix))
        elif k == "list":
            env[p] = T("list", z3.Const("L_" + p + suffix, eng.U.SeqV))
        elif k == "str":
            env[p] = T("str", z3.String("L_" + p + suffix))
        elif k == "bool":
            env[p] = T("bool", z3.Bool("L_" + p + suffix))
        else:
            env[p] = T("V", z3.Const("L_" + p + suffix, eng.V))
    return env


def _tr(eng, text, env):
    st = State(dict(env), [], None, "spec")
    save = eng.cur_module
    eng.cur_module = "__spec__"
    try:
        return eng.truthy(eng.ev1(ast.parse(text, mode="eval").body, st))
    finally:
        eng.cur_module = save


def lemma_obligations(eng, name):
    """obligations proving lemma `name` (by induction on lem.induction when given)"""
    lem = LEMMAS[name]
    eng.fn_key = "lemma:" + name
    eng.default_depth = lem.depth
    eng.speclib.revealed = set(lem.unfold)
    eng.obligations = []
    from .core import AxiomList

    eng.axioms = AxiomList()
    env = _consts(eng, lem)
    obs = []
    if not lem.induction:
        hyps = [_tr(eng, h, env) for h in lem.hyps]
        obs.append(Obligation(f"lemma:{name}/direct", hyps, _tr(eng, lem.goal, env), lem.goal))
        return obs
    k = lem.induction
    kt = env[k].t
    # base
    e0 = dict(env)
    e0[k] = T("int", z3.IntVal(0))
    obs.append(Obligation(f"lemma:{name}/lemma-base", [_tr(eng, h, e0) for h in lem.hyps], _tr(eng, lem.goal, e0), lem.goal + f" at {k}=0"))
    # step: hypotheses at k+1, induction hypothesis (hyps at k imply goal at k), k >= 0  |-  goal at k+1
    e1 = dict(env)
    e1[k] = T("int", kt + 1)
    ih = z3.Implies(z3.And(*[_tr(eng, h, env) for h in lem.hyps]), _tr(eng, lem.goal, env))
    obs.append(Obligation(f"lemma:{name}/lemma-step", [kt >= 0, ih] + [_tr(eng, h, e1) for h in lem.hyps], _tr(eng, lem.goal, e1), lem.goal + f" at {k}+1"))
    return obs


def instance(eng, name, bindings, st):
    """the lemma instantiated with contract expressions: And(hyps) -> goal (a fact once the lemma is proved)"""
    lem = LEMMAS[name]
    env = {}
    sstate = State(dict(st.env), st.pc, None, "spec", None, dict(st.ghost))
    for p, kind in lem.params.items():
        v = eng.ev1(ast.parse(bindings[p], mode="eval").body, sstate)
        if kind == "int":
            v = T("int", eng.int_term(v))
        elif kind == "list":
            v = T("list", eng.seq_term(v))
        elif kind == "V":
            v = T("V", eng.box(v))
        env[p] = v
    hyps = [_tr(eng, h, env) for h in lem.hyps]
    return z3.Implies(z3.And(*hyps), _tr(eng, lem.goal, env))
