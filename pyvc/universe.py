"""Value universe for pyvc: class shapes read mechanically from /repo's source text and
the z3 datatype `V` of all Python values the verified code manipulates (DESIGN 2.2).

Nothing about the package's classes is written down by hand here except
 * CONFIGURABLE: classes whose class-level attributes are modelled as (symbolic)
   fields because users configure them by subclassing / assignment, and
 * OPEN_BASES: abstract bases that may have user subclasses we know nothing about.
"""
from __future__ import annotations

import ast
import hashlib
import os
from pathlib import Path

import z3

REPO = Path(os.environ.get("PYVC_REPO", "/repo"))
PKG = "jsonpath_rfc9535"

CONFIGURABLE = {"JSONPathEnvironment"}
OPEN_BASES = {"FilterFunction"}
LISTLIKE = {"JSONPathNodeList"}  # list subclasses: modelled by VNodeList
SINGLETONS = {"Nothing": "VNothing"}  # classes with one instance (NOTHING): a nullary constructor

BUILTIN_EXC = {
    # name -> base
    "BaseException": None,
    "Exception": "BaseException",
    "KeyError": "LookupError",
    "IndexError": "LookupError",
    "LookupError": "Exception",
    "TypeError": "Exception",
    "ValueError": "Exception",
    "AttributeError": "Exception",
    "StopIteration": "Exception",
    "ArithmeticError": "Exception",
    "OverflowError": "ArithmeticError",
    "ZeroDivisionError": "ArithmeticError",
    "RecursionError": "RuntimeError",
    "RuntimeError": "Exception",
    "AssertionError": "Exception",
    "UnicodeDecodeError": "ValueError",
    "re.error": "Exception",
}


class ClassInfo:
    def __init__(self, name, module, node, bases):
        self.name = name
        self.module = module
        self.node = node
        self.bases = bases  # names
        self.own_fields: list[str] = []  # instance attrs set in __init__ (own)
        self.class_attrs: dict[str, ast.expr] = {}  # simple class-level assignments
        self.methods: dict[str, ast.FunctionDef] = {}
        self.is_enum = False
        self.is_exc = False
        self.enum_members: list[str] = []
        self.fields: list[str] = []  # full layout, base first
        self.slots_only: list[str] = []


def _module_files():
    root = REPO / PKG
    for p in sorted(root.rglob("*.py")):
        rel = p.relative_to(root).with_suffix("")
        parts = list(rel.parts)
        if parts[-1] == "__init__":
            parts = parts[:-1]
        yield ".".join(parts) if parts else "__init__", p


class Source:
    """The package source as it is on disk right now."""

    def __init__(self, overrides: dict[str, str] | None = None):
        self.text: dict[str, str] = {}
        self.tree: dict[str, ast.Module] = {}
        self.sha: dict[str, str] = {}
        self.path: dict[str, Path] = {}
        for mod, p in _module_files():
            txt = p.read_text()
            if overrides and mod in overrides:
                txt = overrides[mod]
            self.text[mod] = txt
            self.tree[mod] = ast.parse(txt)
            self.sha[mod] = hashlib.sha256(txt.encode()).hexdigest()
            self.path[mod] = p
        self.classes: dict[str, ClassInfo] = {}
        self.functions: dict[str, ast.FunctionDef] = {}  # "module:qual" -> def
        self._scan()

    def _scan(self):
        for mod, tree in self.tree.items():
            for node in tree.body:
                if isinstance(node, ast.ClassDef):
                    bases = []
                    for b in node.bases:
                        if isinstance(b, ast.Name):
                            bases.append(b.id)
                        elif isinstance(b, ast.Attribute):
                            bases.append(b.attr)
                        elif isinstance(b, ast.Subscript):
                            v = b.value
                            bases.append(v.id if isinstance(v, ast.Name) else getattr(v, "attr", "?"))
                    ci = ClassInfo(node.name, mod, node, bases)
                    # first definition wins (names are unique in this package)
                    self.classes.setdefault(node.name, ci)
                    self._scan_class(ci, mod)
                elif isinstance(node, (ast.FunctionDef,)):
                    self.functions[f"{mod}:{node.name}"] = node
                    for sub in ast.walk(node):
                        if isinstance(sub, ast.FunctionDef) and sub is not node:
                            self.functions[f"{mod}:{node.name}.<locals>.{sub.name}"] = sub
        # derived info
        for ci in self.classes.values():
            mro = self.mro(ci.name)
            ci.is_enum = "Enum" in mro
            ci.is_exc = "Exception" in mro or any(b in BUILTIN_EXC for b in mro)
        for ci in self.classes.values():
            if ci.is_enum:
                ci.enum_members = list(ci.class_attrs)
            fields = []
            for cname in reversed(self.mro(ci.name)):
                c = self.classes.get(cname)
                if not c:
                    continue
                if cname in CONFIGURABLE:
                    for a in c.class_attrs:
                        if a not in fields:
                            fields.append(a)
                for f in c.own_fields:
                    if f not in fields:
                        fields.append(f)
            ci.fields = fields

    def _scan_class(self, ci: ClassInfo, mod: str):
        for item in ci.node.body:
            if isinstance(item, ast.Assign) and len(item.targets) == 1 and isinstance(item.targets[0], ast.Name):
                nm = item.targets[0].id
                if nm == "__slots__":
                    continue
                ci.class_attrs[nm] = item.value
            elif isinstance(item, ast.AnnAssign) and isinstance(item.target, ast.Name) and item.value is not None:
                ci.class_attrs[item.target.id] = item.value
            elif isinstance(item, ast.FunctionDef):
                ci.methods[item.name] = item
                self.functions[f"{mod}:{ci.name}.{item.name}"] = item
                for sub in ast.walk(item):
                    if isinstance(sub, ast.FunctionDef) and sub is not item:
                        self.functions[f"{mod}:{ci.name}.{item.name}.<locals>.{sub.name}"] = sub
                if item.name == "__init__":
                    for sub in ast.walk(item):
                        tgt = None
                        if isinstance(sub, ast.Assign) and len(sub.targets) == 1:
                            tgt = sub.targets[0]
                        elif isinstance(sub, ast.AnnAssign):
                            tgt = sub.target
                        if (
                            isinstance(tgt, ast.Attribute)
                            and isinstance(tgt.value, ast.Name)
                            and tgt.value.id == "self"
                            and tgt.attr not in ci.own_fields
                        ):
                            ci.own_fields.append(tgt.attr)

    def mro(self, name: str) -> list[str]:
        out = [name]
        ci = self.classes.get(name)
        if ci:
            for b in ci.bases:
                for x in self.mro(b):
                    if x not in out:
                        out.append(x)
        elif name in BUILTIN_EXC and BUILTIN_EXC[name]:
            out += [x for x in self.mro(BUILTIN_EXC[name]) if x not in out]
        return out

    def abstract_names(self, name: str) -> set[str]:
        """names of abstract methods/properties still unimplemented in class `name`"""
        ci = self.classes.get(name)
        if not ci:
            return set()
        out = set()
        for b in ci.bases:
            out |= self.abstract_names(b)
        for m, fn in ci.methods.items():
            is_abs = any((isinstance(d, ast.Name) and d.id == "abstractmethod") or (isinstance(d, ast.Attribute) and d.attr == "abstractmethod") for d in fn.decorator_list)
            if is_abs:
                out.add(m)
            else:
                out.discard(m)
        for a in ci.class_attrs:
            out.discard(a)
        return out

    def is_abstract(self, name: str) -> bool:
        return bool(self.abstract_names(name))

    def subclasses(self, name: str) -> list[str]:
        return [c for c in self.classes if name in self.mro(c)]

    def find_method(self, cls: str, meth: str):
        for c in self.mro(cls):
            ci = self.classes.get(c)
            if ci and meth in ci.methods:
                return c, ci.methods[meth]
        return None, None

    def func_sha(self, key: str) -> str:
        node = self.functions[key]
        return hashlib.sha256(ast.dump(node, include_attributes=False).encode()).hexdigest()[:16]


class Universe:
    """z3 sorts/constructors for the package as found in `src`."""

    def __init__(self, src: Source):
        self.src = src
        # object classes = non-enum, non-exception package classes
        self.obj_classes = [c for c, ci in src.classes.items() if not ci.is_enum and not ci.is_exc and c not in LISTLIKE and c not in SINGLETONS]
        self.enum_classes = [c for c, ci in src.classes.items() if ci.is_enum]
        self.exc_classes = list(BUILTIN_EXC) + [c for c, ci in src.classes.items() if ci.is_exc]
        self.exc_id = {c: k for k, c in enumerate(self.exc_classes)}
        self.enum_id = {c: k for k, c in enumerate(self.enum_classes)}
        lines = [
            "(VNone)",
            "(VBool (b Bool))",
            "(VInt (i Int))",
            "(VFloat (r Real))",
            "(VStr (s String))",
            "(VList (items (Seq V)))",
            "(VDict (keys (Seq String)) (vals (Seq V)))",
            "(VTuple (titems (Seq V)))",
            "(VNothing)",
            "(VNodeList (nodes (Seq V)))",
            "(VGen (gseq (Seq V)) (gexc V))",
            "(VEnum (ecls Int) (eord Int))",
            "(VSlice (sstart V) (sstop V) (sstep V))",
            "(VExc (xcls Int) (xtoken V))",
            "(VUserFunc (fid Int) (uf_arg_types V) (uf_return_type V))",
            "(VOpaque (oid Int))",
        ]
        for c in self.obj_classes:
            ci = src.classes[c]
            fl = " ".join(f"({c}__{f} V)" for f in ci.fields)
            lines.append(f"(C_{c} {fl})" if fl else f"(C_{c})")
        decl = "(declare-datatypes ((V 0)) ((\n" + "\n".join(lines) + "\n)))\n"
        self.decl = decl
        fs = z3.parse_smt2_string(decl + "(declare-const v0 V)(assert (= v0 v0))")
        self.V = fs[0].arg(0).sort()
        V = self.V
        self.C, self.R, self.A = {}, {}, {}
        for k in range(V.num_constructors()):
            con = V.constructor(k)
            self.C[con.name()] = con
            self.R[con.name()] = V.recognizer(k)
            for j in range(con.arity()):
                self.A[V.accessor(k, j).name()] = V.accessor(k, j)
        self.SeqV = z3.SeqSort(V)
        self.SeqS = z3.SeqSort(z3.StringSort())
        self.none = self.C["VNone"]()
        self.nothing = self.C["VNothing"]()

    # ---- helpers -------------------------------------------------------
    def con(self, name, *args):
        c = self.C[name]
        return c(*args) if c.arity() else c()

    def is_(self, name, t):
        return self.R[name](t)

    def acc(self, name, t):
        return self.A[name](t)

    def classes_with_field(self, f):
        return [c for c in self.obj_classes if f in self.src.classes[c].fields]

    def isinstance_obj(self, t, cls):
        # abstract classes have no direct instances
        subs = [c for c in self.src.subclasses(cls) if c in self.obj_classes and not self.src.is_abstract(c)]
        alts = [self.R["C_" + c](t) for c in subs]
        if cls in OPEN_BASES or any(b in OPEN_BASES for b in self.src.mro(cls)):
            if cls in OPEN_BASES:
                alts.append(self.R["VUserFunc"](t))
        return z3.Or(*alts) if alts else z3.BoolVal(False)

    def isinstance_exc(self, t, cls):
        ids = [self.exc_id[c] for c in self.exc_classes if cls in self.src.mro(c)]
        return z3.And(self.R["VExc"](t), z3.Or(*[self.A["xcls"](t) == k for k in ids])) if ids else z3.BoolVal(False)

    def exc_ids_under(self, cls):
        return [self.exc_id[c] for c in self.exc_classes if cls in self.src.mro(c)]
