"""Expression evaluation (code mode: forks + safety obligations; spec mode: total, pure)."""
from __future__ import annotations

import ast

import z3

from .contracts import REGISTRY
from .core import Core, State, fresh_name, pin, simp
from .vals import BM, Builtin, Cls, Fn, It, Mod, Mt, PyMap, Star, SuperProxy, T, Tup, Unsupported

OK, RAISE = "ok", "raise"

BUILTIN_TYPES = {"dict", "list", "str", "int", "float", "bool", "tuple", "object", "slice", "deque", "frozenset", "set", "bytes"}
BUILTIN_FUNCS = {"len", "abs", "isinstance", "iter", "next", "enumerate", "zip", "range", "repr", "hash", "ord", "chr",
                 "min", "max", "all", "any", "sorted", "reversed", "super", "print", "getattr", "setattr", "callable", "id", "type", "suppress"}
KIND_OF_TYPE = {
    "dict": ["VDict"], "list": ["VList", "VNodeList"], "str": ["VStr"], "int": ["VInt", "VBool"], "float": ["VFloat"],
    "bool": ["VBool"], "tuple": ["VTuple"], "slice": ["VSlice"], "NoneType": ["VNone"],
}


class ExprMixin(Core):
    spec_int_compare = True

    # ------------------------------------------------------------------
    def ok(self, v, st):
        return [(OK, v, st)]

    def bind(self, results, f):
        out = []
        for tag, p, s in results:
            if tag == OK:
                self._g = s.ghost
                out.extend(f(p, s))
            else:
                out.append((tag, p, s))
        return out

    def ev_seq(self, nodes, st, k, acc=None):
        """evaluate nodes left to right, then k(list_of_vals, st)"""
        acc = acc or []
        if not nodes:
            return k(acc, st)
        return self.bind(self.ev(nodes[0], st), lambda v, s: self.ev_seq(nodes[1:], s, k, acc + [v]))

    def raise_(self, st, cls, token=None):
        return [(RAISE, self.exc_val(cls, token), st)]

    def split(self, st, cond, k_true, k_false):
        """fork on Bool term cond (code mode)"""
        cond = simp(cond)
        if z3.is_true(cond):
            return k_true(st)
        if z3.is_false(cond):
            return k_false(st)
        out = []
        s1 = st.fork(cond)
        if self.feasible(s1):
            self.pin_alternatives(s1, cond)
            out.extend(k_true(s1))
        s2 = st.fork(z3.Not(cond))
        if self.feasible(s2):
            out.extend(k_false(s2))
        return out

    def pin_alternatives(self, st, cond):
        """cond == Or(is-A(t), is-B(t), ...): if the path condition leaves one alternative, remember it"""
        if not (z3.is_or(cond) and cond.num_args() > 1):
            return
        alts = cond.children()
        if not all(z3.is_app(a) and a.decl().kind() == z3.Z3_OP_DT_IS for a in alts):
            return
        t = alts[0].arg(0)
        if not all(a.arg(0).eq(t) for a in alts):
            return
        live = [a for a in alts if self.feasible(st, a)]
        if len(live) == 1:
            st.ghost[("is", pin(t))] = live[0].decl().params()[0].name()
            st.pc.append(live[0])

    # ------------------------------------------------------------------
    def ev(self, node, st: State):
        self._g = st.ghost
        m = getattr(self, "ev_" + type(node).__name__, None)
        if m is None:
            raise Unsupported(f"expression {type(node).__name__}")
        return m(node, st)

    def ev1(self, node, st):
        """spec mode: exactly one ok result"""
        r = self.ev(node, st)
        self._g = st.ghost
        if len(r) != 1 or r[0][0] != OK:
            raise Unsupported(f"spec expression is not total/pure: {ast.unparse(node)}")
        return r[0][1]

    def ev_Constant(self, node, st):
        v = node.value
        if v is None:
            return self.ok(T("V", self.U.none), st)
        if isinstance(v, bool):
            return self.ok(self.bool_(v), st)
        if isinstance(v, int):
            return self.ok(self.int_(v), st)
        if isinstance(v, float):
            return self.ok(T("real", z3.RealVal(repr(v))), st)
        if isinstance(v, str):
            return self.ok(self.str_(v), st)
        raise Unsupported(f"constant {v!r}")

    def ev_Name(self, node, st):
        n = node.id
        cc = self.cur_contract
        if (st.mode == "code" and cc is not None and n in getattr(cc, "aliases", {}) and isinstance(node.ctx, ast.Load)
                and self.fn_key_inner is None and n in st.env):
            # declared alias of a mutable object reachable through another path: read through that path
            return self.ev(cc.parsed(cc.aliases[n]), st)
        if n in st.env:
            return self.ok(st.env[n], st)
        return self.ok(self.global_name(n, st), st)

    def global_name(self, n, st):
        src = self.U.src
        if n in self.spec_prims:
            return Builtin("prim:" + n)
        if n in self.speclib.funcs:
            return Builtin("spec:" + n)
        if n == "NOTHING":
            return T("V", self.U.nothing)
        if n in src.classes or n in self.U.exc_id:
            return Cls(n)
        if n in BUILTIN_TYPES:
            return Cls(n)
        if n in BUILTIN_FUNCS:
            return Builtin(n)
        if n in ("random", "re", "json", "sys", "function_extensions"):
            return Mod(n)
        mod = self.cur_module
        if f"{mod}:{n}" in src.functions:
            return Fn(f"{mod}:{n}")
        # a function imported from another module of the package
        for key in src.functions:
            if key.endswith(":" + n):
                return Fn(key)
        # a name imported from a module outside the package: an external function (modelled by a bi_<module>_<name> entry)
        tree0 = src.tree.get(mod)
        if tree0 is not None:
            for item in tree0.body:
                if isinstance(item, ast.ImportFrom) and item.level == 0 and item.module and not item.module.startswith("jsonpath_rfc9535"):
                    for al in item.names:
                        if (al.asname or al.name) == n and item.module not in ("typing", "__future__"):
                            return Builtin(f"{item.module}.{al.name}")
        # nested function of the current function
        if f"{self.fn_key}.<locals>.{n}" in src.functions:
            return Fn(f"{self.fn_key}.<locals>.{n}")
        # a class-level constant read inside the class body / a default argument (PRECEDENCE_LOWEST in class Parser)
        for cn, ci in src.classes.items():
            if ci.module == mod and n in ci.class_attrs and (self.cur_class is None or cn in src.mro(self.cur_class) or True):
                return self.const_eval(ci.class_attrs[n], mod)
        # module-level constant
        tree = src.tree.get(mod)
        if tree is not None:
            for item in tree.body:
                if isinstance(item, ast.Assign) and len(item.targets) == 1 and isinstance(item.targets[0], ast.Name) and item.targets[0].id == n:
                    return self.const_eval(item.value, mod)
        raise Unsupported(f"unknown name {n}")

    def const_eval(self, node, mod):
        save = self.cur_module
        self.cur_module = mod
        try:
            return self.ev1(node, State(mode="spec"))
        finally:
            self.cur_module = save

    def ev_Set(self, node, st):
        """{c1, c2, ...}: a set display of constants, used for membership tests only -- kept as the tuple of its items"""
        return self.ev_seq(node.elts, st, lambda vs, s: self.ok(Tup(vs), s))

    def ev_Dict(self, node, st):
        """{k1: v1, ...} with constant keys: an analysis-time table (PyMap)"""
        if any(k is None for k in node.keys):
            raise Unsupported("dict unpacking")

        def k(vals, s):
            n = len(node.keys)
            keys, values = vals[:n], vals[n:]
            for kk in keys:
                if not (isinstance(kk, T) and kk.kind in ("V", "str", "int")):
                    raise Unsupported("dict literal key")
            return self.ok(PyMap([(self.box(kk), v) for kk, v in zip(keys, values)]), s)

        return self.ev_seq(list(node.keys) + list(node.values), st, k)

    def ev_Tuple(self, node, st):
        if any(isinstance(e, ast.Starred) for e in node.elts):
            raise Unsupported("starred tuple")
        return self.ev_seq(node.elts, st, lambda vs, s: self.ok(Tup(vs), s))

    def ev_List(self, node, st):
        return self.ev_seq(node.elts, st, lambda vs, s: self.ok(T("list", self.seq_of_terms([self.box(v) for v in vs])), s))

    def ev_JoinedStr(self, node, st):
        """f-string: the embedded expressions are evaluated (their safety obligations count); the text is exact when
        every part is a literal, a str, or an int/bool-free integer formatted without conversion or format spec
        (str(int) = the uninterpreted int_str shared with the specs), and an opaque string otherwise (messages)"""
        parts = [v for v in node.values if isinstance(v, ast.FormattedValue)]

        def k(vals, s):
            it = iter(vals)
            pieces, exact = [], True
            for v in node.values:
                if isinstance(v, ast.Constant) and isinstance(v.value, str):
                    pieces.append(z3.StringVal(v.value))
                    continue
                val = next(it)
                if v.conversion != -1 or v.format_spec is not None:
                    exact = False
                elif isinstance(val, T) and val.kind == "str":
                    pieces.append(val.t)
                elif isinstance(val, T) and val.kind == "int":
                    pieces.append(self.uf("int_str", z3.IntSort(), z3.StringSort())(val.t))
                elif isinstance(val, T) and val.kind == "V" and self.known_con(val.t) == "VInt":
                    pieces.append(self.uf("int_str", z3.IntSort(), z3.StringSort())(self.U.acc("i", val.t)))
                elif isinstance(val, T) and val.kind == "V" and self.known_con(val.t) == "VStr":
                    pieces.append(self.U.acc("s", val.t))
                elif isinstance(val, T) and val.kind == "V" and s.mode == "code" and not self.feasible(s, z3.Not(self.U.is_("VInt", val.t))):
                    pieces.append(self.uf("int_str", z3.IntSort(), z3.StringSort())(self.U.acc("i", val.t)))
                elif isinstance(val, T) and val.kind == "V" and s.mode == "code" and not self.feasible(s, z3.Not(self.U.is_("VStr", val.t))):
                    pieces.append(self.U.acc("s", val.t))
                else:
                    exact = False
            if not exact or not pieces:
                return self.ok(T("str", z3.String(fresh_name("fstr")) if not exact else z3.StringVal("")), s)
            return self.ok(T("str", pieces[0] if len(pieces) == 1 else z3.Concat(*pieces)), s)

        return self.ev_seq([p.value for p in parts], st, k)

    def ev_IfExp(self, node, st):
        def k(c, s):
            ct = self.truthy(c)
            if s.mode == "spec":
                a = self.ev1(node.body, s.fork(ct))
                b = self.ev1(node.orelse, s.fork(z3.Not(ct)))
                return self.ok(self.ite(ct, a, b), s)
            return self.split(s, ct, lambda s1: self.ev(node.body, s1), lambda s2: self.ev(node.orelse, s2))

        return self.bind(self.ev(node.test, st), k)

    def ite(self, c, a, b):
        if isinstance(a, T) and isinstance(b, T) and a.kind == b.kind:
            return T(a.kind, z3.If(c, a.t, b.t))
        return T("V", z3.If(c, self.box(a), self.box(b)))

    def ev_BoolOp(self, node, st):
        is_and = isinstance(node.op, ast.And)
        if st.mode == "spec":
            # later operands are evaluated under the guard of the earlier ones (only used to pin
            # receiver classes in attribute reads; the value is the same where it matters)
            vals = []
            g = st
            for v in node.values:
                val = self.ev1(v, g)
                vals.append(val)
                c = self.truthy(val)
                g = g.fork(c if is_and else z3.Not(c))
            if all(isinstance(v, T) and v.kind == "bool" for v in vals):
                return self.ok(self.bool_((z3.And if is_and else z3.Or)(*[v.t for v in vals])), st)
            # python value semantics
            acc = vals[-1]
            for v in reversed(vals[:-1]):
                c = self.truthy(v)
                acc = self.ite(c, acc, v) if is_and else self.ite(c, v, acc)
            return self.ok(acc, st)

        def go(i, s):
            def k(v, s1):
                if i == len(node.values) - 1:
                    return self.ok(v, s1)
                c = self.truthy(v)
                if is_and:
                    return self.split(s1, c, lambda a: go(i + 1, a), lambda b: self.ok(v, b))
                return self.split(s1, c, lambda a: self.ok(v, a), lambda b: go(i + 1, b))

            return self.bind(self.ev(node.values[i], s), k)

        return go(0, st)

    def ev_UnaryOp(self, node, st):
        def k(v, s):
            if isinstance(node.op, ast.Not):
                return self.ok(self.bool_(z3.Not(self.truthy(v))), s)
            if isinstance(node.op, ast.USub):
                if isinstance(v, T) and v.kind == "real":
                    return self.ok(T("real", -v.t), s)
                if s.mode == "code":
                    self.oblige(s, "safety:neg", self.is_intlike(v), ast.unparse(node))
                return self.ok(self.int_(-self.int_term(v)), s)
            raise Unsupported("unary op")

        return self.bind(self.ev(node.operand, st), k)

    # ---------------- binary operators -----------------
    def ev_BinOp(self, node, st):
        return self.ev_seq([node.left, node.right], st, lambda vs, s: self.binop(node.op, vs[0], vs[1], s, node))

    def seqish(self, v):
        if isinstance(v, Tup):
            return "tuple"
        if isinstance(v, T) and v.kind in ("list", "tuple", "nodelist"):
            return v.kind
        return None

    def binop(self, op, a, b, st, node=None):
        U = self.U
        ka, kb = self.seqish(a), self.seqish(b)
        if isinstance(op, ast.Add) and (ka or kb):
            kind = ka or kb
            if kind == "nodelist":
                kind = "list"
            rec = {"list": ["VList", "VNodeList"], "tuple": ["VTuple"]}[kind]
            if st.mode == "code":
                for x in (a, b):
                    if not self.seqish(x):
                        self.oblige(st, "safety:concat", self.is_kind(x, rec), ast.unparse(node) if node else "")
            return self.ok(T(kind, z3.Concat(self.seq_term(a), self.seq_term(b))), st)
        if isinstance(op, ast.Add) and ((isinstance(a, T) and a.kind == "str") or (isinstance(b, T) and b.kind == "str")):
            if st.mode == "code":
                for x in (a, b):
                    self.oblige(st, "safety:concat", self.is_kind(x, ["VStr"]))
            return self.ok(T("str", z3.Concat(self.str_term(a), self.str_term(b))), st)
        if isinstance(op, ast.Add) and st.mode == "spec" and isinstance(a, T) and a.kind == "V" and isinstance(b, T) and b.kind == "V":
            raise Unsupported("untyped + in spec")
        # integer arithmetic
        if st.mode == "code":
            for x in (a, b):
                self.oblige(st, "safety:arith", self.is_intlike(x), ast.unparse(node) if node else "")
        x, y = self.int_term(a), self.int_term(b)
        if isinstance(op, ast.Add):
            return self.ok(self.int_(x + y), st)
        if isinstance(op, ast.Sub):
            return self.ok(self.int_(x - y), st)
        if isinstance(op, ast.Mult):
            return self.ok(self.int_(x * y), st)
        if isinstance(op, ast.FloorDiv):
            if st.mode == "code":
                self.oblige(st, "safety:div", y != 0)
            return self.ok(self.int_(self.floordiv(x, y)), st)
        if isinstance(op, ast.Mod):
            if st.mode == "code":
                self.oblige(st, "safety:div", y != 0)
            return self.ok(self.int_(x - y * self.floordiv(x, y)), st)
        if isinstance(op, (ast.LShift, ast.BitOr, ast.BitAnd, ast.RShift)):
            return self.ok(self.int_(self.bitop(op, x, y, st)), st)
        raise Unsupported(f"binary operator {type(op).__name__}")

    def floordiv(self, x, y):
        # python floor division from SMT-LIB euclidean div (remainder is non-negative there)
        q = x / y
        return z3.If(y > 0, q, z3.If(x - y * q == 0, q, q - 1))

    def bitop(self, op, x, y, st):
        """bit operators: shifts by a constant are multiplication / floor division by a power of two and `& (2**k-1)` is
        `mod 2**k` (exact for every Python int); `|` is uninterpreted with the facts about disjoint bit ranges; anything
        else goes through 32-bit vectors (exact on 0 .. 2**32-1, and that range is then a safety obligation)."""
        lim = 2 ** 32
        if isinstance(op, ast.LShift):
            if st.mode == "code":
                self.oblige(st, "safety:shift", y >= 0)
            # x << y == x * 2**y ; y is a constant in the verified code
            ys = z3.simplify(y)
            if z3.is_int_value(ys):
                return x * (2 ** ys.as_long())
            raise Unsupported("shift by non-constant")
        if isinstance(op, ast.BitAnd):
            ys = z3.simplify(y)
            if z3.is_int_value(ys) and ys.as_long() >= 0 and (ys.as_long() + 1) & ys.as_long() == 0:
                return x % (ys.as_long() + 1)  # x & (2**k - 1) == x mod 2**k (two's complement, any int)
        if isinstance(op, ast.BitOr):
            # uninterpreted, with the facts the package's bit tricks rest on (valid for non-negative operands):
            # disjoint bit ranges add up; the result is bounded by the operands
            f = self.uf("bit_or", z3.IntSort(), z3.IntSort(), z3.IntSort())
            r = f(x, y)
            facts = [z3.Implies(z3.And(x >= 0, y >= 0), z3.And(r >= x, r >= y, r <= x + y))]
            for k in (4, 8, 10, 16):
                m = 2 ** k
                facts.append(z3.Implies(z3.And(x >= 0, y >= 0, y < m, x % m == 0), r == x + y))
                facts.append(z3.Implies(z3.And(x >= 0, y >= 0, x < m, y % m == 0), r == x + y))
            self.axioms.append(z3.And(*facts))
            return r
        if st.mode == "code":
            self.oblige(st, "safety:bitrange", z3.And(x >= 0, x < lim, y >= 0, y < lim))
        bx, by = z3.Int2BV(x, 32), z3.Int2BV(y, 32)
        if isinstance(op, ast.BitAnd):
            return z3.BV2Int(bx & by)
        if isinstance(op, ast.RShift):
            ys = z3.simplify(y)
            if z3.is_int_value(ys):
                return x / (2 ** ys.as_long())
        raise Unsupported("bit operator")

    # ---------------- comparisons -----------------
    def ev_Compare(self, node, st):
        if len(node.ops) == 1:
            return self.ev_seq([node.left, node.comparators[0]], st, lambda vs, s: self.compare(node.ops[0], vs[0], vs[1], s, node))
        # chained: a op b op c  ==  (a op b) and (b op c); operands evaluated once
        def k(vs, s):
            res = self.ok(self.bool_(True), s)
            for idx, op in enumerate(node.ops):
                def step(acc, s2, idx=idx, op=op):
                    return self.bind(self.compare(op, vs[idx], vs[idx + 1], s2, node), lambda c, s3: self.ok(self.bool_(z3.And(self.truthy(acc), self.truthy(c))), s3))
                res = self.bind(res, step)
            return res

        return self.ev_seq([node.left] + node.comparators, st, k)

    def numeric(self, v):
        return self.is_kind(v, ["VInt", "VBool", "VFloat"])

    def static_num(self, v):
        return isinstance(v, T) and v.kind in ("int", "bool", "real")

    def compare(self, op, a, b, st, node=None):
        U = self.U
        # identity
        if isinstance(op, (ast.Is, ast.IsNot)):
            r = self.identical(a, b)
            return self.ok(self.bool_(r if isinstance(op, ast.Is) else z3.Not(r)), st)
        if isinstance(op, (ast.In, ast.NotIn)):
            r = self.contains(b, a, st)
            return self.ok(self.bool_(r if isinstance(op, ast.In) else z3.Not(r)), st)
        if isinstance(op, (ast.Eq, ast.NotEq)):
            if st.mode == "spec":
                r = self.struct_eq(a, b)
            else:
                r = self.py_eq(a, b, st)
            return self.ok(self.bool_(r if isinstance(op, ast.Eq) else z3.Not(r)), st)
        # ordering
        sa = isinstance(a, T) and a.kind == "str"
        sb = isinstance(b, T) and b.kind == "str"
        if sa or sb or (st.mode == "spec" and False):
            if st.mode == "code" and not (sa and sb):
                self.oblige(st, "safety:order", z3.And(self.is_kind(a, ["VStr"]), self.is_kind(b, ["VStr"])), ast.unparse(node) if node else "")
            x, y = self.str_term(a), self.str_term(b)
            return self.ok(self.bool_(self.str_order(op, x, y)), st)
        if self.static_num(a) or self.static_num(b) or st.mode == "spec":
            if st.mode == "code" and not (self.static_num(a) and self.static_num(b)):
                self.oblige(st, "safety:order", z3.And(self.numeric(a), self.numeric(b)), ast.unparse(node) if node else "")
            ints = all(isinstance(v, T) and v.kind in ("int", "bool") for v in (a, b))
            if ints:
                x, y = self.int_term(a), self.int_term(b)
            elif st.mode == "spec" and all(isinstance(v, T) and v.kind in ("int", "bool", "V") for v in (a, b)) and not any(isinstance(v, T) and v.kind == "real" for v in (a, b)) and self.spec_int_compare:
                x, y = self.int_term(a), self.int_term(b)
            else:
                x, y = self.real_term(a), self.real_term(b)
            return self.ok(self.bool_(self.num_order(op, x, y)), st)
        # both untyped V (code mode): python dispatches on the run-time kinds
        both_str = z3.And(self.is_kind(a, ["VStr"]), self.is_kind(b, ["VStr"]))
        both_num = z3.And(self.numeric(a), self.numeric(b))
        self.oblige(st, "safety:order", z3.Or(both_str, both_num), ast.unparse(node) if node else "")
        r = z3.If(both_str, self.str_order(op, self.str_term(a), self.str_term(b)), self.num_order(op, self.real_term(a), self.real_term(b)))
        return self.ok(self.bool_(r), st)

    def num_order(self, op, x, y):
        if isinstance(op, ast.Lt):
            return x < y
        if isinstance(op, ast.LtE):
            return x <= y
        if isinstance(op, ast.Gt):
            return x > y
        if isinstance(op, ast.GtE):
            return x >= y
        raise Unsupported("comparison operator")

    def str_order(self, op, x, y):
        if isinstance(op, ast.Lt):
            return z3.StrLT(x, y) if hasattr(z3, "StrLT") else x < y
        if isinstance(op, ast.LtE):
            return z3.Or(x == y, x < y)
        if isinstance(op, ast.Gt):
            return y < x
        if isinstance(op, ast.GtE):
            return z3.Or(x == y, y < x)
        raise Unsupported("comparison operator")

    def identical(self, a, b):
        """`a is b` -- only against the singletons None / NOTHING / True / False, or classes"""
        U = self.U
        for x, y in ((a, b), (b, a)):
            if isinstance(y, T) and y.kind == "V":
                ys = z3.simplify(y.t)
                if ys.eq(U.none):
                    return self.is_kind(x, ["VNone"])
                if ys.eq(U.nothing):
                    return self.is_kind(x, ["VNothing"])
            if isinstance(y, T) and y.kind == "bool" and z3.is_true(z3.simplify(y.t)):
                return z3.And(self.is_kind(x, ["VBool"]), self.bool_term(x) if isinstance(x, T) and x.kind in ("bool", "V") else False)
            if isinstance(y, T) and y.kind == "bool" and z3.is_false(z3.simplify(y.t)):
                return z3.And(self.is_kind(x, ["VBool"]), z3.Not(self.bool_term(x)) if isinstance(x, T) and x.kind in ("bool", "V") else False)
        if isinstance(a, T) and isinstance(b, T) and self.is_enum_term(a) and self.is_enum_term(b):
            return self.box(a) == self.box(b)
        # enum members are singletons
        if isinstance(a, T) and isinstance(b, T) and (self.is_enum_term(a) or self.is_enum_term(b)):
            return self.box(a) == self.box(b)
        raise Unsupported("`is` between non-singletons")

    def is_enum_term(self, v):
        if isinstance(v, T) and v.kind == "V":
            t = z3.simplify(v.t)
            return z3.is_app(t) and t.decl().name() == "VEnum"
        return False

    def struct_eq(self, a, b):
        """spec-level equality: identity of mathematical values"""
        if isinstance(a, T) and isinstance(b, T) and a.kind == b.kind:
            return a.t == b.t
        if isinstance(a, T) and isinstance(b, T) and {a.kind, b.kind} <= {"int", "bool"}:
            return self.int_term(a) == self.int_term(b)
        sa, sb = self.seqish(a), self.seqish(b)
        if sa and sb and (sa == sb or isinstance(a, Tup) or isinstance(b, Tup)):
            return self.seq_term(a) == self.seq_term(b)
        return self.box(a) == self.box(b)

    def contains(self, container, item, st):
        """`item in container` for tuples/frozensets of constants, dicts, strings"""
        if isinstance(container, PyMap):
            it = self.box(item)
            return z3.Or(*[it == kterm for kterm, _ in container.items]) if container.items else z3.BoolVal(False)
        if isinstance(container, Tup):
            return z3.Or(*[self.py_eq(item, x, st) if st.mode == "code" else self.struct_eq(item, x) for x in container.items]) if container.items else z3.BoolVal(False)
        if isinstance(container, T) and container.kind == "str":
            it = self.str_term(item)
            if z3.is_string_value(container.t) and 0 < len(container.t.as_string()) <= 64:
                # c in "<literal>": for a one-character subject, one of the literal's characters (exact; helps the solver)
                chars = sorted(set(container.t.as_string()))
                return z3.If(z3.Length(it) == 1, z3.Or(*[it == z3.StringVal(ch) for ch in chars]), z3.Contains(container.t, it))
            return z3.Contains(container.t, it)
        if isinstance(container, T) and container.kind == "V":
            # dict membership
            if st.mode == "code":
                self.oblige(st, "safety:in", z3.And(self.is_kind(container, ["VDict"]), self.is_kind(item, ["VStr"])))
            return self.dict_index(container.t, self.str_term(item)) >= 0
        if isinstance(container, T) and container.kind in ("list", "tuple"):
            # x in s  <=>  some position of s holds an element that == x (Python's `in` also accepts identical
            # elements, which == already covers for everything but NaN: floats are reals here, A3)
            sq = container.t
            j = z3.Int(fresh_name("inj"))
            el = T("V", sq[j])
            eq = self.py_eq(item, el, st) if st.mode == "code" else self.struct_eq(item, el)
            if st.mode == "code" and isinstance(item, T) and item.kind == "V":
                # enum members compare by identity (spec.pysem.py_eq, enum case), stated inline so that it is usable under the binder
                eq = z3.If(z3.Or(self.is_kind(item, ["VEnum"]), self.is_kind(el, ["VEnum"])), item.t == el.t, eq)
            return z3.Exists([j], z3.And(j >= 0, j < z3.Length(sq), eq))
        raise Unsupported("`in` container")

    # ---------------- python == -----------------
    def py_eq(self, a, b, st):
        """Python `a == b` on JSON-like values, Nothing, nodelists, enum members (A2, A4).
        Defined through the uninterpreted `py_eq` with ground unfolding (see SpecLib.builtin_defs)."""
        if isinstance(a, T) and isinstance(b, T):
            ka, kb = a.kind, b.kind
            if ka == kb and ka in ("int", "str", "bool"):
                return a.t == b.t
            if {ka, kb} <= {"int", "bool"}:
                return self.int_term(a) == self.int_term(b)
            if {ka, kb} <= {"int", "bool", "real"}:
                return self.real_term(a) == self.real_term(b)
            # enum members compare by identity
            if self.is_enum_term(a) or self.is_enum_term(b):
                return self.box(a) == self.box(b)
            for x, y in ((a, b), (b, a)):
                if x.kind == "str":
                    return z3.And(self.is_kind(y, ["VStr"]), self.str_term(y) == x.t)
                if x.kind in ("int", "bool"):
                    return z3.And(self.numeric(y), self.real_term(y) == self.real_term(x))
        if isinstance(a, (Cls, Fn)) or isinstance(b, (Cls, Fn)):
            raise Unsupported("== on classes/functions")
        return self.speclib.apply("py_eq", [T("V", self.box(a)), T("V", self.box(b))]).t

    # ---------------- attributes -----------------
    def ev_Attribute(self, node, st):
        return self.bind(self.ev(node.value, st), lambda v, s: self.get_attr(v, node.attr, s, node))

    def class_const_attr(self, cname, attr):
        """value of a class-level attribute (non-configurable classes), following the MRO"""
        src = self.U.src
        from .universe import CONFIGURABLE

        for c in src.mro(cname):
            ci = src.classes.get(c)
            if ci and attr in ci.class_attrs and c not in CONFIGURABLE:
                return self.const_eval(ci.class_attrs[attr], ci.module)
        return None

    def property_key(self, cls, attr, own=False):
        """contract key of the @property `attr` of cls (own: defined by cls itself), None if there is none"""
        src = self.U.src
        for c in ([cls] if own else src.mro(cls)):
            ci = src.classes.get(c)
            if ci and attr in ci.methods:
                fn = ci.methods[attr]
                key = f"{ci.module}:{c}.{attr}"
                if any(isinstance(d, ast.Name) and d.id == "property" for d in fn.decorator_list) and key in REGISTRY:
                    return key  # properties without a contract (abstract declarations overridden by class attributes) stay attributes
                return None
        return None

    def get_attr(self, v, attr, st, node=None):
        U = self.U
        src = U.src
        if isinstance(v, Mod):
            if v.name == "function_extensions" and attr in src.classes:
                return self.ok(Cls(attr), st)
            if f"{v.name}.{attr}" in U.exc_id:
                return self.ok(Cls(f"{v.name}.{attr}"), st)
            return self.ok(Builtin(f"{v.name}.{attr}"), st)
        if isinstance(v, SuperProxy):
            return self.ok(BM(v.recv, attr, static_cls=v.after), st)
        if isinstance(v, Cls):
            ci = src.classes.get(v.name)
            if ci and ci.is_enum and attr in ci.enum_members:
                return self.ok(T("V", U.con("VEnum", z3.IntVal(U.enum_id[v.name]), z3.IntVal(ci.enum_members.index(attr)))), st)
            if ci:
                c = self.class_const_attr(v.name, attr)
                if c is not None:
                    return self.ok(c, st)
            raise Unsupported(f"class attribute {v.name}.{attr}")
        if isinstance(v, Rec):
            if attr in v.fields:
                return self.ok(v.fields[attr], st)
            pk = self.property_key(v.cls, attr)
            if pk is not None:
                return self.call_contract(pk, v, [], {}, st)
            c = self.class_const_attr(v.cls, attr)
            if c is not None:
                return self.ok(c, st)
            if src.find_method(v.cls, attr)[1] is not None:
                return self.ok(BM(v, attr), st)
            raise Unsupported(f"attribute {attr} of object under construction")
        if isinstance(v, T) and v.kind != "V":
            return self.ok(BM(v, attr), st)
        if isinstance(v, (Tup, It, Mt, PyMap)):
            return self.ok(BM(v, attr), st)
        if not isinstance(v, T):
            raise Unsupported(f"attribute {attr} of {v}")
        t = v.t
        if v.kind == "V" and st.mode == "code":
            owners = [c for c in U.obj_classes if self.property_key(c, attr, own=True) is not None]
            if owners:
                # a property: a method call through its contract (the receiver must be an instance of the defining class)
                if len(owners) != 1:
                    raise Unsupported(f"property {attr} defined by several classes")
                self.oblige(st, f"safety:attr:{attr}", self.isinstance_term(v, Cls(owners[0])), f"receiver of property {attr}")
                return self.call_contract(self.property_key(owners[0], attr), v, [], {}, st)
        if v.kind == "V" and z3.is_app(t) and t.decl().kind() == z3.Z3_OP_DT_CONSTRUCTOR and t.decl().name().startswith("C_"):
            # attribute of an explicitly constructed object: the constructor argument itself (accessor-of-constructor)
            cname = t.decl().name()[2:]
            ci = src.classes.get(cname)
            if ci is not None and attr in ci.fields and len(ci.fields) == t.num_args():
                return self.ok(T("V", t.arg(ci.fields.index(attr))), st)
        # field?
        alts = []  # (recogniser term, value term)
        for c in U.classes_with_field(attr):
            alts.append((U.is_("C_" + c, t), U.acc(f"{c}__{attr}", t)))
        if attr == "token":
            alts.append((U.is_("VExc", t), U.acc("xtoken", t)))
        if attr in ("start", "stop", "step"):
            alts.append((U.is_("VSlice", t), U.acc("s" + attr, t)))
        if attr == "name":
            # Enum.name: some string determined by the member (only ever used to build messages)
            alts.append((U.is_("VEnum", t), U.con("VStr", z3.Function("enum_name", U.V, z3.StringSort())(t))))
        if attr in ("arg_types", "return_type"):
            alts.append((U.is_("VUserFunc", t), U.acc("uf_" + attr, t)))
        for c in U.obj_classes:
            if attr not in src.classes[c].fields:
                cv = self.class_const_attr(c, attr)
                if isinstance(cv, (PyMap, Tup)):
                    # a class-level table: an analysis-time value, not a datatype term (the receiver must be of that class)
                    if st.mode == "code":
                        self.oblige(st, f"safety:attr:{attr}", self.isinstance_term(v, Cls(c)), f"receiver of class constant {attr}")
                    return self.ok(cv, st)
                if cv is not None and not isinstance(cv, (Cls, Fn, BM, Builtin)):
                    alts.append((U.is_("C_" + c, t), self.box(cv)))
        if not alts:
            return self.ok(BM(v, attr), st)
        # the path condition usually pins the receiver's class: then the access is one accessor,
        # not an if-chain over every class that has a field of this name (keeps terms small)
        possible = st.ghost.get(("in", t.get_id()))
        if possible:
            # the subject is known to be one of a few classes: drop the alternatives that cannot apply
            kept = [(r, val) for r, val in alts if r.decl().params()[0].name() in possible]
            if kept:
                alts = kept
                if len(alts) == 1:
                    return self.ok(T("V", alts[0][1]), st)
        known = st.ghost.get(("is", t.get_id()))
        if known is not None:
            for r, val in alts:
                if r.decl().params()[0].name() == known:
                    return self.ok(T("V", val), st)
        if st.mode == "code":
            ck = ("cls", pin(t), attr)
            if ck in st.ghost:
                return self.ok(T("V", alts[st.ghost[ck]][1]), st)
            for n_alt, (r, val) in enumerate(alts):
                rs = z3.simplify(r)
                if z3.is_true(rs) or (not z3.is_false(rs) and not self.feasible(st, z3.Not(r))):
                    st.ghost[ck] = n_alt
                    return self.ok(T("V", val), st)
        if st.mode == "code":
            self.oblige(st, f"safety:attr:{attr}", z3.Or(*[r for r, _ in alts]), ast.unparse(node) if node else attr)
        if possible and all(r.decl().params()[0].name() in possible for r, _ in alts) and len(alts) == len(possible):
            term = alts[-1][1]  # the listed classes are exhaustive: no fall-back symbol needed
            for r, val in reversed(alts[:-1]):
                term = z3.If(r, val, term)
            return self.ok(T("V", term), st)
        f = self.uf("attr_" + attr, self.V, self.V)
        term = f(t)
        for r, val in reversed(alts):
            term = z3.If(r, val, term)
        return self.ok(T("V", term), st)

    # ---------------- subscripts -----------------
    def ev_Subscript(self, node, st):
        cc = self.cur_contract
        if (st.mode == "code" and cc is not None and getattr(cc, "dispatch", None) and ast.unparse(node.value) in cc.dispatch
                and not isinstance(node.slice, ast.Slice) and self.fn_key_inner is None and isinstance(node.ctx, ast.Load)):
            # self.table[key] as a value: the bound method of the entry the key equals (one path per entry), or KeyError
            table = self.init_table(self.cur_class, cc.dispatch[ast.unparse(node.value)])
            recv = st.env.get("self")

            def k_key(key, s):
                kt = self.box(key)
                out = []
                rest = s
                for kexpr, mname in table:
                    kv = self.box(self.const_eval(kexpr, self.cur_module))
                    hit = rest.fork(kt == kv)
                    if self.feasible(hit):
                        out.extend(self.ok(BM(recv, mname), hit))
                    rest = rest.fork(kt != kv)
                if self.feasible(rest):
                    out.extend(self.raise_(rest, "KeyError"))
                return out

            return self.bind(self.ev(node.slice, st), k_key)
        if isinstance(node.slice, ast.Slice):
            sl = node.slice
            parts = [sl.lower, sl.upper, sl.step]

            def k(v, s):
                def k2(ps, s2):
                    return self.slice_literal(v, ps, s2, node)
                nodes = [p if p is not None else ast.Constant(value=None) for p in parts]
                return self.ev_seq(nodes, s, k2)

            return self.bind(self.ev(node.value, st), k)
        return self.ev_seq([node.value, node.slice], st, lambda vs, s: self.subscript(vs[0], vs[1], s, node))

    def pymap_lookup(self, m, key, st, default):
        """m[key] (default None: KeyError when absent) / m.get(key, default): one path per entry that can match"""
        kt = self.box(key)
        if m.items and all(isinstance(val, T) for _, val in m.items) and (default is None or isinstance(default[0], T)):
            # scalar values: one value term (an if-chain over the keys) instead of one path per entry
            found = z3.Or(*[kt == kterm for kterm, _ in m.items])
            acc = self.box(default[0]) if default is not None else self.box(m.items[-1][1])
            for kterm, val in reversed(m.items):
                acc = z3.If(kt == kterm, self.box(val), acc)
            kinds = {val.kind for _, val in m.items} | ({default[0].kind} if default is not None else set())
            if kinds <= {"int"}:
                res = T("int", self.int_term(T("V", acc)))
            elif kinds <= {"str"}:
                res = T("str", self.str_term(T("V", acc)))
            else:
                res = T("V", acc)
            if default is not None:
                return self.ok(res, st)
            return self.split(st, found, lambda a: self.ok(res, a), lambda b: self.raise_(b, "KeyError"))
        out = []
        rest = st
        for kterm, val in m.items:
            hit = rest.fork(kt == kterm)
            if self.feasible(hit):
                out.extend(self.ok(val, hit))
            rest = rest.fork(kt != kterm)
        if self.feasible(rest):
            out.extend(self.raise_(rest, "KeyError") if default is None else self.ok(default[0], rest))
        return out

    def norm_idx(self, i, n):
        return z3.If(i < 0, i + n, i)

    def subscript(self, c, idx, st, node=None):
        U = self.U
        txt = ast.unparse(node) if node is not None else ""
        if isinstance(c, PyMap):
            return self.pymap_lookup(c, idx, st, None)
        if isinstance(c, Tup):
            i = z3.simplify(self.int_term(idx))
            if z3.is_int_value(i):
                k = i.as_long()
                if -len(c.items) <= k < len(c.items):
                    return self.ok(c.items[k], st)
                return self.raise_(st, "IndexError")
            c = T("tuple", self.seq_term(c))
        if isinstance(c, T) and c.kind in ("list", "tuple", "nodelist"):
            return self.seq_subscript(c.t, c.kind, idx, st, txt)
        if isinstance(c, T) and c.kind == "str":
            return self.str_subscript(c.t, idx, st, txt)
        if not (isinstance(c, T) and c.kind == "V"):
            raise Unsupported(f"subscript of {c}")
        t = c.t
        if st.mode == "spec":
            # total: sequence element / dict value by position of key
            seq = self.seq_term(c)
            if isinstance(idx, T) and idx.kind == "str":
                return self.ok(T("V", U.acc("vals", t)[self.dict_index(t, idx.t)]), st)
            if isinstance(idx, T) and idx.kind == "V":
                raise Unsupported("untyped subscript in spec: " + txt)
            return self.ok(T("V", seq[self.int_term(idx)]), st)
        out = []
        is_slice = self.is_kind(idx, ["VSlice"])
        is_seq = U.is_("VList", t), U.is_("VNodeList", t), U.is_("VTuple", t)
        # list-like receivers
        for kind, rec, acc in (("list", is_seq[0], "items"), ("nodelist", is_seq[1], "nodes"), ("tuple", is_seq[2], "titems")):
            s1 = st.fork(rec)
            if not self.feasible(s1):
                continue
            seq = U.acc(acc, t)
            out.extend(self.split(s1, is_slice,
                                  lambda a, seq=seq, kind=kind: self.seq_slice_obj(seq, kind, idx, a, txt),
                                  lambda b, seq=seq, kind=kind: self.seq_subscript(seq, kind, idx, b, txt)))
        s2 = st.fork(U.is_("VDict", t))
        if self.feasible(s2) and isinstance(idx, T) and idx.kind in ("int", "bool", "real"):
            out.extend(self.raise_(s2, "KeyError"))  # documents have string keys only (A1)
        elif self.feasible(s2):
            self.oblige(s2, "safety:dictkey", self.is_kind(idx, ["VStr"]), txt)
            di = self.dict_index(t, self.str_term(idx))
            out.extend(self.split(s2, di >= 0, lambda a: self.ok(T("V", U.acc("vals", t)[di]), a), lambda b: self.raise_(b, "KeyError")))
        s3 = st.fork(U.is_("VStr", t))
        if self.feasible(s3):
            out.extend(self.str_subscript(U.acc("s", t), idx, s3, txt))
        s4 = st.fork(z3.Not(z3.Or(U.is_("VList", t), U.is_("VNodeList", t), U.is_("VTuple", t), U.is_("VDict", t), U.is_("VStr", t))))
        if self.feasible(s4):
            out.extend(self.raise_(s4, "TypeError"))
        return out

    def seq_subscript(self, seq, kind, idx, st, txt=""):
        n = z3.Length(seq)
        if st.mode == "spec":
            return self.ok(T("V", seq[self.int_term(idx)]), st)
        self.oblige(st, "safety:index-type", self.is_intlike(idx), txt)
        i = self.int_term(idx)
        return self.split(st, z3.And(i >= -n, i < n), lambda a: self.ok(T("V", seq[self.norm_idx(i, n)]), a), lambda b: self.raise_(b, "IndexError"))

    def str_subscript(self, s, idx, st, txt=""):
        n = z3.Length(s)
        if st.mode == "spec":
            return self.ok(T("str", z3.SubString(s, self.int_term(idx), 1)), st)
        self.oblige(st, "safety:index-type", self.is_intlike(idx), txt)
        i = self.int_term(idx)
        return self.split(st, z3.And(i >= -n, i < n), lambda a: self.ok(T("str", z3.SubString(s, self.norm_idx(i, n), 1)), a), lambda b: self.raise_(b, "IndexError"))

    # slices -----------------------------------------------------------
    def slice_indices(self, start, stop, step, n):
        """CPython PySlice_Unpack + PySlice_AdjustIndices on V terms start/stop/step (VNone or VInt),
        n an Int term. Returns (lo, hi, st) Int terms. step==0 is the caller's problem (ValueError)."""
        U = self.U
        stp = z3.If(U.is_("VNone", step), z3.IntVal(1), U.acc("i", step))
        neg = stp < 0

        def adj(v, dflt_pos, dflt_neg, lo_clip_neg, hi_clip_neg):
            i = U.acc("i", v)
            return z3.If(
                U.is_("VNone", v),
                z3.If(neg, dflt_neg, dflt_pos),
                z3.If(i < 0, z3.If(i + n < 0, z3.If(neg, z3.IntVal(-1), z3.IntVal(0)), i + n), z3.If(i >= n, z3.If(neg, n - 1, n), i)),
            )

        lo = adj(start, z3.IntVal(0), n - 1, None, None)
        hi = adj(stop, n, z3.IntVal(-1), None, None)
        return lo, hi, stp

    def range_len(self, lo, hi, stp):
        """len(range(lo, hi, stp)): linear when the step is the literal 1/-1, else the uninterpreted
        `prog_len` (shared with the spec primitive of the same name) -- a symbolic divisor would make
        the obligation nonlinear (40 s `unknown`)."""
        ss = z3.simplify(stp)
        if z3.is_int_value(ss) and ss.as_long() == 1:
            return z3.If(lo < hi, hi - lo, z3.IntVal(0))
        if z3.is_int_value(ss) and ss.as_long() == -1:
            return z3.If(lo > hi, lo - hi, z3.IntVal(0))
        f = self.uf("prog_len", z3.IntSort(), z3.IntSort(), z3.IntSort(), z3.IntSort())
        t = f(lo, hi, stp)
        self.axioms.append(t >= 0)
        self.axioms.append(z3.Implies(z3.Or(z3.And(stp > 0, lo >= hi), z3.And(stp < 0, lo <= hi)), t == 0))
        self.axioms.append(z3.Implies(z3.Or(z3.And(stp > 0, lo < hi), z3.And(stp < 0, lo > hi)), t >= 1))
        return t

    def prog_at(self, lo, stp, j):
        """lo + j*stp; kept linear: the product is only spelled out when a factor is a numeral, otherwise
        the shared uninterpreted `prog_at` (equal arguments give equal values by congruence)"""
        ss, js = z3.simplify(stp), z3.simplify(j)
        if z3.is_int_value(ss) or z3.is_int_value(js):
            return z3.simplify(lo + j * stp)
        f = self.uf("prog_at", z3.IntSort(), z3.IntSort(), z3.IntSort(), z3.IntSort())
        return f(lo, stp, j)

    def prog_bounds(self, lo, hi, stp, j):
        """arithmetic fact about progressions (A5, trusted): the j-th term of range(lo, hi, stp),
        0 <= j < len(range), lies in [lo, hi) for stp > 0 and in (hi, lo] for stp < 0"""
        at = self.prog_at(lo, stp, j)
        return z3.And(z3.Implies(stp > 0, z3.And(lo <= at, at < hi)), z3.Implies(stp < 0, z3.And(hi < at, at <= lo)))

    def progression_seq(self, base_seq, lo, stp, cnt, hi=None):
        """fresh Seq V r with len cnt and r[j] == base_seq[lo + j*stp] (quantified, pattern r[j])"""
        r = z3.Const(fresh_name("slice"), self.U.SeqV)
        j = z3.Int("sj!")
        self.axioms.append(z3.Length(r) == cnt)
        body = r[j] == base_seq[self.prog_at(lo, stp, j)]
        if hi is not None:
            body = z3.And(body, self.prog_bounds(lo, hi, stp, j))
        self.axioms.append(self.forall([j], z3.Implies(z3.And(0 <= j, j < cnt), body), [r[j]]))
        return r

    def seq_slice_obj(self, seq, kind, sl, st, txt=""):
        U = self.U
        s = self.box(sl)
        stepv = U.acc("sstep", s)
        zero = z3.And(U.is_("VInt", stepv), U.acc("i", stepv) == 0)

        def okk(a):
            lo, hi, stp = self.slice_indices(U.acc("sstart", s), U.acc("sstop", s), stepv, z3.Length(seq))
            cnt = self.range_len(lo, hi, stp)
            return self.ok(T("list" if kind != "tuple" else "tuple", self.progression_seq(seq, lo, stp, cnt, hi)), a)

        if st.mode == "spec":
            return okk(st)
        return self.split(st, zero, lambda b: self.raise_(b, "ValueError"), okk)

    def slice_literal(self, c, parts, st, node):
        """x[a:b] / x[a:b:c] with literal slice syntax"""
        U = self.U
        a, b, cstep = parts
        if isinstance(c, T) and c.kind in ("str",) or (isinstance(c, T) and c.kind == "V" and st.mode == "spec" and False):
            s = c.t
            n = z3.Length(s)
            if not (isinstance(cstep, T) and z3.simplify(self.box(cstep)).eq(U.none)):
                raise Unsupported("string slice with step")
            lo, hi, _ = self.slice_indices(self.box(a), self.box(b), U.none, n)
            return self.ok(T("str", z3.SubString(s, lo, z3.If(hi > lo, hi - lo, 0))), st)
        if isinstance(c, T) and c.kind == "V" and st.mode == "code":
            # decide by kind
            out = []
            s1 = st.fork(U.is_("VStr", c.t))
            if self.feasible(s1):
                out.extend(self.slice_literal(T("str", U.acc("s", c.t)), parts, s1, node))
            s2 = st.fork(z3.Not(U.is_("VStr", c.t)))
            if self.feasible(s2):
                self.oblige(s2, "safety:slice", self.is_kind(c, ["VList", "VNodeList", "VTuple"]), ast.unparse(node))
                sl = T("V", U.con("VSlice", self.box(a), self.box(b), self.box(cstep)))
                out.extend(self.seq_slice_obj(self.seq_term(c), "list", sl, s2))
            return out
        seqk = self.seqish(c)
        if seqk or (isinstance(c, T) and c.kind == "V"):
            seq = self.seq_term(c)
            n = z3.Length(seq)
            if isinstance(cstep, T) and cstep.kind == "V" and z3.simplify(cstep.t).eq(U.none):
                lo, hi, _ = self.slice_indices(self.box(a), self.box(b), U.none, n)
                return self.ok(T(seqk if seqk in ("list", "tuple") else "list", z3.Extract(seq, lo, z3.If(hi > lo, hi - lo, 0))), st)
            sl = T("V", U.con("VSlice", self.box(a), self.box(b), self.box(cstep)))
            return self.seq_slice_obj(seq, seqk or "list", sl, st)
        raise Unsupported("slice of " + str(c))

    # ---------------- comprehensions -----------------
    def ev_ListComp(self, node, st):
        return self.comprehension(node, st, "list")

    def ev_GeneratorExp(self, node, st):
        return self.comprehension(node, st, "genexp")

    def comprehension(self, node, st, kind):
        """[f(x) for x in seq] over one sequence, no condition: result r with len(r)==len(seq) and
        forall j. r[j] == f(seq[j]); obligations of f are generated for an arbitrary j."""
        if len(node.generators) != 1 or node.generators[0].ifs or node.generators[0].is_async:
            raise Unsupported("comprehension shape")
        gen = node.generators[0]

        def k(itv, s):
            it = self.as_iterable(itv, s)
            n = self.it_len(it)
            j = z3.Int(fresh_name("cj"))
            s_el = s.fork(j >= 0, j < n)
            elem = self.it_elem(it, j)
            s_el = self.bind_target(gen.target, elem, s_el)
            if (s.mode == "code" and self.cur_contract is not None
                    and getattr(self, "comp_ord", {}).get(id(node)) in getattr(self.cur_contract, "comps", {})):
                s_el = self.learn(s_el, self.val_terms(elem))  # quantified facts about the elements apply to this one
            res = self.ev(node.elt, s_el)
            oks = [(v, s2) for tag, v, s2 in res if tag == OK]
            raises = [(e, s2) for tag, e, s2 in res if tag == RAISE]
            if not oks:
                raise Unsupported("comprehension element never evaluates")
            hint = None
            ordinal = getattr(self, "comp_ord", {}).get(id(node))
            cc = self.cur_contract
            if s.mode == "code" and cc is not None and ordinal in getattr(cc, "comps", {}) and self.fn_key_inner is None:
                # the contract names the element: G(target); proved for an arbitrary position on every element path
                hs = self.bind_target(gen.target, self.it_elem(it, j), State(dict(s.env), s_el.pc, None, "spec", None, dict(s.ghost)))
                hint = self.box(self.ev1(cc.parsed(cc.comps[ordinal]), hs))
                for v_i, s_i in oks:
                    self.oblige(s_i, f"comp#{ordinal}", self.box(v_i) == hint, cc.comps[ordinal])
            if len(oks) == 1:
                v, s2 = oks[0]
                extra = [c for c in s2.pc[len(s_el.pc):]]
                vt = self.box(v)
            else:
                # the element expression forks (conditional expression, dispatch): the paths partition the positions
                guards = [z3.And(*s_i.pc[len(s_el.pc):]) if len(s_i.pc) > len(s_el.pc) else z3.BoolVal(True) for _, s_i in oks]
                vt = self.box(oks[-1][0])
                for (v_i, _), g_i in reversed(list(zip(oks[:-1], guards[:-1]))):
                    vt = z3.If(g_i, self.box(v_i), vt)
                extra = [z3.Or(*guards)]
            if hint is not None:
                vt = hint
            jj = z3.Int("cq!")
            # facts the element evaluation established for an arbitrary position hold for every position; they
            # were derived under this path's condition, so they extend THIS path's condition (not the global axioms)
            gen_facts = [self.forall([jj], z3.Implies(z3.And(0 <= jj, jj < n), z3.substitute(c, (j, jj)))) for c in extra]
            r = self.map_symbol(vt, it, j, n)
            if r is None:
                r = z3.Const(fresh_name("comp"), self.U.SeqV)
                self.axioms.append(z3.Length(r) == n)
                body = z3.substitute(vt, (j, jj))
                self.axioms.append(self.forall([jj], z3.Implies(z3.And(0 <= jj, jj < n), r[jj] == body), [r[jj]]))
            out = self.ok(T("list", r), s.fork(*gen_facts))
            for e, s3 in raises:
                # some element raises: the comprehension raises that exception
                out.append((RAISE, e, s.fork(*s3.pc[len(s.pc):])))
            if it.pending is not None:
                out = self.bind(out, lambda val, sx: self.split(sx, self.U.is_("VNone", it.pending), lambda a: self.ok(val, a), lambda b: [(RAISE, it.pending, b)]))
            return out

        return self.bind(self.ev(gen.iter, st), k)

    def map_symbol(self, vt, it, j, n):
        """[G(x, c...) for x in S] where G is a spec function and the spec library defines the prefix-recursive
        `map_<G>(S, c..., k)`: use that very symbol, so that code and spec build the SAME sequence term
        (z3 has no usable sequence extensionality)"""
        if it.kind != "seq" or not z3.is_app(vt):
            return None
        if vt.decl().kind() == z3.Z3_OP_DT_CONSTRUCTOR and vt.decl().name() in ("VStr", "VInt", "VBool", "VFloat") and z3.is_app(vt.arg(0)):
            vt = vt.arg(0)  # a boxed scalar result G(x): the list elements of map_<G> are boxed the same way
        name = vt.decl().name()
        if not name.startswith("spec_"):
            return None
        g = "map_" + name[5:]
        if g not in self.speclib.funcs:
            return None
        args = [vt.arg(k) for k in range(vt.num_args())]
        elem = it.parts[0][j]
        if not args or not args[0].eq(elem):
            return None
        from .specs import _has_var  # noqa: F401

        for a in args[1:]:
            if _mentions(a, j):
                return None
        ps, ret = self.speclib.kinds(g)
        if len(ps) != len(args) + 1:
            return None
        call = [T("list", it.parts[0])] + [T(k, a) for (_, k), a in zip(ps[1:-1], args[1:])] + [T("int", n)]
        return self.speclib.apply(g, call).t

    # ---------------- lambda / starred -----------------
    def ev_Starred(self, node, st):
        return self.bind(self.ev(node.value, st), lambda v, s: self.ok(Star(v), s))


class Rec:
    """object under construction inside an inlined __init__"""

    def __init__(self, cls):
        self.cls = cls
        self.fields = {}


def _mentions(t, c):
    stack, seen = [t], set()
    while stack:
        x = stack.pop()
        if x.get_id() in seen:
            continue
        seen.add(x.get_id())
        if x.eq(c):
            return True
        if z3.is_app(x):
            stack.extend(x.children())
    return False
