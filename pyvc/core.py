"""Core of the symbolic executor: state, boxing/unboxing, python-semantics helpers."""
from __future__ import annotations

import itertools

import z3

from .universe import Universe
from .vals import BM, Builtin, Cls, Fn, It, Mod, T, Tup, Unsupported

_fresh = itertools.count()


def fresh_name(prefix):
    return f"{prefix}!{next(_fresh)}"


class State:
    __slots__ = ("env", "pc", "out", "mode", "handler_exc", "ghost")

    def __init__(self, env=None, pc=None, out=None, mode="code", handler_exc=None, ghost=None):
        self.env = env if env is not None else {}
        self.pc = pc if pc is not None else []
        self.out = out
        self.mode = mode
        self.handler_exc = handler_exc
        self.ghost = ghost if ghost is not None else {}

    def fork(self, *conds):
        have = {c.get_id() for c in self.pc}
        new = []
        for c in conds:
            if c is not None and c.get_id() not in have and not z3.is_true(c):
                have.add(c.get_id())
                new.append(c)
        st = State(dict(self.env), self.pc + new, self.out, self.mode, self.handler_exc, dict(self.ghost))
        for c in conds:
            if c is not None:
                _note_recognisers(c, st.ghost)
        return st

    def set(self, name, val):
        st = self.fork()
        st.env[name] = val
        return st


class Obligation:
    __slots__ = ("clause", "hyps", "goal", "note", "must_be_sat")

    def __init__(self, clause, hyps, goal, note="", must_be_sat=False):
        self.clause = clause
        self.hyps = list(hyps)
        self.goal = goal
        self.note = note
        self.must_be_sat = must_be_sat


class AxiomList(list):
    """list of z3 facts without duplicates (terms are hash-consed: same fact, same id)"""

    def __init__(self, *a):
        super().__init__(*a)
        self._ids = {x.get_id() for x in self}

    def append(self, x):
        if x.get_id() not in self._ids:
            self._ids.add(x.get_id())
            super().append(x)


class Core:
    """Helpers shared by the expression and statement executors."""

    def __init__(self, U: Universe):
        self.U = U
        self.V = U.V
        self.obligations: list[Obligation] = []
        self.axioms = AxiomList()  # facts about uninterpreted builtins created during execution (deduplicated)
        self.fn_key = "?"
        self._feas = z3.Solver()
        self._feas.set("timeout", 250)
        self._feas_stack = []
        self._feas_abs = None
        self._feas_axioms = 0
        self._feas_ax_seen = set()
        self._ufs = {}

    # ---------------- statically known constructors -----------------
    _g = None  # ghost dict of the state currently being evaluated (set by ev / exec_stmt)

    def known_con(self, t):
        if z3.is_app(t) and t.decl().kind() == z3.Z3_OP_DT_CONSTRUCTOR:
            return t.decl().name()
        if self._g is not None:
            return self._g.get(("is", t.get_id()))
        return None

    # ---------------- uninterpreted builtins -----------------
    def uf(self, name, *sorts):
        if name not in self._ufs:
            self._ufs[name] = z3.Function(name, *sorts)
        return self._ufs[name]

    # ---------------- boxing -----------------
    def box(self, v) -> z3.ExprRef:
        U = self.U
        if isinstance(v, T):
            k = v.kind
            if k == "V":
                return v.t
            if k == "int":
                return U.con("VInt", v.t)
            if k == "bool":
                return U.con("VBool", v.t)
            if k == "str":
                return U.con("VStr", v.t)
            if k == "real":
                return U.con("VFloat", v.t)
            if k == "list":
                return U.con("VList", v.t)
            if k == "tuple":
                return U.con("VTuple", v.t)
            if k == "nodelist":
                return U.con("VNodeList", v.t)
        if type(v).__name__ == "Rec":  # object under construction / updated in place: its current field values
            return self.rec_term(v)
        if isinstance(v, Tup):
            return U.con("VTuple", self.seq_of_terms([self.box(x) for x in v.items]))
        if isinstance(v, It):
            if v.kind == "gen":
                return v.parts[0]
            if v.kind == "seq":
                # an iterator object stored away (self.iter = iter(xs)): an unknown value about which nothing is assumed --
                # every later operation on it has to go through a contract (safety obligations on it cannot be discharged)
                return z3.Const(fresh_name("iterobj"), U.V)
            raise Unsupported(f"abstract iterable {v.kind} escapes")
        if v is None:
            return U.none
        raise Unsupported(f"cannot box {type(v).__name__} {getattr(v, 'name', '')}")

    def seq_of_terms(self, terms):
        if not terms:
            return z3.Empty(self.U.SeqV)
        us = [z3.Unit(t) for t in terms]
        return us[0] if len(us) == 1 else z3.Concat(*us)

    def V_(self, t):
        return T("V", t)

    def int_(self, t):
        return T("int", t if isinstance(t, z3.ExprRef) else z3.IntVal(t))

    def bool_(self, t):
        return T("bool", t if isinstance(t, z3.ExprRef) else z3.BoolVal(t))

    def str_(self, t):
        return T("str", t if isinstance(t, z3.ExprRef) else z3.StringVal(t))

    # ---------------- recognisers on Val -----------------
    def is_kind(self, v, names):
        """Bool term: boxed v has one of the constructor names."""
        if isinstance(v, T) and v.kind != "V":
            m = {"int": "VInt", "bool": "VBool", "str": "VStr", "real": "VFloat", "list": "VList", "tuple": "VTuple", "nodelist": "VNodeList"}[v.kind]
            return z3.BoolVal(m in names)
        if isinstance(v, Tup):
            return z3.BoolVal("VTuple" in names)
        if isinstance(v, (Cls, Fn, BM, Builtin, Mod)):
            return z3.BoolVal(False)
        t = self.box(v)
        kc = self.known_con(t)
        if kc is not None:
            return z3.BoolVal(kc in names)
        return z3.Or(*[self.U.is_(n, t) for n in names])

    def seq_term(self, v):
        """Seq V term of a list/tuple/nodelist-like value (caller guarantees the kind)."""
        U = self.U
        if isinstance(v, T):
            if v.kind in ("list", "tuple", "nodelist"):
                return v.t
            if v.kind == "V":
                t = v.t
                kc = self.known_con(t)
                acc = {"VList": "items", "VNodeList": "nodes", "VTuple": "titems", "VGen": "gseq"}.get(kc)
                if acc:
                    if z3.is_app(t) and t.decl().kind() == z3.Z3_OP_DT_CONSTRUCTOR and t.decl().name() == kc and t.num_args() >= 1:
                        return t.arg(0)  # items(VList(x)) is x
                    return U.acc(acc, t)
                return z3.If(U.is_("VList", t), U.acc("items", t), z3.If(U.is_("VNodeList", t), U.acc("nodes", t), z3.If(U.is_("VTuple", t), U.acc("titems", t), U.acc("gseq", t))))
        if isinstance(v, Tup):
            return self.seq_of_terms([self.box(x) for x in v.items])
        raise Unsupported(f"seq_term of {v}")

    def int_term(self, v):
        if isinstance(v, T):
            if v.kind == "int":
                return v.t
            if v.kind == "bool":
                return z3.If(v.t, z3.IntVal(1), z3.IntVal(0))
            if v.kind == "V":
                if self.known_con(v.t) == "VInt":
                    return self.U.acc("i", v.t)
                return z3.If(self.U.is_("VBool", v.t), z3.If(self.U.acc("b", v.t), z3.IntVal(1), z3.IntVal(0)), self.U.acc("i", v.t))
        raise Unsupported(f"int_term of {v}")

    def is_intlike(self, v):
        return self.is_kind(v, ["VInt", "VBool"])

    def real_term(self, v):
        if isinstance(v, T):
            if v.kind == "real":
                return v.t
            if v.kind in ("int", "bool"):
                return z3.ToReal(self.int_term(v))
            if v.kind == "V":
                return z3.If(self.U.is_("VFloat", v.t), self.U.acc("r", v.t), z3.ToReal(self.int_term(v)))
        raise Unsupported(f"real_term of {v}")

    def str_term(self, v):
        if isinstance(v, T):
            if v.kind == "str":
                return v.t
            if v.kind == "V":
                return self.U.acc("s", v.t)
        raise Unsupported(f"str_term of {v}")

    def bool_term(self, v):
        """strict: value is known to be a bool"""
        if isinstance(v, T):
            if v.kind == "bool":
                return v.t
            if v.kind == "V":
                return self.U.acc("b", v.t)
        raise Unsupported(f"bool_term of {v}")

    def truthy(self, v):
        """Python truthiness as a Bool term (objects without __bool__/__len__ are true)."""
        U = self.U
        if type(v).__name__ == "Mt":  # a match object is always true, None is false
            return v.r >= 0
        if isinstance(v, T):
            k = v.kind
            if k == "bool":
                return v.t
            if k == "int":
                return v.t != 0
            if k == "real":
                return v.t != 0
            if k == "str":
                return z3.Length(v.t) > 0
            if k in ("list", "tuple", "nodelist"):
                return z3.Length(v.t) > 0
            t = v.t
            return z3.If(
                U.is_("VNone", t),
                z3.BoolVal(False),
                z3.If(
                    U.is_("VBool", t),
                    U.acc("b", t),
                    z3.If(
                        U.is_("VInt", t),
                        U.acc("i", t) != 0,
                        z3.If(
                            U.is_("VFloat", t),
                            U.acc("r", t) != 0,
                            z3.If(
                                U.is_("VStr", t),
                                z3.Length(U.acc("s", t)) > 0,
                                z3.If(
                                    U.is_("VList", t),
                                    z3.Length(U.acc("items", t)) > 0,
                                    z3.If(
                                        U.is_("VNodeList", t),
                                        z3.Length(U.acc("nodes", t)) > 0,
                                        z3.If(
                                            U.is_("VTuple", t),
                                            z3.Length(U.acc("titems", t)) > 0,
                                            z3.If(U.is_("VDict", t), z3.Length(U.acc("keys", t)) > 0, z3.BoolVal(True)),
                                        ),
                                    ),
                                ),
                            ),
                        ),
                    ),
                ),
            )
        if isinstance(v, Tup):
            return z3.BoolVal(len(v.items) > 0)
        if isinstance(v, (Cls, Fn, BM, Builtin, Mod)):
            return z3.BoolVal(True)
        if v is None:
            return z3.BoolVal(False)
        raise Unsupported(f"truthiness of {v}")

    # ---------------- dict model (A4) -----------------
    def dict_index(self, d, k):
        """Int term: position of key k (String term) in dict d (V term) or -1; with its ground axioms."""
        U = self.U
        f = self.uf("dict_index", self.V, z3.StringSort(), z3.IntSort())
        idx = f(d, k)
        keys = U.acc("keys", d)
        j = z3.Int("dj!")  # bound: a fixed name keeps equal axioms identical (hash-consed), so they are added once
        self.axioms.append(z3.And(idx >= -1, idx < z3.Length(keys)))
        self.axioms.append(z3.Implies(idx >= 0, keys[idx] == k))
        # idx is the FIRST position holding k (consistent for any key sequence; for real dicts keys are
        # distinct -- part of is_json / wf_registry -- so it is THE position)
        self.axioms.append(self.forall([j], z3.Implies(z3.And(0 <= j, j < z3.Length(keys), keys[j] == k), z3.And(idx >= 0, idx <= j)), [keys[j]]))
        return idx

    def forall(self, vs, body, pats=None):
        if pats and not any(_has_ite(p) for p in pats):
            try:
                return z3.ForAll(vs, body, patterns=pats)
            except z3.Z3Exception:
                pass
        return z3.ForAll(vs, body)

    # ---------------- feasibility -----------------
    def feasible(self, st: State, extra=None, careful=False) -> bool:
        """quick satisfiability of the path condition; quantified subformulas are abstracted by
        fresh Boolean constants (an over-approximation: it can only keep more paths, so pruning
        stays sound). Incremental: the solver keeps the longest common prefix of the last path
        condition (exploration is depth-first, so prefixes are shared); `unknown` counts as feasible."""
        s = self._feas
        stack = self._feas_stack
        if self._feas_abs is None:
            from .abstraction import Abstractor

            self._feas_abs = Abstractor(self.V)
        ab = self._feas_abs
        ids = [c.get_id() for c in st.pc]
        k = 0
        while k < len(stack) and k < len(ids) and stack[k] == ids[k]:
            k += 1
        while len(stack) > k:
            s.pop()
            stack.pop()
        for c in st.pc[k:]:
            s.push()
            s.add(self._feas_tr(c))
            stack.append(pin(c))
        s.push()
        try:
            if extra is not None:
                s.add(self._feas_tr(extra))
            for a in self.axioms:
                if not _has_quant(a):
                    s.add(self._feas_tr(a))
            for ln in ab.len_terms.values():
                s.add(ln >= 0)
            for fact in ab.extra.values():
                s.add(fact)
            lits = list(ab.literals.values())
            if len(lits) > 1:
                s.add(z3.Distinct(*lits))
            r = s.check()
            if r != z3.unsat and careful:
                r = self._feasible_concrete(st, extra)
            return r != z3.unsat
        finally:
            s.pop()

    def _feas_tr(self, c):
        """quantifiers abstracted by Booleans, then the theory abstraction (pyvc/abstraction.py): both only weaken the
        formula, so an `unsat` answer (the only one that prunes a path) stays sound"""
        from .abstraction import Untranslatable

        q = _abstract_quant(c)
        try:
            return self._feas_abs.tr(q)
        except (Untranslatable, KeyError, z3.Z3Exception):
            return z3.BoolVal(True)

    def _feasible_concrete(self, st, extra):
        """one-shot check with the sequence theory (used where a spurious alternative is expensive: dynamic dispatch)"""
        s = z3.Solver()
        s.set("timeout", int(getattr(self, "concrete_feas_ms", 600)))
        for c in st.pc:
            s.add(_abstract_quant(c))
        if extra is not None:
            s.add(_abstract_quant(extra))
        for a in self.axioms:
            if not _has_quant(a):
                s.add(a)
        return s.check()

    def assume(self, st: State, facts):
        """extend the path condition by facts and by the ground definitional instances of the spec
        applications in them (consequences of the definitions, so sound to add)"""
        facts = [f for f in facts if f is not None]
        if not facts:
            return st
        facts = self.open_defs(facts, list(st.pc))
        known = list(st.pc) + facts
        extra = self.speclib.unfold(facts, depth=2, successor=False, known=known)
        have = {f.get_id() for f in known}
        inst = [f for f in self._instantiate(known + extra) if f.get_id() not in have]
        inst = self.open_defs(inst, known)
        extra += inst
        if inst:
            extra += self.speclib.unfold(inst, depth=1, successor=False, known=known)
        return st.fork(*facts, *extra)

    def open_defs(self, facts, known, depth=3):
        """a top-level fact that is an application of a recursive Boolean spec function holds, so its
        body holds: add the body as a fact of its own (so that recogniser facts inside become visible
        syntactically and quantifiers inside become top-level hypotheses)"""
        out = list(facts)
        frontier = list(facts)
        names = {d.name(): n for n, d in self.speclib.decls.items()}
        for _ in range(depth):
            nxt = []
            for f in frontier:
                for c in _conjuncts(f):
                    if z3.is_app(c) and c.decl().name() in names and z3.is_bool(c) and not (
                            names[c.decl().name()] in self.speclib.opaque and names[c.decl().name()] not in self.speclib.revealed):
                        g = {}
                        for k in known + out:
                            _note_recognisers(k, g)
                        self.speclib._ghost = g
                        try:
                            body = self.speclib.instance(names[c.decl().name()], c).arg(1)
                        finally:
                            self.speclib._ghost = None
                        body = _simplify_known(body, g)
                        if not any(body.eq(o) for o in out):
                            out.append(body)
                            nxt.append(body)
            frontier = nxt
            if not frontier:
                break
        return out

    def learn(self, st: State, terms):
        """new ground terms (e.g. a loop variable bound to s[i]) may trigger quantified hypotheses of the
        path condition: add those instances (and their unfoldings) to the path condition"""
        have = {f.get_id() for f in st.pc}
        inst = [f for f in self._instantiate(list(st.pc) + list(terms)) if f.get_id() not in have]
        if not inst:
            return st
        # instance `Q -> phi(t)` with Q a top-level hypothesis: phi(t) itself is a fact
        tops = {c.get_id() for f in st.pc for c in _conjuncts(f)}
        direct = [f.arg(1) for f in inst if z3.is_app(f) and f.decl().kind() == z3.Z3_OP_IMPLIES and f.arg(0).get_id() in tops]
        inst = self.open_defs(inst + direct, list(st.pc))
        extra = self.speclib.unfold(inst, depth=1, successor=False, known=list(st.pc))
        return st.fork(*inst, *extra)

    def oblige(self, st: State, kind: str, goal, note=""):
        self.obligations.append(Obligation(f"{self.fn_key}/{kind}", st.pc, goal, note))

    # ---------------- exceptions -----------------
    def exc_val(self, cls_name, token=None):
        U = self.U
        tok = token if token is not None else U.none
        return U.con("VExc", z3.IntVal(U.exc_id[cls_name]), tok)


def _has_ite(t):
    stack, seen = [t], set()
    while stack:
        x = stack.pop()
        if x.get_id() in seen:
            continue
        seen.add(x.get_id())
        if z3.is_app(x):
            if x.decl().kind() == z3.Z3_OP_ITE:
                return True
            stack.extend(x.children())
    return False


# z3 recycles AST ids once a term is freed: every term whose id serves as a long-lived key is kept alive here,
# otherwise a cache entry (or a recogniser fact, or the incremental feasibility stack) can silently refer to a
# different term later on
_PINNED = {}


def pin(t):
    k = t.get_id()
    if k not in _PINNED:
        _PINNED[k] = t
    return k


def simp(t):
    """z3.simplify, except that its rewriting of s[i] into `ite(in bounds, seq.nth_i, seq.nth_u)` is not kept:
    those internal operators hide the element term from instantiation and from the theory abstraction"""
    r = z3.simplify(t)
    if z3.is_true(r) or z3.is_false(r):
        return r
    stack, seen = [r], set()
    while stack:
        x = stack.pop()
        if x.get_id() in seen:
            continue
        seen.add(x.get_id())
        if z3.is_quantifier(x):
            stack.append(x.body())
        elif z3.is_app(x):
            if x.decl().name() in ("seq.nth_i", "seq.nth_u"):
                return t
            stack.extend(x.children())
    return r


_quant_cache = {}


def _has_quant(t):
    k = pin(t)
    if k in _quant_cache:
        return _quant_cache[k]
    stack, seen, res = [t], set(), False
    while stack:
        x = stack.pop()
        if x.get_id() in seen:
            continue
        seen.add(x.get_id())
        if z3.is_quantifier(x):
            res = True
            break
        if z3.is_app(x):
            stack.extend(x.children())
    _quant_cache[k] = res
    return res


def _conjuncts(f, depth=0):
    if z3.is_and(f) and depth < 6:
        for c in f.children():
            yield from _conjuncts(c, depth + 1)
    elif z3.is_or(f) and f.num_args() == 1:
        yield from _conjuncts(f.arg(0), depth + 1)
    else:
        yield f


def _simplify_known(body, g):
    """replace recogniser atoms whose subject's constructor is known by true/false, then simplify
    (collapses the class-dispatching if-chains of spec functions)"""
    subs = []
    stack, seen = [body], set()
    while stack:
        x = stack.pop()
        if x.get_id() in seen:
            continue
        seen.add(x.get_id())
        if z3.is_quantifier(x):
            continue
        if z3.is_app(x):
            if x.decl().kind() == z3.Z3_OP_DT_IS:
                k = g.get(("is", x.arg(0).get_id()))
                if k is not None:
                    subs.append((x, z3.BoolVal(x.decl().params()[0].name() == k)))
                    continue
            stack.extend(x.children())
    if not subs:
        return body
    return simp(z3.substitute(body, *subs))


def _flat_or(c, depth=0):
    if z3.is_or(c) and depth < 4:
        out = []
        for ch in c.children():
            out.extend(_flat_or(ch, depth + 1))
        return out
    return [c]


def _note_recognisers(c, ghost, depth=0):
    """remember `is-K(t)` facts syntactically: ghost[("is", id(t))] = "K" (used to pin receiver classes)"""
    if depth > 6 or not z3.is_app(c):
        return
    k = c.decl().kind()
    if k == z3.Z3_OP_DT_IS:
        ghost[("is", pin(c.arg(0)))] = c.decl().params()[0].name()
    elif k == z3.Z3_OP_AND or (k == z3.Z3_OP_OR and c.num_args() == 1):
        for ch in c.children():
            _note_recognisers(ch, ghost, depth + 1)
    elif k == z3.Z3_OP_OR:
        # Or(is-A(t), is-B(t), ...) over one subject: remember the set of possible constructors
        alts = _flat_or(c)
        if alts and all(z3.is_app(a) and a.decl().kind() == z3.Z3_OP_DT_IS for a in alts):
            t = alts[0].arg(0)
            if all(a.arg(0).get_id() == t.get_id() for a in alts):
                names = {a.decl().params()[0].name() for a in alts}
                pin(t)
                prev = ghost.get(("in", t.get_id()))
                ghost[("in", t.get_id())] = names if prev is None else (prev & names)
                if len(ghost[("in", t.get_id())]) == 1:
                    ghost[("is", t.get_id())] = next(iter(ghost[("in", t.get_id())]))


_abs_cache = {}
_abs_consts = {}


def _abstract_quant(t):
    k = pin(t)
    if k in _abs_cache:
        return _abs_cache[k]
    if not _has_quant(t):
        _abs_cache[k] = t
        return t
    subs = []
    stack, seen = [t], set()
    while stack:
        x = stack.pop()
        if x.get_id() in seen:
            continue
        seen.add(x.get_id())
        if z3.is_quantifier(x):
            c = _abs_consts.get(x.get_id())
            if c is None:
                c = z3.Bool(f"qabs!{x.get_id()}")
                _abs_consts[x.get_id()] = c
            subs.append((x, c))
        elif z3.is_app(x):
            stack.extend(x.children())
    r = z3.substitute(t, *subs)
    _abs_cache[k] = r
    return r
