"""Symbolic values handled by the executor (python side)."""
from __future__ import annotations

import z3


class Unsupported(Exception):
    """Construct outside the pyvc subset: the function becomes `unattachable` (never a verdict)."""


class T:
    """SMT-backed value. kind in V|int|bool|str|real|list|tuple|nodelist (the last three: Seq V)."""

    __slots__ = ("kind", "t")

    def __init__(self, kind, t):
        self.kind = kind
        self.t = t

    def __repr__(self):
        return f"T({self.kind},{self.t})"


class Tup:
    """python-side fixed-length tuple of values"""

    __slots__ = ("items",)

    def __init__(self, items):
        self.items = list(items)


class Cls:
    __slots__ = ("name",)

    def __init__(self, name):
        self.name = name

    def __repr__(self):
        return f"Cls({self.name})"


class Fn:
    """module level function (or nested function) of the package under verification"""

    __slots__ = ("key",)

    def __init__(self, key):
        self.key = key


class BM:
    """bound method: receiver value + method name (+ static class when known, e.g. super())"""

    __slots__ = ("recv", "name", "static_cls")

    def __init__(self, recv, name, static_cls=None):
        self.recv = recv
        self.name = name
        self.static_cls = static_cls


class Builtin:
    __slots__ = ("name",)

    def __init__(self, name):
        self.name = name

    def __repr__(self):
        return f"Builtin({self.name})"


class Mod:
    __slots__ = ("name",)

    def __init__(self, name):
        self.name = name


class It:
    """abstract iterable: knows its length (Int term) and its j-th element (Val)."""

    __slots__ = ("kind", "parts", "pending")

    def __init__(self, kind, parts, pending=None):
        self.kind = kind
        self.parts = parts
        self.pending = pending  # V term of the exception raised after exhaustion (VNone if none) or None


class Mt:
    """result of Pattern.match(q, pos): r = length of the match, -1 for no match (assumed contract of the re module:
    the matched text is q[pos:pos+r], so 0 <= r <= len(q) - pos)"""

    __slots__ = ("r", "q", "pos")

    def __init__(self, r, q, pos):
        self.r, self.q, self.pos = r, q, pos


class PyMap:
    """a dict literal with constant keys (enum members / strings) evaluated at analysis time: list of (key term, value).
    Used for the parser's class-level tables; values may be any engine value (ints, strings, bound methods)."""

    __slots__ = ("items",)

    def __init__(self, items):
        self.items = items


class SuperProxy:
    __slots__ = ("recv", "after")

    def __init__(self, recv, after):
        self.recv = recv
        self.after = after


class Star:
    __slots__ = ("val",)

    def __init__(self, val):
        self.val = val
