"""C05: frame obligations behind the table dispatch the parser contracts use (contracts/parser.py, `dispatch=`), decided on
the AST of /repo's current source: the tables self.token_map and self.function_argument_map are dict literals of bound
methods of self, assigned in Parser.__init__ and stored nowhere else in the package; every method they name is under contract."""
import ast
from pathlib import Path

from .contracts import REGISTRY

TABLES = ("token_map", "function_argument_map")


def parse_frame_obligations(repo="/repo"):
    pkg = Path(repo) / "jsonpath_rfc9535"
    out = []
    tree = ast.parse((pkg / "parse.py").read_text())
    init = None
    for t in tree.body:
        if isinstance(t, ast.ClassDef) and t.name == "Parser":
            for m in t.body:
                if isinstance(m, ast.FunctionDef) and m.name == "__init__":
                    init = m
    bad, named = [], set()
    found = set()
    if init is None:
        bad.append("no Parser.__init__")
    else:
        for n in ast.walk(init):
            tg, val = None, None
            if isinstance(n, ast.Assign) and len(n.targets) == 1:
                tg, val = n.targets[0], n.value
            elif isinstance(n, ast.AnnAssign):
                tg, val = n.target, n.value
            if isinstance(tg, ast.Attribute) and tg.attr in TABLES:
                found.add(tg.attr)
                if not (isinstance(tg.value, ast.Name) and tg.value.id == "self" and isinstance(val, ast.Dict)):
                    bad.append(f"parse.py:{n.lineno} {tg.attr} is not `self.{tg.attr} = {{...}}`")
                    continue
                for v in val.values:
                    if isinstance(v, ast.Attribute) and isinstance(v.value, ast.Name) and v.value.id == "self":
                        named.add(v.attr)
                    else:
                        bad.append(f"parse.py:{v.lineno} table value is not a bound method of self")
        for t in TABLES:
            if t not in found:
                bad.append(f"table {t} not assigned in Parser.__init__")
    out.append({"id": "parse:frame/dispatch-tables-are-dict-literals-of-bound-methods", "status": "ok" if not bad else "violated", "detail": bad[:5]})
    # stored nowhere else
    bad = []
    for p in sorted(pkg.rglob("*.py")):
        t = ast.parse(p.read_text())
        for n in ast.walk(t):
            tgs = []
            if isinstance(n, ast.Assign):
                tgs = n.targets
            elif isinstance(n, (ast.AugAssign, ast.AnnAssign)):
                tgs = [n.target]
            elif isinstance(n, ast.Delete):
                tgs = n.targets
            for tg in tgs:
                for x in ast.walk(tg):
                    if isinstance(x, ast.Attribute) and x.attr in TABLES and isinstance(x.ctx, (ast.Store, ast.Del)):
                        inside = init is not None and p.name == "parse.py" and init.lineno <= n.lineno <= (init.end_lineno or init.lineno)
                        if not inside:
                            bad.append(f"{p.name}:{n.lineno} stores .{x.attr}")
                    if isinstance(x, ast.Subscript) and isinstance(x.ctx, (ast.Store, ast.Del)) and isinstance(x.value, ast.Attribute) and x.value.attr in TABLES:
                        bad.append(f"{p.name}:{n.lineno} updates .{x.value.attr}[...]")
            if isinstance(n, ast.Call) and isinstance(n.func, ast.Attribute) and isinstance(n.func.value, ast.Attribute) and n.func.value.attr in TABLES \
                    and n.func.attr in ("update", "pop", "clear", "setdefault", "popitem", "__setitem__", "__delitem__"):
                bad.append(f"{p.name}:{n.lineno} mutates .{n.func.value.attr}")
            if isinstance(n, ast.Call) and isinstance(n.func, ast.Name) and n.func.id in ("setattr", "delattr") and len(n.args) >= 2:
                a = n.args[1]
                if not (isinstance(a, ast.Constant) and isinstance(a.value, str) and a.value not in TABLES):
                    bad.append(f"{p.name}:{n.lineno} setattr/delattr with a name that may be a table")
    out.append({"id": "parse:frame/dispatch-tables-stored-only-in-Parser.__init__", "status": "ok" if not bad else "violated", "detail": bad[:5]})
    missing = [m for m in sorted(named) if f"parse:Parser.{m}" not in REGISTRY]
    out.append({"id": "parse:frame/every-dispatched-method-is-under-contract", "status": "ok" if not missing else "violated", "detail": missing})
    return out
