"""C20: exception-flow obligations on cli.handle_path_command (AST of /repo's current source).
What can escape compile()/find() is the union of the `raises` clauses of the contracts (JSONPathError
subclasses) plus json.JSONDecodeError / UnicodeDecodeError from json.load on bytes (builtin contract)."""
import ast
from pathlib import Path

from .universe import Source

COMPILE_RAISES = ["JSONPathSyntaxError", "JSONPathTypeError", "JSONPathIndexError", "JSONPathNameError", "JSONPathLexerError"]
EVAL_RAISES = ["JSONPathTypeError", "JSONPathRecursionError", "JSONDecodeError", "UnicodeDecodeError"]


def _names(t):
    if t is None:
        return ["BaseException"]
    if isinstance(t, ast.Tuple):
        return [n for e in t.elts for n in _names(e)]
    if isinstance(t, ast.Name):
        return [t.id]
    if isinstance(t, ast.Attribute):
        return [t.attr]
    return []


def cli_obligations(repo="/repo"):
    src = Source()
    out = []
    tree = ast.parse((Path(repo) / "jsonpath_rfc9535" / "cli.py").read_text())
    fn = next((n for n in tree.body if isinstance(n, ast.FunctionDef) and n.name == "handle_path_command"), None)
    if fn is None:
        return [{"id": "cli:handle_path_command/present", "status": "violated"}]

    def covers(handler_names, exc):
        mro = src.mro(exc) if exc in src.classes else {"JSONDecodeError": ["JSONDecodeError", "ValueError", "Exception", "BaseException"],
                                                       "UnicodeDecodeError": ["UnicodeDecodeError", "UnicodeError", "ValueError", "Exception", "BaseException"]}.get(exc, [exc])
        return any(h in mro for h in handler_names)

    tries = [n for n in ast.walk(fn) if isinstance(n, ast.Try)]

    def has_call(node, attr):
        return any(isinstance(c, ast.Call) and isinstance(c.func, ast.Attribute) and c.func.attr == attr for c in ast.walk(node))

    for label, attr, needed in (("compile", "compile", COMPILE_RAISES), ("evaluate", "find", EVAL_RAISES)):
        t = next((t for t in tries if any(has_call(s, attr) for s in t.body)), None)
        if t is None:
            out.append({"id": f"cli:handle_path_command/handler-coverage:{label}", "status": "violated", "detail": f"no try around .{attr}()"})
            continue
        hn = [n for h in t.handlers for n in _names(h.type)]
        for exc in needed:
            out.append({"id": f"cli:handle_path_command/handler-coverage:{label}:{exc}", "status": "ok" if covers(hn, exc) else "violated"})
        for h in t.handlers:
            body = h.body
            ok_debug = bool(body) and isinstance(body[0], ast.If) and "debug" in ast.unparse(body[0].test) and any(isinstance(s, ast.Raise) for s in body[0].body)
            writes = [c for s in body for c in ast.walk(s) if isinstance(c, ast.Call) and ast.unparse(c.func) == "sys.stderr.write"]
            exits = [c for s in body for c in ast.walk(s) if isinstance(c, ast.Call) and ast.unparse(c.func) == "sys.exit"]
            nonzero = bool(exits) and all(c.args and isinstance(c.args[0], ast.Constant) and c.args[0].value not in (0, None, False) for c in exits)
            one_line = len(writes) == 1 and "\\n" in ast.unparse(writes[0]) and ast.unparse(writes[0]).count("\\n") == 1
            tag = "+".join(_names(h.type))
            out.append({"id": f"cli:handle_path_command/handler-shape:{label}:{tag}", "status": "ok" if (ok_debug and one_line and nonzero) else "violated",
                        "detail": {"debug_reraise": ok_debug, "one_line_to_stderr": one_line, "nonzero_exit": nonzero}})
    # the result is written only after evaluation completed: json.dump is a top-level statement after the try blocks
    dumps = [i for i, s in enumerate(fn.body) if any(isinstance(c, ast.Call) and ast.unparse(c.func) == "json.dump" for c in ast.walk(s))]
    last_try = max((i for i, s in enumerate(fn.body) if isinstance(s, ast.Try)), default=-1)
    inside = any(isinstance(c, ast.Call) and ast.unparse(c.func) == "json.dump" for t in tries for c in ast.walk(t))
    out.append({"id": "cli:handle_path_command/no-partial-output", "status": "ok" if dumps and min(dumps) > last_try and not inside else "violated"})
    return out
