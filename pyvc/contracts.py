"""Contract registry (sidecar contracts are data; DESIGN 2.3)."""
from __future__ import annotations

import ast


class Contract:
    def __init__(self, key, requires=(), ensures=(), yields=(), raises=None, raises_iff=(), loops=None,
                 props=(), inherits=None, unfold=(), lemmas=(), note="", trusted=False, decreases=None, abstract=False, defines=(), heavy=False, hide=(), depth=0, mutates=None, raises_ensures=(), comps=None, fn_vars=None, aliases=None, dispatch=None, open_goal=False):
        self.key = key  # "module:Class.method"
        self.requires = list(requires)
        self.ensures = list(ensures)
        self.yields = list(yields)
        self.raises = None if raises is None else list(raises)  # exception classes allowed to escape (None: inherit)
        self.raises_iff = list(raises_iff)  # (ExcClass, "condition over entry values")
        self.loops = dict(loops or {})  # ordinal -> list of invariant clauses
        self.props = list(props)  # property ids this contract carries
        self.inherits = inherits
        self.unfold = list(unfold)
        self.hide = list(hide)  # non-recursive spec functions kept uninterpreted for this contract (opaque / reveal)
        self.lemmas = list(lemmas)
        self.mutates = dict(mutates or {})  # parameter -> class: object updated in place; ensures speak of `p` (exit) and `p0` (entry)
        self.raises_ensures = list(raises_ensures)  # clauses at exceptional exits, the exception bound to `exc`
        self.open_goal = open_goal  # replace predicate applications in the goal by their bodies before skolemisation
        self.dispatch = dict(dispatch or {})  # source text of a table expression ("self.token_map") -> attribute of the class's __init__ dict literal
        self.aliases = dict(aliases or {})  # local name -> expression it is an alias of (same mutable object): reads go through the expression
        self.fn_vars = dict(fn_vars or {})  # local variable holding a function value -> key of the contract every such value satisfies
        self.comps = dict(comps or {})  # ordinal of a comprehension -> spec expression G(target) its element equals (proved per element)
        self.depth = depth  # levels of definitional unfolding per saturation round (0: engine default)
        self.note = note
        self.trusted = trusted  # assumed, not verified (listed in trusted_base)
        self.decreases = decreases
        self.defines = list(defines)  # naming clauses `result == f(args)`: assumed at call sites, not checked (see note)
        self.heavy = heavy  # attempted in the thorough tier only (does not discharge within the quick budget)
        self.abstract = abstract  # abstract method: no body; every override is verified against it

    def parsed(self, clause: str) -> ast.expr:
        return ast.parse(clause.strip(), mode="eval").body


REGISTRY: dict[str, Contract] = {}


def contract(key, **kw):
    c = Contract(key, **kw)
    REGISTRY[key] = c
    return c


def resolve_inheritance():
    for c in REGISTRY.values():
        seen = set()
        base = c.inherits
        while base and base not in seen:
            seen.add(base)
            b = REGISTRY[base]
            c.requires = c.requires + [x for x in b.requires if x not in c.requires]
            c.ensures = c.ensures + [x for x in b.ensures if x not in c.ensures]
            c.yields = c.yields + [x for x in b.yields if x not in c.yields]
            if c.raises is None and b.raises is not None:
                c.raises = list(b.raises)
            base = b.inherits
    for c in REGISTRY.values():
        if c.raises is None:
            c.raises = []
