"""Calls: builtin table (A5), spec primitives, modular calls through contracts, constructors."""
from __future__ import annotations

import ast

import z3

from .contracts import REGISTRY
from .core import State, fresh_name
from .expr import KIND_OF_TYPE, OK, RAISE, ExprMixin, Rec, _mentions
from .universe import LISTLIKE, SINGLETONS
from .vals import BM, Builtin, Cls, Fn, It, Mod, Mt, PyMap, Star, SuperProxy, T, Tup, Unsupported

SPEC_PRIMS = {
    "is_none", "is_bool", "is_int", "is_float", "is_num", "is_str", "is_arr", "is_obj", "is_nothing", "is_nodelist",
    "is_tuple", "is_pattern", "is_container", "nvals", "prog_len", "prog_at", "is_gen", "is_slice", "is_enum", "is_exc", "is_userfunc", "Node", "NodeList", "Ctx", "nkeys", "key_at", "val_at", "has_key",
    "get", "num", "seq", "pending", "implies", "iff", "old", "raised", "exc_is", "same", "slice_of", "int_of", "str_of",
    "codepoint", "char", "ucall", "regex_fullmatch", "regex_search", "iregexp_ok", "str_count", "str_rfind", "int_str", "int_text_ok", "exc_message", "utf8",
    "canonical", "is_hexdigit_code", "finditer_outcome", "compile_outcome", "is_pynum", "is_pylist", "is_pyobject", "obj_eq", "slice_parts", "py_equal", "float_of", "truthy", "mk_list", "mk_tuple", "enum_ord", "func_id",
}


class CallMixin(ExprMixin):
    spec_prims = SPEC_PRIMS

    # ------------------------------------------------------------------
    def ev_Call(self, node, st):
        def k_func(f, s):
            def k_args(avals, s2):
                kwnodes = [kw for kw in node.keywords]
                if any(kw.arg is None for kw in kwnodes):
                    raise Unsupported("**kwargs call")

                def k_kw(kvals, s3):
                    kwargs = {kw.arg: v for kw, v in zip(kwnodes, kvals)}
                    return self.call(f, avals, kwargs, s3, node)

                return self.ev_seq([kw.value for kw in kwnodes], s2, k_kw)

            # special forms that must see syntax
            if isinstance(f, Builtin) and f.name in ("all", "any") and len(node.args) == 1 and isinstance(node.args[0], ast.GeneratorExp):
                return self.quantifier(f.name, node.args[0], s)
            return self.ev_seq(node.args, s, k_args)

        cc = self.cur_contract
        if (st.mode == "code" and cc is not None and getattr(cc, "dispatch", None) and isinstance(node.func, ast.Subscript)
                and ast.unparse(node.func.value) in cc.dispatch and not node.keywords and self.fn_key_inner is None):
            return self.table_dispatch(node, cc.dispatch[ast.unparse(node.func.value)], st)
        return self.bind(self.ev(node.func, st), k_func)

    def init_table(self, cls, attr):
        """[(key expression, method name)] of the dict literal `self.<attr> = {K: self.m, ...}` in cls.__init__ (the table is
        assigned once there and nowhere else: pyvc/parseframe.py checks that on the AST)"""
        ci = self.U.src.classes[cls]
        init = ci.methods.get("__init__")
        for n in ast.walk(init):
            tg = None
            if isinstance(n, ast.Assign) and len(n.targets) == 1:
                tg, val = n.targets[0], n.value
            elif isinstance(n, ast.AnnAssign) and n.value is not None:
                tg, val = n.target, n.value
            if tg is not None and isinstance(tg, ast.Attribute) and isinstance(tg.value, ast.Name) and tg.value.id == "self" and tg.attr == attr:
                if not isinstance(val, ast.Dict):
                    raise Unsupported(f"table {attr} is not a dict literal")
                out = []
                for k, v in zip(val.keys, val.values):
                    if not (isinstance(v, ast.Attribute) and isinstance(v.value, ast.Name) and v.value.id == "self"):
                        raise Unsupported(f"table {attr}: value is not a bound method of self")
                    out.append((k, v.attr))
                return out
        raise Unsupported(f"no table {attr} in {cls}.__init__")

    def table_dispatch(self, node, attr, st):
        """self.table[key](args): one path per entry the key can equal (the method of that entry is called through its own
        contract), and the KeyError path"""
        table = self.init_table(self.cur_class, attr)
        recv = st.env.get("self")

        def k_key(key, s):
            def k_args(avals, s2):
                kt = self.box(key)
                out = []
                rest = s2
                for kexpr, mname in table:
                    kv = self.box(self.const_eval(kexpr, self.cur_module))
                    hit = rest.fork(kt == kv)
                    if self.feasible(hit):
                        out.extend(self.call_method(BM(recv, mname), avals, {}, hit, node))
                    rest = rest.fork(kt != kv)
                if self.feasible(rest):
                    out.extend(self.raise_(rest, "KeyError"))
                return out

            return self.ev_seq(node.args, s, k_args)

        return self.bind(self.ev(node.func.slice, st), k_key)

    def expand_stars(self, args):
        out = []
        for a in args:
            if isinstance(a, Star):
                v = a.val
                if isinstance(v, Tup):
                    out.extend(v.items)
                else:
                    out.append(a)
            else:
                out.append(a)
        return out

    def call(self, f, args, kwargs, st, node=None):
        args = self.expand_stars(args)
        cc = self.cur_contract
        if (node is not None and cc is not None and isinstance(getattr(node, "func", None), ast.Name)
                and node.func.id in getattr(cc, "fn_vars", {}) and st.mode == "code" and node.func.id in st.env):
            # a call through a variable that holds one of a family of functions sharing one contract
            return self.call_contract(cc.fn_vars[node.func.id], None, args, kwargs, st)
        if isinstance(f, Builtin):
            if f.name.startswith("prim:"):
                return self.ok(self.prim(f.name[5:], args, st), st)
            if f.name.startswith("spec:"):
                return self.ok(self.speclib.apply(f.name[5:], args), st)
            m = getattr(self, "bi_" + f.name.replace(".", "_"), None)
            if m is None:
                raise Unsupported(f"builtin {f.name}")
            return m(args, kwargs, st)
        if isinstance(f, Cls):
            return self.construct(f.name, args, kwargs, st)
        if isinstance(f, Fn):
            return self.call_contract(f.key, None, args, kwargs, st)
        if isinstance(f, BM):
            return self.call_method(f, args, kwargs, st, node)
        if isinstance(f, T) and f.kind == "V":
            # calling a value: filter functions (FilterFunction.__call__)
            return self.call_method(BM(f, "__call__"), args, kwargs, st, node)
        raise Unsupported(f"call of {f}")

    # ---------------- quantifiers (contracts/specs) -----------------
    def quantifier(self, which, gen, st):
        if st.mode != "spec":
            return self.code_all_any(which, gen, st)
        if len(gen.generators) == 1 and not gen.generators[0].ifs:
            g0 = gen.generators[0]
            it0 = self.as_iterable(self.ev1(g0.iter, st), st)
            if it0.kind == "seq":
                parts = self.concat_parts(it0.parts[0])
                if len(parts) > 1 or (parts and parts[0][0] == "unit") or not parts:
                    # all/any over a concatenation == conjunction/disjunction over its parts; unit parts
                    # need no quantifier (keeps `forall n in out ++ [x]` obligations first-order trivial)
                    terms = []
                    for kind, t in parts:
                        if kind == "unit":
                            s1 = self.bind_target(g0.target, T("V", t), st.fork())
                            terms.append(self.truthy(self.ev1(gen.elt, s1)))
                        else:
                            terms.append(self.quant_over_seq(which, g0, gen.elt, t, st))
                    if which == "all":
                        return self.ok(self.bool_(z3.And(*terms) if terms else z3.BoolVal(True)), st)
                    return self.ok(self.bool_(z3.Or(*terms) if terms else z3.BoolVal(False)), st)
        js, rngs, pats = [], [], []
        s2 = st.fork()
        self._qdepth = getattr(self, "_qdepth", 0) + 1
        try:
            return self._quantifier_body(which, gen, st, s2, js, rngs, pats)
        finally:
            self._qdepth -= 1

    def _quantifier_body(self, which, gen, st, s2, js, rngs, pats):
        for gi, g in enumerate(gen.generators):
            # bound variables get deterministic names (by nesting depth and position): equal quantified
            # formulas are then identical terms, so repeated unfoldings do not pile up copies
            j = z3.Int(f"q!{self._qdepth}.{gi}")
            itv = self.ev1(g.iter, s2)
            it = self.as_iterable(itv, s2)
            n = self.it_len(it)
            s2 = self.bind_target(g.target, self.it_elem(it, j), s2)
            conds = [self.truthy(self.ev1(c, s2)) for c in g.ifs]
            rngs.append(z3.And(j >= 0, j < n, *conds))
            js.append(j)
            if it.kind == "seq":
                pats.append(it.parts[0][j])
        body = self.truthy(self.ev1(gen.elt, s2))
        rng = z3.And(*rngs)
        if which == "all":
            q = self.forall(js, z3.Implies(rng, body), [z3.MultiPattern(*pats)] if len(pats) == len(js) and len(js) > 1 else (pats if len(js) == 1 else None))
        else:
            q = z3.Exists(js, z3.And(rng, body))
        return self.ok(self.bool_(q), st)

    def concat_parts(self, seq):
        """flatten a Seq term into [("unit", elem) | ("seq", term)]"""
        out = []

        def walk(t):
            if z3.is_app(t):
                k = t.decl().kind()
                if k == z3.Z3_OP_SEQ_CONCAT:
                    for ch in t.children():
                        walk(ch)
                    return
                if k == z3.Z3_OP_SEQ_UNIT:
                    out.append(("unit", t.arg(0)))
                    return
                if k == z3.Z3_OP_SEQ_EMPTY:
                    return
            out.append(("seq", t))

        walk(seq)
        return out

    def quant_over_seq(self, which, g, elt, seqterm, st):
        self._qdepth = getattr(self, "_qdepth", 0) + 1
        try:
            return self._quant_over_seq(which, g, elt, seqterm, st)
        finally:
            self._qdepth -= 1

    def _quant_over_seq(self, which, g, elt, seqterm, st):
        j = z3.Int(f"qs!{self._qdepth}")
        s2 = self.bind_target(g.target, T("V", seqterm[j]), st.fork())
        body = self.truthy(self.ev1(elt, s2))
        rng = z3.And(j >= 0, j < z3.Length(seqterm))
        if which == "all":
            return self.forall([j], z3.Implies(rng, body), [seqterm[j]])
        return z3.Exists([j], z3.And(rng, body))

    def code_all_any(self, which, gen, st):
        """all(f(x) for x in S) executed by the code: element evaluated for an arbitrary index"""
        if len(gen.generators) != 1 or gen.generators[0].ifs:
            raise Unsupported("all/any shape")
        g = gen.generators[0]

        def k(itv, s):
            it = self.as_iterable(itv, s)
            n = self.it_len(it)
            j = z3.Int(fresh_name("aj"))
            s_el = self.bind_target(g.target, self.it_elem(it, j), s.fork(j >= 0, j < n))
            res = self.ev(gen.elt, s_el)
            oks = [(v, s2) for tag, v, s2 in res if tag == OK]
            if len(oks) != 1 or len(res) != 1 or len(oks[0][1].pc) != len(s_el.pc):
                raise Unsupported("all/any element forks or raises")
            body = self.truthy(oks[0][0])
            jj = z3.Int(fresh_name("aq"))
            b2 = z3.substitute(body, (j, jj))
            rng = z3.And(jj >= 0, jj < n)
            q = z3.ForAll([jj], z3.Implies(rng, b2)) if which == "all" else z3.Exists([jj], z3.And(rng, b2))
            return self.ok(self.bool_(q), s)

        return self.bind(self.ev(g.iter, st), k)

    # ---------------- iterables -----------------
    def as_iterable(self, v, st) -> It:
        U = self.U
        if isinstance(v, It):
            return v
        if isinstance(v, Tup):
            return It("pytuple", [v])
        if isinstance(v, T) and v.kind in ("list", "tuple", "nodelist"):
            return It("seq", [v.t])
        if isinstance(v, T) and v.kind == "str":
            return It("str", [v.t])
        if isinstance(v, T) and v.kind == "V":
            t = v.t
            ts = z3.simplify(t)
            if z3.is_app(ts) and ts.decl().name() == "VGen":
                return It("gen", [t], pending=U.acc("gexc", t))
            if self.known_con(t) == "VStr" or (st.mode == "code" and not self.feasible(st, z3.Not(U.is_("VStr", t)))):
                return It("str", [U.acc("s", t)])  # a str known from the path condition: its characters
            # list / nodelist / tuple / generator decided by the path condition
            if st.mode == "code":
                if not self.feasible(st, z3.Not(U.is_("VGen", t))):
                    return It("gen", [t], pending=U.acc("gexc", t))
                if self.feasible(st, U.is_("VGen", t)):
                    # may be either: a generic iterable whose pending exception is VNone for sequences
                    self.oblige(st, "safety:iter", self.is_kind(v, ["VList", "VNodeList", "VTuple", "VGen"]))
                    return It("seq", [self.seq_term(v)], pending=z3.If(U.is_("VGen", t), U.acc("gexc", t), U.none))
                self.oblige(st, "safety:iter", self.is_kind(v, ["VList", "VNodeList", "VTuple"]))
            return It("seq", [self.seq_term(v)])
        raise Unsupported(f"iteration over {v}")

    def it_len(self, it: It):
        k = it.kind
        if k in ("seq", "gen"):
            return z3.Length(it.parts[0] if k == "seq" else self.U.acc("gseq", it.parts[0]))
        if k == "str":
            return z3.Length(it.parts[0])
        if k == "pytuple":
            return z3.IntVal(len(it.parts[0].items))
        if k == "items":
            return z3.Length(self.U.acc("keys", it.parts[0]))
        if k == "enumerate":
            return self.it_len(it.parts[0])
        if k == "zip":
            a, b = self.it_len(it.parts[0]), self.it_len(it.parts[1])
            return z3.If(a <= b, a, b)
        if k == "range":
            lo, hi, stp = it.parts
            return self.range_len(lo, hi, stp)
        raise Unsupported("length of iterable " + k)

    def it_elem(self, it: It, j):
        U = self.U
        k = it.kind
        if k == "seq":
            return T("V", it.parts[0][j])
        if k == "gen":
            return T("V", U.acc("gseq", it.parts[0])[j])
        if k == "str":
            return T("str", z3.SubString(it.parts[0], j, 1))
        if k == "pytuple":
            items = it.parts[0].items
            js = z3.simplify(j)
            if z3.is_int_value(js):
                return items[js.as_long()]
            term = self.box(items[-1])
            for idx in range(len(items) - 2, -1, -1):
                term = z3.If(j == idx, self.box(items[idx]), term)
            return T("V", term)
        if k == "items":
            d = it.parts[0]
            return Tup([T("str", U.acc("keys", d)[j]), T("V", U.acc("vals", d)[j])])
        if k == "enumerate":
            return Tup([self.int_(j), self.it_elem(it.parts[0], j)])
        if k == "zip":
            return Tup([self.it_elem(it.parts[0], j), self.it_elem(it.parts[1], j)])
        if k == "range":
            lo, hi, stp = it.parts
            return self.int_(self.prog_at(lo, stp, j))
        raise Unsupported("element of iterable " + k)

    def it_pending(self, it: It):
        """V term of the exception raised when the iterable is exhausted, or None"""
        if it.pending is not None:
            return it.pending
        if it.kind in ("enumerate",):
            return self.it_pending(it.parts[0])
        return None

    def it_to_seq(self, it: It):
        """materialise an abstract iterable as a Seq V term"""
        if it.kind == "seq":
            return it.parts[0]
        if it.kind == "gen":
            return self.U.acc("gseq", it.parts[0])
        if it.kind == "pytuple":
            return self.seq_of_terms([self.box(x) for x in it.parts[0].items])
        n = self.it_len(it)
        r = z3.Const(fresh_name("mat"), self.U.SeqV)
        j = z3.Int("mj!")
        self.axioms.append(z3.Length(r) == n)
        self.axioms.append(self.forall([j], z3.Implies(z3.And(0 <= j, j < n), r[j] == self.box(self.it_elem(it, j))), [r[j]]))
        return r

    def consume(self, v, st, kind):
        """list(v) / tuple(v) / JSONPathNodeList(v): raises the iterable's pending exception"""
        it = self.as_iterable(v, st)
        seq = self.it_to_seq(it)
        res = T(kind, seq)
        p = self.it_pending(it)
        if p is None or st.mode == "spec":
            return self.ok(res, st)
        return self.split(st, self.U.is_("VNone", p), lambda a: self.ok(res, a), lambda b: [(RAISE, p, b)])

    # ---------------- builtins -----------------
    def bi_len(self, args, kw, st):
        U = self.U
        (x,) = args
        if isinstance(x, Tup):
            return self.ok(self.int_(len(x.items)), st)
        if isinstance(x, T) and x.kind in ("list", "tuple", "nodelist", "str"):
            return self.ok(self.int_(z3.Length(x.t)), st)
        if isinstance(x, T) and x.kind == "V":
            t = x.t
            kc = self.known_con(t)
            if kc in ("VList", "VNodeList", "VTuple"):
                return self.ok(self.int_(z3.Length(self.seq_term(x))), st)
            if kc == "VStr":
                return self.ok(self.int_(z3.Length(U.acc("s", t))), st)
            if kc == "VDict":
                return self.ok(self.int_(z3.Length(U.acc("keys", t))), st)
            n = z3.If(U.is_("VStr", t), z3.Length(U.acc("s", t)), z3.If(U.is_("VDict", t), z3.Length(U.acc("keys", t)), z3.Length(self.seq_term(x))))
            if st.mode == "spec":
                return self.ok(self.int_(n), st)
            sized = self.is_kind(x, ["VStr", "VDict", "VList", "VNodeList", "VTuple"])
            return self.split(st, sized, lambda a: self.ok(self.int_(n), a), lambda b: self.raise_(b, "TypeError"))
        if st.mode == "code":
            return self.raise_(st, "TypeError")
        raise Unsupported("len of " + str(x))

    def bi_abs(self, args, kw, st):
        (x,) = args
        if st.mode == "code":
            self.oblige(st, "safety:abs", self.is_intlike(x))
        t = self.int_term(x)
        return self.ok(self.int_(z3.If(t < 0, -t, t)), st)

    def bi_min(self, args, kw, st):
        a, b = (self.int_term(x) for x in args)
        return self.ok(self.int_(z3.If(a <= b, a, b)), st)

    def bi_max(self, args, kw, st):
        a, b = (self.int_term(x) for x in args)
        return self.ok(self.int_(z3.If(a >= b, a, b)), st)

    def bi_bool(self, args, kw, st):
        return self.ok(self.bool_(self.truthy(args[0])), st)

    def isinstance_term(self, x, c):
        U = self.U
        if isinstance(c, Tup):
            return z3.Or(*[self.isinstance_term(x, y) for y in c.items])
        if not isinstance(c, Cls):
            raise Unsupported("isinstance class operand")
        n = c.name
        if n in KIND_OF_TYPE:
            return self.is_kind(x, KIND_OF_TYPE[n])
        if n == "object":
            return z3.BoolVal(True)
        if n in LISTLIKE:
            return self.is_kind(x, ["VNodeList"])
        if n in SINGLETONS:
            return self.is_kind(x, [SINGLETONS[n]])
        if isinstance(x, Rec):
            return z3.BoolVal(n in U.src.mro(x.cls))
        if not (isinstance(x, T) and x.kind == "V"):
            return z3.BoolVal(False)
        if (z3.is_app(x.t) and x.t.decl().kind() == z3.Z3_OP_DT_CONSTRUCTOR and x.t.decl().name().startswith("C_")
                and n in U.src.classes and not U.src.classes[n].is_enum and n not in U.exc_id):
            return z3.BoolVal(n in U.src.mro(x.t.decl().name()[2:]))  # an explicitly constructed object: its class is known
        if n in U.exc_id:
            return U.isinstance_exc(x.t, n)
        if n in U.src.classes and U.src.classes[n].is_enum:
            return z3.And(U.is_("VEnum", x.t), U.acc("ecls", x.t) == U.enum_id[n])
        return U.isinstance_obj(x.t, n)

    def bi_isinstance(self, args, kw, st):
        x, c = args
        return self.ok(self.bool_(self.isinstance_term(x, c)), st)

    def bi_iter(self, args, kw, st):
        return self.ok(self.as_iterable(args[0], st), st)

    def bi_next(self, args, kw, st):
        a0 = args[0]
        cls = a0.cls if isinstance(a0, Rec) else None
        if cls is not None:
            # next(obj) on an object updated in place: its __next__, through that method's contract
            mcls, fn = self.U.src.find_method(cls, "__next__")
            key = f"{self.U.src.classes[mcls].module}:{mcls}.__next__" if fn is not None else None
            if key in REGISTRY:
                return self.call_contract(key, a0, [], {}, st)
            raise Unsupported("next() of an object without a __next__ contract")
        it = self.as_iterable(args[0], st)
        n = self.it_len(it)
        p = self.it_pending(it)

        def empty(b):
            if p is None:
                return self.raise_(b, "StopIteration")
            return self.split(b, self.U.is_("VNone", p), lambda c: self.raise_(c, "StopIteration"), lambda d: [(RAISE, p, d)])

        return self.split(st, n > 0, lambda a: self.ok(self.it_elem(it, z3.IntVal(0)), a), empty)

    def bi_enumerate(self, args, kw, st):
        it = self.as_iterable(args[0], st)
        return self.ok(It("enumerate", [it], pending=self.it_pending(it)), st)

    def bi_zip(self, args, kw, st):
        a, b = (self.as_iterable(x, st) for x in args)
        return self.ok(It("zip", [a, b]), st)

    def bi_range(self, args, kw, st):
        xs = [self.int_term(a) for a in args]
        if len(xs) == 1:
            lo, hi, stp = z3.IntVal(0), xs[0], z3.IntVal(1)
        elif len(xs) == 2:
            lo, hi, stp = xs[0], xs[1], z3.IntVal(1)
        else:
            lo, hi, stp = xs
            if st.mode == "code":
                self.oblige(st, "safety:range-step", stp != 0)
        return self.ok(It("range", [lo, hi, stp]), st)

    def bi_list(self, args, kw, st):
        if not args:
            return self.ok(T("list", z3.Empty(self.U.SeqV)), st)
        return self.consume(args[0], st, "list")

    def bi_tuple(self, args, kw, st):
        if not args:
            return self.ok(Tup([]), st)
        return self.consume(args[0], st, "tuple")

    def bi_str(self, args, kw, st):
        (x,) = args
        if isinstance(x, T) and x.kind == "str":
            return self.ok(x, st)
        if isinstance(x, T) and x.kind in ("int",):
            return self.ok(T("str", z3.IntToStr(x.t) if False else self.uf("int_str", z3.IntSort(), z3.StringSort())(x.t)), st)
        f = self.uf("py_str", self.V, z3.StringSort())
        return self.ok(T("str", f(self.box(x))), st)

    def bi_repr(self, args, kw, st):
        f = self.uf("py_repr", self.V, z3.StringSort())
        return self.ok(T("str", f(self.box(args[0]))), st)

    def bi_slice(self, args, kw, st):
        a = [self.box(x) for x in args]
        if len(a) == 1:
            a = [self.U.none, a[0], self.U.none]
        elif len(a) == 2:
            a = a + [self.U.none]
        return self.ok(T("V", self.U.con("VSlice", *a)), st)

    def bi_super(self, args, kw, st):
        return self.ok(SuperProxy(st.env["self"], self.cur_class), st)

    def bi_ord(self, args, kw, st):
        (x,) = args
        s = self.str_term(x)
        if st.mode == "code":
            self.oblige(st, "safety:ord", z3.And(self.is_kind(x, ["VStr"]), z3.Length(s) == 1))
        return self.ok(self.int_(z3.StrToCode(s)), st)

    def bi_chr(self, args, kw, st):
        (x,) = args
        i = self.int_term(x)
        if st.mode == "code":
            return self.split(st, z3.And(i >= 0, i <= 0x10FFFF), lambda a: self.ok(T("str", self.uf("py_chr", z3.IntSort(), z3.StringSort())(i)), a), lambda b: self.raise_(b, "ValueError"))
        return self.ok(T("str", self.uf("py_chr", z3.IntSort(), z3.StringSort())(i)), st)

    def bi_random_shuffle(self, args, kw, st):
        raise Unsupported("random.shuffle outside statement position")

    # ---------------- spec primitives -----------------
    def prim(self, name, args, st):
        U = self.U
        B = self.bool_
        a = args

        def box(i=0):
            return self.box(a[i])

        if name == "is_none":
            return B(self.is_kind(a[0], ["VNone"]))
        if name == "is_bool":
            return B(self.is_kind(a[0], ["VBool"]))
        if name == "is_int":
            return B(self.is_kind(a[0], ["VInt"]))
        if name == "is_float":
            return B(self.is_kind(a[0], ["VFloat"]))
        if name == "is_num":
            return B(self.is_kind(a[0], ["VInt", "VFloat"]))
        if name == "is_str":
            return B(self.is_kind(a[0], ["VStr"]))
        if name == "is_arr":
            return B(self.is_kind(a[0], ["VList"]))
        if name == "is_obj":
            return B(self.is_kind(a[0], ["VDict"]))
        if name == "is_container":
            return B(self.is_kind(a[0], ["VDict", "VList"]))
        if name == "is_nothing":
            return B(self.is_kind(a[0], ["VNothing"]))
        if name == "is_nodelist":
            return B(self.is_kind(a[0], ["VNodeList"]))
        if name == "is_pattern":
            return B(self.is_kind(a[0], ["VOpaque"]))
        if name == "is_tuple":
            return B(self.is_kind(a[0], ["VTuple"]))
        if name == "is_gen":
            return B(self.is_kind(a[0], ["VGen"]))
        if name == "is_slice":
            return B(self.is_kind(a[0], ["VSlice"]))
        if name == "is_enum":
            return B(self.is_kind(a[0], ["VEnum"]))
        if name == "is_exc":
            return B(self.is_kind(a[0], ["VExc"]))
        if name == "is_userfunc":
            return B(self.is_kind(a[0], ["VUserFunc"]))
        if name == "Node":
            return T("V", U.con("C_JSONPathNode", box(0), box(1), box(2)))
        if name == "NodeList":
            return T("nodelist", self.seq_term(a[0]))
        if name == "mk_list":
            return T("list", self.seq_term(a[0]))
        if name == "mk_tuple":
            return T("tuple", self.seq_term(a[0]))
        if name == "Ctx":
            return T("V", U.con("C_FilterContext", box(0), box(1), box(2)))
        if name == "nkeys":
            return self.int_(z3.Length(U.acc("keys", box())))
        if name == "prog_at":
            return self.int_(self.prog_at(self.int_term(a[0]), self.int_term(a[1]), self.int_term(a[2])))
        if name == "prog_len":
            return self.int_(self.range_len(self.int_term(a[0]), self.int_term(a[1]), self.int_term(a[2])))
        if name == "nvals":
            return self.int_(z3.Length(U.acc("vals", box())))
        if name == "key_at":
            return T("str", U.acc("keys", box())[self.int_term(a[1])])
        if name == "val_at":
            return T("V", U.acc("vals", box())[self.int_term(a[1])])
        if name == "has_key":
            return B(self.dict_index(box(), self.str_term(a[1])) >= 0)
        if name == "get":
            return T("V", U.acc("vals", box())[self.dict_index(box(), self.str_term(a[1]))])
        if name == "num":
            return T("real", self.real_term(a[0]))
        if name == "int_of":
            return self.int_(self.int_term(a[0]))
        if name == "str_of":
            return T("str", self.str_term(a[0]))
        if name == "float_of":
            return T("real", U.acc("r", box()))
        if name == "seq":
            return T("list", self.seq_term(a[0] if not isinstance(a[0], It) else T("V", self.box(a[0]))))
        if name == "pending":
            return T("V", U.acc("gexc", box()))
        if name == "raised":
            return B(z3.Not(U.is_("VNone", U.acc("gexc", box()))))
        if name == "implies":
            return B(z3.Implies(self.truthy(a[0]), self.truthy(a[1])))
        if name == "iff":
            return B(self.truthy(a[0]) == self.truthy(a[1]))
        if name == "old":
            return a[0]
        if name == "truthy":
            return B(self.truthy(a[0]))
        if name == "same":
            return B(self.struct_eq(a[0], a[1]))
        if name == "exc_is":
            return B(self.isinstance_term(a[0], a[1]))
        if name == "py_equal":
            return B(self.py_eq(a[0], a[1], State(mode="code")))
        if name == "slice_parts":
            s = box()
            return Tup([T("V", U.acc("sstart", s)), T("V", U.acc("sstop", s)), T("V", U.acc("sstep", s))])
        if name == "ucall":
            f = self.uf("ucall", self.V, self.U.SeqV, self.V)
            return T("V", f(box(0), self.seq_term(a[1])))
        if name == "is_pynum":
            return B(self.is_kind(a[0], ["VInt", "VBool", "VFloat"]))
        if name == "is_pylist":
            return B(self.is_kind(a[0], ["VList", "VNodeList"]))
        if name == "is_pyobject":
            return B(z3.Not(self.is_kind(a[0], ["VNone", "VBool", "VInt", "VFloat", "VStr", "VList", "VDict", "VTuple", "VNothing", "VNodeList", "VEnum"])))
        if name == "obj_eq":
            # objects without __eq__ compare by identity, which the value model does not track: unconstrained
            return B(self.uf("obj_eq", self.V, self.V, z3.BoolSort())(box(0), box(1)))
        if name == "compile_outcome":
            return T("V", self.uf("compile_outcome", self.V, self.V, self.V)(box(0), box(1)))
        if name == "finditer_outcome":
            return T("V", self.uf("finditer_outcome", self.V, self.V, self.V)(box(0), box(1)))
        if name == "func_id":
            return self.int_(U.acc("fid", box()))
        if name in ("regex_fullmatch", "regex_search"):
            # spec side of match()/search(): the same uninterpreted pieces as the model of the regex engine
            # (calls._regex_call) -- a non-string subject or an uncompilable translation gives False
            mp = self.str_term(self.speclib.apply("mapped_pattern", [T("str", self.str_term(a[0]))]))
            raw = self.uf("regex_raw_" + name[6:], z3.StringSort(), z3.StringSort(), z3.BoolSort())
            subj = box(1)
            return B(z3.And(U.is_("VStr", subj), self.uf("regex_compilable", z3.StringSort(), z3.BoolSort())(mp), raw(mp, U.acc("s", subj))))
        if name == "iregexp_ok":
            return B(self.uf("iregexp_ok", z3.StringSort(), z3.BoolSort())(self.str_term(a[0])))
        if name == "str_count":
            f = self.uf("str_count", z3.StringSort(), z3.StringSort(), z3.IntSort(), z3.IntSort(), z3.IntSort())
            return self.int_(f(self.str_term(a[0]), self.str_term(a[1]), self.int_term(a[2]), self.int_term(a[3])))
        if name == "str_rfind":
            f = self.uf("str_rfind", z3.StringSort(), z3.StringSort(), z3.IntSort(), z3.IntSort(), z3.IntSort())
            return self.int_(f(self.str_term(a[0]), self.str_term(a[1]), self.int_term(a[2]), self.int_term(a[3])))
        if name == "int_text_ok":
            return B(self.uf("py_int_ok", self.V, z3.BoolSort())(U.con("VStr", self.str_term(a[0]))))
        if name == "utf8":
            return T("list", self.utf8_bytes(self.str_term(a[0])))
        if name == "exc_message":
            return T("str", self.uf("exc_message", self.V, z3.StringSort())(box()))
        if name == "int_str":
            return T("str", self.uf("int_str", z3.IntSort(), z3.StringSort())(self.int_term(a[0])))
        if name == "canonical":
            return T("str", self.uf("canonical_string", z3.StringSort(), z3.StringSort())(self.str_term(a[0])))
        if name == "codepoint":
            return self.int_(z3.StrToCode(self.str_term(a[0])))
        if name == "char":
            return T("str", self.uf("py_chr", z3.IntSort(), z3.StringSort())(self.int_term(a[0])))
        if name == "enum_ord":
            return self.int_(U.acc("eord", box()))
        raise Unsupported("spec primitive " + name)

    # ---------------- constructors -----------------
    def utf8_bytes(self, s):
        """str.encode(): the UTF-8 code units as a list of ints (uninterpreted; every unit is an int in 0..255)"""
        f = self.uf("utf8_bytes", z3.StringSort(), self.U.SeqV)
        b = f(s)
        j = z3.Int("uj!")
        e = b[j]
        self.axioms.append(z3.ForAll([j], z3.Implies(z3.And(j >= 0, j < z3.Length(b)),
                                                      z3.And(self.U.is_("VInt", e), self.U.acc("i", e) >= 0, self.U.acc("i", e) <= 255))))
        return b

    # ---- third-party regular expressions (assumed contracts of `iregexp_check` and `regex`) ----
    def bi_iregexp_check_check(self, args, kwargs, st):
        if st.mode == "code":
            self.oblige(st, "safety:arg:check", self.is_kind(args[0], ["VStr"]), "iregexp_check.check(str)")
        return self.ok(self.bool_(self.uf("iregexp_ok", z3.StringSort(), z3.BoolSort())(self.str_term(args[0]))), st)

    def _regex_call(self, which, args, st):
        """regex.fullmatch / regex.search (pattern, subject): TypeError for a subject that is not a string, regex.error for
        a pattern the engine cannot compile, otherwise a match object or None"""
        U = self.U
        pat, subj = args[0], args[1]
        if st.mode == "code":
            self.oblige(st, f"safety:arg:{which}", self.is_kind(pat, ["VStr"]), "pattern is a str")
        p = self.str_term(pat)
        compilable = self.uf("regex_compilable", z3.StringSort(), z3.BoolSort())(p)
        raw = self.uf("regex_raw_" + which, z3.StringSort(), z3.StringSort(), z3.BoolSort())
        is_s = self.is_kind(subj, ["VStr"])

        def good(s1):
            hit = raw(p, self.str_term(subj))
            return self.ok(Mt(z3.If(hit, z3.IntVal(0), z3.IntVal(-1)), self.str_term(subj), z3.IntVal(0)), s1)

        return self.split(st, is_s,
                          lambda a: self.split(a, compilable, good, lambda b: self.raise_(b, "re.error")),
                          lambda c: self.raise_(c, "TypeError"))

    def bi_re_fullmatch(self, args, kwargs, st):
        return self._regex_call("fullmatch", args, st)

    def bi_re_search(self, args, kwargs, st):
        return self._regex_call("search", args, st)

    def bi_re_compile(self, args, kwargs, st):
        """a compiled pattern is an opaque value determined by its source text"""
        f = self.uf("re_pattern_id", z3.StringSort(), z3.IntSort())
        return self.ok(T("V", self.U.con("VOpaque", f(self.str_term(args[0])))), st)

    def construct(self, cname, args, kwargs, st):
        U = self.U
        src = U.src
        if cname in U.exc_id:
            tok = kwargs.get("token")
            return self.ok(T("V", self.exc_val(cname, self.box(tok) if tok is not None else None)), st)
        if cname in LISTLIKE:
            if not args:
                return self.ok(T("nodelist", z3.Empty(U.SeqV)), st)
            return self.consume(args[0], st, "nodelist")
        if cname in ("list", "tuple", "str", "bool", "slice"):
            return getattr(self, "bi_" + cname)(args, kwargs, st)
        if cname == "float" and len(args) == 1 and not kwargs and st.mode == "code":
            # float(x): over-approximated -- ValueError (text that is not a number), or SOME float determined by the argument
            a0 = args[0]
            if isinstance(a0, T) and a0.kind in ("real", "int"):
                return self.ok(T("real", self.real_term(a0)), st)
            r = self.uf("py_float_of", self.V, z3.RealSort())(self.box(a0))
            okc = self.uf("py_float_ok", self.V, z3.BoolSort())(self.box(a0))  # the same argument behaves the same way twice
            return self.split(st, okc, lambda a: self.ok(T("real", r), a), lambda b: self.raise_(b, "ValueError"))
        if cname == "int" and len(args) == 1 and not kwargs and st.mode == "code":
            # int(x): over-approximated -- OverflowError (infinity), ValueError (nan / bad text), or SOME int determined by the argument
            a0 = args[0]
            if isinstance(a0, T) and a0.kind == "int":
                return self.ok(a0, st)
            r = self.uf("py_int_of", self.V, z3.IntSort())(self.box(a0))
            okc = self.uf("py_int_ok", self.V, z3.BoolSort())(self.box(a0))

            def text(a):
                # int(text): ValueError exactly when the text is not an integer literal (same text, same outcome)
                return self.split(a, okc, lambda a1: self.ok(self.int_(r), a1), lambda b1: self.raise_(b1, "ValueError"))

            def other(b):
                return self.ok(self.int_(r), b) + self.raise_(b, "ValueError") + self.raise_(b, "OverflowError")

            if isinstance(a0, T) and a0.kind == "str":
                return text(st)
            return self.split(st, self.is_kind(a0, ["VStr"]), text, other)
        if cname == "frozenset" and len(args) == 1 and not kwargs:
            # frozenset([c1, c2, ...]) of an explicit list: used for membership tests only -- kept as the tuple of its items
            a0 = args[0]
            if isinstance(a0, Tup):
                return self.ok(a0, st)
            if isinstance(a0, T) and a0.kind in ("list", "tuple"):
                parts = self.concat_parts(a0.t)
                if all(kind == "unit" for kind, _ in parts):
                    return self.ok(Tup([T("V", t) for _, t in parts]), st)
        if cname == "deque" and not args and not kwargs:
            # an empty deque, modelled as the empty list (append on the right; the engine knows no other deque operation)
            return self.ok(T("list", z3.Empty(U.SeqV)), st)
        if cname in ("int", "float", "dict", "deque", "set", "frozenset"):
            raise Unsupported(f"constructor {cname}()")
        ci = src.classes.get(cname)
        if ci is None:
            raise Unsupported("constructor of unknown class " + cname)
        if st.mode == "spec":
            # specs build objects positionally in field order
            if len(args) != len(ci.fields) or kwargs:
                raise Unsupported(f"spec constructor {cname} expects {ci.fields}")
            return self.ok(T("V", U.con("C_" + cname, *[self.box(x) for x in args])), st)
        rec = Rec(cname)
        icls, init = src.find_method(cname, "__init__")
        if init is None:
            return self.ok(T("V", self.rec_term(rec)), st)
        ikey = f"{src.classes[icls].module}:{icls}.__init__"
        if ikey in REGISTRY and REGISTRY[ikey].trusted and icls == cname:
            # a constructor outside the subset with an assumed contract: a new unknown instance satisfying its clauses
            c0 = REGISTRY[ikey]
            self.used_contracts.add(ikey)
            obj = z3.Const(fresh_name("new_" + cname), self.V)
            env0 = self.bind_params(init, T("V", obj), args, kwargs, st)
            cs = State(env0, st.pc, None, "spec", None, dict(st.ghost))
            save_mod = self.cur_module
            self.cur_module = src.classes[icls].module
            try:
                for idx, cl in enumerate(c0.requires):
                    goal = self.truthy(self.ev1(c0.parsed(cl), State({k: v for k, v in env0.items() if k != "self"}, st.pc, None, "spec", None, dict(st.ghost))))
                    self.oblige(st, f"pre@call:{cname}.__init__#{idx}", goal, cl)
                facts = [self.isinstance_term(T("V", obj), Cls(cname))] + [self.truthy(self.ev1(c0.parsed(cl), cs)) for cl in c0.ensures]
            finally:
                self.cur_module = save_mod
            out = self.ok(T("V", obj), self.assume(st, facts))
            for a in (c0.raises or []):
                e = z3.Const(fresh_name("exc"), self.V)
                out.append((RAISE, e, st.fork(U.isinstance_exc(e, a))))
            return out
        res = self.inline_init(icls, init, rec, args, kwargs, st)
        return self.bind(res, lambda _, s: self.ok(T("V", self.rec_term(rec_final(s))), s))

    def rec_term(self, rec: Rec):
        U = self.U
        ci = U.src.classes[rec.cls]
        vals = []
        for f in ci.fields:
            if f in rec.fields:
                vals.append(self.box(rec.fields[f]))
            else:
                c = None
                from .universe import CONFIGURABLE

                vals.append(z3.Const(fresh_name(f"{rec.cls}.{f}"), self.V))
        return U.con("C_" + rec.cls, *vals)

    def propagate_frame(self, st, mut, spec_env, facts):
        """a callee clause `obj.f == obj0.f` (field unchanged) lets the caller's record keep the very term it had for f,
        instead of the accessor on the unknown new object: facts about that field then need no congruence step"""
        if not mut:
            return st
        conj = []
        stack = list(facts)
        while stack:
            f = stack.pop()
            if z3.is_and(f):
                stack.extend(f.children())
            elif z3.is_eq(f):
                conj.append(f)
        s2 = None
        for name, cls in mut.items():
            m = spec_env.get(name)
            if not (isinstance(m, T) and m.kind == "V"):
                continue
            for var, val in list(st.env.items()):
                if not (isinstance(val, Rec) and val.cls == cls):
                    continue
                for fld, fv in list(val.fields.items()):
                    if not (isinstance(fv, T) and fv.kind == "V" and z3.is_app(fv.t) and fv.t.decl().kind() == z3.Z3_OP_DT_ACCESSOR
                            and fv.t.arg(0).eq(m.t)):
                        continue
                    for e in conj:
                        a, b = e.arg(0), e.arg(1)
                        other = b if a.eq(fv.t) else a if b.eq(fv.t) else None
                        if other is not None and not _mentions(other, m.t):
                            if s2 is None:
                                s2 = st.fork()
                            nr = Rec(val.cls)
                            nr.fields = dict(s2.env[var].fields)
                            nr.fields[fld] = T("V", other)
                            s2.env[var] = nr
                            break
        return s2 if s2 is not None else st

    def rec_of(self, cls, t):
        """record of the fields of object t (an instance of cls), for in-place updates"""
        U = self.U
        r = Rec(cls)
        for f in U.src.classes[cls].fields:
            r.fields[f] = T("V", U.acc(f"{cls}__{f}", t))
        return r

    def inline_init(self, icls, init, rec, args, kwargs, st):
        """Execute a package __init__ symbolically on an object under construction (constructors are
        small; inlining them is exact). Returns results whose state carries the record in ghost['rec']."""
        env = self.bind_params(init, rec, args, kwargs, st)
        save = (self.cur_class, self.cur_module, self.fn_key_inner)
        self.cur_class = icls
        self.cur_module = self.U.src.classes[icls].module
        sub = State(env, st.pc, st.out, "code", st.handler_exc, dict(st.ghost))
        sub.ghost["rec"] = rec
        try:
            outs = self.exec_block(init.body, sub)
        finally:
            self.cur_class, self.cur_module, self.fn_key_inner = save
        res = []
        for tag, p, s in outs:
            if tag in ("normal", "return"):
                ns = State(dict(st.env), s.pc, s.out, st.mode, st.handler_exc, dict(st.ghost))
                ns.ghost["rec"] = s.env["self"]
                res.append((OK, None, ns))
            elif tag == RAISE:
                ns = State(dict(st.env), s.pc, s.out, st.mode, st.handler_exc, dict(st.ghost))
                res.append((RAISE, p, ns))
            else:
                raise Unsupported("control flow leaving __init__")
        return res

    def bind_params(self, fn: ast.FunctionDef, recv, args, kwargs, st):
        a = fn.args
        env = {}
        pos = [p.arg for p in a.posonlyargs + a.args]
        is_method = recv is not None
        args = list(args)
        if is_method:
            args = [recv] + args
        if any(isinstance(x, Star) for x in args):
            # f(*xs) against `def f(self, *args)`: the sequence itself is the vararg tuple
            fixed = [x for x in args if not isinstance(x, Star)]
            stars = [x for x in args if isinstance(x, Star)]
            if a.vararg and len(stars) == 1 and len(fixed) == len(pos) and isinstance(args[-1], Star):
                for name, val in zip(pos, fixed):
                    env[name] = val
                env[a.vararg.arg] = T("tuple", self.seq_term(stars[0].val))
                for p, d in zip(a.kwonlyargs, a.kw_defaults):
                    if d is not None:
                        env[p.arg] = self.ev1(d, State(mode="spec"))
                return env
            raise Unsupported("star-args of unknown length")
        for name, val in zip(pos, args):
            env[name] = val
        rest = args[len(pos):]
        if a.vararg:
            env[a.vararg.arg] = Tup(rest)
        elif rest:
            raise Unsupported("too many positional arguments")
        defaults = dict(zip(pos[len(pos) - len(a.defaults):], a.defaults))
        for name in pos[len(args):]:
            if name in kwargs:
                env[name] = kwargs[name]
            elif name in defaults:
                env[name] = self.ev1(defaults[name], State(mode="spec"))
            else:
                raise Unsupported(f"missing argument {name}")
        for p, d in zip(a.kwonlyargs, a.kw_defaults):
            if p.arg in kwargs:
                env[p.arg] = kwargs[p.arg]
            elif d is not None:
                env[p.arg] = self.ev1(d, State(mode="spec"))
            else:
                raise Unsupported(f"missing keyword argument {p.arg}")
        for kname in kwargs:
            if kname not in env:
                raise Unsupported(f"unexpected keyword {kname}")
        return env

    # ---------------- methods -----------------
    def call_method(self, bm: BM, args, kwargs, st, node=None):
        U = self.U
        src = U.src
        recv, name = bm.recv, bm.name
        if isinstance(recv, PyMap):
            if name == "get" and len(args) in (1, 2):
                return self.pymap_lookup(recv, args[0], st, (args[1] if len(args) == 2 else T("V", U.none),))
            raise Unsupported(f"method .{name}() on a constant table")
        if isinstance(recv, Mt):
            if name == "group" and not args:
                g = z3.SubString(recv.q, recv.pos, recv.r)
                if st.mode == "code":
                    self.oblige(st, "safety:none:group", recv.r >= 0, "group() of a failed match")
                return self.ok(T("str", g), st.fork(z3.Length(g) == recv.r))
            raise Unsupported(f"method .{name}() on a match object")
        if name == "match" and len(args) == 2 and isinstance(recv, T) and recv.kind == "V" and bm.static_cls is None:
            # compiled regular expression (external: assumed contract of re.Pattern.match, see vals.Mt)
            if st.mode == "code":
                self.oblige(st, "safety:method:match", U.is_("VOpaque", recv.t), "receiver is a compiled pattern")
                self.oblige(st, "safety:arg:match", z3.And(self.is_kind(args[0], ["VStr"]), self.is_kind(args[1], ["VInt"])), "match(str, int)")
            q, pos = self.str_term(args[0]), self.int_term(args[1])
            f = self.uf("re_match_len", self.V, z3.StringSort(), z3.IntSort(), z3.IntSort())
            r = f(recv.t, q, pos)
            n = z3.Length(q)
            cpos = z3.If(pos > n, n, z3.If(pos < 0, z3.IntVal(0), pos))
            self.axioms.append(z3.And(r >= -1, r <= n - cpos))
            return self.ok(Mt(r, q, cpos), st)
        if bm.static_cls is not None:
            # super().m(...)
            mro = src.mro(bm.static_cls)[1:]
            for c in mro:
                ci = src.classes.get(c)
                if ci and name in ci.methods:
                    if name == "__init__" and isinstance(recv, Rec):
                        return self.bind(self.inline_init(c, ci.methods[name], recv, args, kwargs, st), lambda _, s: self.ok(T("V", U.none), self.adopt_rec(s)))
                    return self.call_contract(f"{ci.module}:{c}.{name}", recv, args, kwargs, st)
            if name == "__init__":
                return self.ok(T("V", U.none), st)  # object.__init__ / Exception.__init__
            if name == "__str__" and not args and isinstance(recv, T) and recv.kind == "V":
                # Exception.__str__: the message the exception was built with (not modelled: an uninterpreted string)
                return self.ok(T("str", self.uf("exc_message", self.V, z3.StringSort())(recv.t)), st)
            raise Unsupported(f"super().{name}")
        if isinstance(recv, Rec):
            c, fn = src.find_method(recv.cls, name)
            if fn is None:
                raise Unsupported(f"method {name} on object under construction")
            return self.call_contract(f"{src.classes[c].module}:{c}.{name}", recv, args, kwargs, st)
        if not (isinstance(recv, T) and recv.kind == "V"):
            return self.builtin_method(recv, name, args, kwargs, st)
        t = recv.t
        out = []
        covered = []
        # package classes defining `name`
        defining = [c for c in list(U.obj_classes) + list(LISTLIKE) + list(SINGLETONS) if name in src.classes[c].methods]
        roots = [c for c in defining if not any(d != c and d in src.mro(c) for d in defining)]
        for r in roots:
            cond = self.isinstance_term(recv, Cls(r))
            covered.append(cond)
            possible = st.ghost.get(("in", t.get_id()))
            known_c = st.ghost.get(("is", t.get_id()))
            names_r = {"C_" + c for c in src.subclasses(r)} | ({"VNodeList"} if r in LISTLIKE else set()) | ({SINGLETONS[r]} if r in SINGLETONS else set())
            if (possible and not (possible & names_r)) or (known_c and known_c not in names_r):
                continue  # the receiver's possible classes (known syntactically) exclude this method's classes
            s1 = st.fork(cond)
            if not self.feasible(s1, careful=True):
                continue
            # most specific class with its own registered contract that the path condition pins down
            pick = r
            for c in defining:
                if c != r and r in src.mro(c) and f"{src.classes[c].module}:{c}.{name}" in REGISTRY:
                    if not self.feasible(s1, z3.Not(self.isinstance_term(recv, Cls(c)))):
                        if pick == r or pick in src.mro(c):
                            pick = c
            try:
                out.extend(self.call_contract(f"{src.classes[pick].module}:{pick}.{name}", recv, args, kwargs, s1))
            except Unsupported as why:
                # this receiver class cannot be handled: it must then be impossible here
                self.oblige(st, f"safety:dispatch:{pick}.{name}", z3.Not(cond), f"receiver could be a {pick}: {why}")
        # builtin kinds
        for kinds in self.builtin_method_kinds(name):
            cond = self.is_kind(recv, kinds)
            covered.append(cond)
            s2 = st.fork(cond)
            if self.feasible(s2):
                out.extend(self.builtin_method(recv, name, args, kwargs, s2, kinds))
        rest = st.fork(z3.Not(z3.Or(*covered))) if covered else st
        if self.feasible(rest):
            self.oblige(st, f"safety:method:{name}", z3.Or(*covered) if covered else z3.BoolVal(False), ast.unparse(node) if node is not None else name)
        return out

    def adopt_rec(self, s):
        s2 = s.fork()
        s2.env["self"] = s.ghost["rec"]
        return s2

    def builtin_method_kinds(self, name):
        table = {
            "items": [["VDict"]], "keys": [["VDict"]], "values": [["VDict"]], "get": [["VDict"]],
            "indices": [["VSlice"]], "startswith": [["VStr"]], "replace": [["VStr"]], "count": [["VStr"]], "rfind": [["VStr"]],
            "join": [["VStr"]], "encode": [["VStr"]], "split": [["VStr"]], "lower": [["VStr"]], "strip": [["VStr"]],
        }
        return table.get(name, [])

    def builtin_method(self, recv, name, args, kwargs, st, kinds=None):
        U = self.U
        if isinstance(recv, It) and name == "__next__":
            return self.bi_next([recv], {}, st)
        if name in ("items", "keys", "values") and not args:
            d = self.box(recv)
            if name == "items":
                return self.ok(It("items", [d]), st)
            raise Unsupported("dict." + name)
        if name == "get":
            d = self.box(recv)
            k = args[0]
            if st.mode == "code":
                self.oblige(st, "safety:dictkey", self.is_kind(k, ["VStr"]))
            di = self.dict_index(d, self.str_term(k))
            dflt = self.box(args[1]) if len(args) > 1 else U.none
            return self.ok(T("V", z3.If(di >= 0, U.acc("vals", d)[di], dflt)), st)
        if name == "indices":
            s = self.box(recv)
            n = self.int_term(args[0])
            stepv = U.acc("sstep", s)
            zero = z3.And(U.is_("VInt", stepv), U.acc("i", stepv) == 0)

            def okk(a):
                lo, hi, stp = self.slice_indices(U.acc("sstart", s), U.acc("sstop", s), stepv, n)
                return self.ok(Tup([self.int_(lo), self.int_(hi), self.int_(stp)]), a)

            if st.mode == "spec":
                return okk(st)
            return self.split(st, zero, lambda b: self.raise_(b, "ValueError"), okk)
        if name == "startswith" and len(args) == 2 and not isinstance(args[0], Tup):
            # s.startswith(p, start) == s[start:].startswith(p), start clipped like a slice bound
            s = self.str_term(recv)
            p, i = self.str_term(args[0]), self.int_term(args[1])
            n = z3.Length(s)
            lo = z3.If(i < 0, z3.If(i + n < 0, z3.IntVal(0), i + n), i)
            return self.ok(self.bool_(z3.And(lo <= n, z3.PrefixOf(p, z3.SubString(s, lo, n - lo)))), st)
        if name == "startswith" and len(args) == 1:
            s = self.str_term(recv)
            p = args[0]
            if isinstance(p, Tup):
                return self.ok(self.bool_(z3.Or(*[z3.PrefixOf(self.str_term(x), s) for x in p.items])), st)
            return self.ok(self.bool_(z3.PrefixOf(self.str_term(p), s)), st)
        if name == "count" and len(args) == 3:
            f = self.uf("str_count", z3.StringSort(), z3.StringSort(), z3.IntSort(), z3.IntSort(), z3.IntSort())
            return self.ok(self.int_(f(self.str_term(recv), self.str_term(args[0]), self.int_term(args[1]), self.int_term(args[2]))), st)
        if name == "rfind" and len(args) == 3:
            f = self.uf("str_rfind", z3.StringSort(), z3.StringSort(), z3.IntSort(), z3.IntSort(), z3.IntSort())
            r = f(self.str_term(recv), self.str_term(args[0]), self.int_term(args[1]), self.int_term(args[2]))
            self.axioms.append(z3.And(r >= -1, r < z3.If(self.int_term(args[2]) < 0, z3.IntVal(0), self.int_term(args[2])) + 1))
            return self.ok(self.int_(r), st)
        if name == "join" and len(args) == 1:
            f = self.uf("str_join", z3.StringSort(), self.U.SeqV, z3.StringSort())
            it = self.as_iterable(args[0], st)
            return self.ok(T("str", f(self.str_term(recv), self.it_to_seq(it))), st)
        if name == "replace" and len(args) == 2:
            return self.ok(T("str", self.uf("str_replace_all", z3.StringSort(), z3.StringSort(), z3.StringSort(), z3.StringSort())(self.str_term(recv), self.str_term(args[0]), self.str_term(args[1]))), st)
        if name == "encode" and not args:
            return self.ok(T("list", self.utf8_bytes(self.str_term(recv))), st)
        if name == "lower" and not args:
            return self.ok(T("str", self.uf("str_lower", z3.StringSort(), z3.StringSort())(self.str_term(recv))), st)
        raise Unsupported(f"method .{name}() on builtin value")

    # ---------------- modular call through a contract -----------------
    def call_contract(self, key, recv, args, kwargs, st):
        U = self.U
        src = U.src
        if key not in REGISTRY:
            raise Unsupported(f"no contract for callee {key}")
        c = REGISTRY[key]
        fn = src.functions.get(key)
        if fn is None:
            raise Unsupported(f"callee {key} not found in source")
        self.used_contracts.add(key)
        env = self.bind_params(fn, recv, args, kwargs, st)
        is_gen = bool(c.yields) or any(isinstance(n, (ast.Yield, ast.YieldFrom)) for n in ast.walk(fn))
        cs = State(env, st.pc, None, "spec", None, dict(st.ghost))
        save_mod, save_cls = self.cur_module, self.cur_class
        self.cur_module = key.split(":")[0]
        try:
            if st.mode == "code":
                for idx, cl in enumerate(c.requires):
                    goal = self.truthy(self.ev1(c.parsed(cl), cs))
                    self.oblige(State(st.env, cs.pc, None, "code", None, st.ghost), f"pre@call:{key.split(':')[1]}#{idx}", goal, cl)
                    cs = cs.fork(goal)  # later clauses are read (and checked) under the earlier ones
            if is_gen:
                g = z3.Const(fresh_name("gen"), self.V)
                facts = [U.is_("VGen", g)]
                gexc = U.acc("gexc", g)
                normal = U.is_("VNone", gexc)
                ys = State(dict(env), st.pc, None, "spec", None, dict(st.ghost))
                ys.env["out"] = T("list", U.acc("gseq", g))
                for cl in c.yields:
                    ft = self.truthy(self.ev1(c.parsed(cl), ys))
                    # per-element clauses `all(P(n) for n in out)` are prefix-closed: they also hold for what
                    # was yielded before a raise (A6; verified at normal exits only)
                    facts.append(ft if cl.strip().startswith("all(") else z3.Implies(normal, ft))
                rs_ = State(dict(env), st.pc, None, "spec", None, dict(st.ghost))
                rs_.env["result"] = T("V", g)
                for cl in c.ensures:  # clauses about the generator's outcome as a whole (result = the iterator)
                    facts.append(self.truthy(self.ev1(c.parsed(cl), rs_)))
                allowed = list(c.raises)
                if allowed:
                    facts.append(z3.Or(normal, *[U.isinstance_exc(gexc, a) for a in allowed]))
                else:
                    facts.append(normal)
                for ecls, cond in c.raises_iff:
                    ct = self.truthy(self.ev1(c.parsed(cond), cs))
                    facts.append(U.isinstance_exc(gexc, ecls) == ct)
                s2 = self.assume(st, facts)
                return self.ok(It("gen", [g], pending=gexc), s2)
            # ordinary function
            out = []
            iff_conds = []
            mut = dict(getattr(c, "mutates", None) or {})
            before = {}
            for name in mut:
                b = env.get(name)
                if st.mode == "code" and not isinstance(b, Rec):
                    # a plain object value: allowed when it is what a LOCAL variable of the caller holds (an object the caller
                    # made or received from a constructor function); the variable then continues as a record. Other references
                    # to the same object are not tracked (the frame contracts forbid sharing such objects).
                    holders = [v for v, val in st.env.items() if isinstance(val, T) and val.kind == "V" and isinstance(b, T) and val.t.eq(b.t)]
                    entry = st.ghost.get("entry", {})
                    if not holders or any(h in entry for h in holders):
                        raise Unsupported(f"call of {key} updates {name} in place: the caller must list that object in `mutates`")
                before[name] = b

            def havoc(state, spec_env):
                """after the call the updated objects are new unknown instances (constrained by the callee's clauses);
                every caller variable bound to the old record now denotes the new one"""
                s2 = state
                for name, cls in mut.items():
                    m = z3.Const(fresh_name("upd"), self.V)
                    spec_env[name] = T("V", m)
                    spec_env[name + "0"] = T("V", self.box(before[name]))
                    s2 = s2.fork(self.isinstance_term(T("V", m), Cls(cls)))
                    if isinstance(before[name], Rec):
                        nr = self.rec_of(cls, m)
                        s2 = s2.fork()
                        for var, val in list(s2.env.items()):
                            if val is before[name]:
                                s2.env[var] = nr
                        if s2.ghost.get("rec") is before[name]:
                            s2.ghost["rec"] = nr
                    elif isinstance(before[name], T) and state.mode == "code":
                        nr = self.rec_of(cls, m)
                        s2 = s2.fork()
                        for var, val in list(s2.env.items()):
                            if isinstance(val, T) and val.kind == "V" and val.t.eq(before[name].t):
                                s2.env[var] = nr
                return s2

            for ecls, cond in c.raises_iff:
                iff_conds.append((ecls, self.truthy(self.ev1(c.parsed(cond), cs))))
            ns = st.fork(*[z3.Not(ct) for _, ct in iff_conds])
            if self.feasible(ns):
                spec_env = dict(env)
                ns = havoc(ns, spec_env)
                rs = State(spec_env, ns.pc, None, "spec", None, dict(ns.ghost))
                result = None
                rest = list(c.defines) + list(c.ensures)
                if rest:
                    first = c.parsed(rest[0])
                    if (isinstance(first, ast.Compare) and len(first.ops) == 1 and isinstance(first.ops[0], ast.Eq)
                            and isinstance(first.left, ast.Name) and first.left.id == "result"):
                        result = self.ev1(first.comparators[0], rs)
                        rest = rest[1:]
                if result is None:
                    result = T("V", z3.Const(fresh_name("res"), self.V))
                rs.env["result"] = result
                facts = [self.truthy(self.ev1(c.parsed(cl), rs)) for cl in rest]
                ns = self.propagate_frame(ns, mut, spec_env, facts)
                out.extend(self.ok(result, self.assume(ns, facts)))
            if st.mode == "code":
                def raised(state, e):
                    spec_env = dict(env)
                    s4 = havoc(state, spec_env)
                    spec_env["exc"] = T("V", e)
                    xs = State(spec_env, s4.pc, None, "spec", None, dict(s4.ghost))
                    facts = [self.truthy(self.ev1(c.parsed(cl), xs)) for cl in getattr(c, "raises_ensures", ())]
                    return self.assume(s4, facts) if facts else s4

                for ecls, ct in iff_conds:
                    s3 = st.fork(ct)
                    if self.feasible(s3):
                        e = z3.Const(fresh_name("exc"), self.V)
                        out.append((RAISE, e, raised(s3.fork(U.isinstance_exc(e, ecls)), e)))
                free = [a for a in c.raises if not any(a == e or e in src.mro(a) for e, _ in iff_conds)]
                if free:
                    e = z3.Const(fresh_name("exc"), self.V)
                    out.append((RAISE, e, raised(st.fork(z3.Or(*[U.isinstance_exc(e, a) for a in free])), e)))
            return out
        finally:
            self.cur_module, self.cur_class = save_mod, save_cls


def rec_final(s):
    return s.ghost["rec"]
