"""C19: frame obligations that carry the lexer invariant (contracts/lexer.py) from the ten cursor operations to every
token a run produces, decided on the AST of /repo's current source:

 * in lex.py, only methods of class Lexer store to the fields `start`, `pos`, `tokens`, `query` of any object (the state
   functions move the cursor through those methods only), nothing deletes them, and nothing calls a mutating list
   method on `.tokens` outside the class;
 * in the whole package, the fields `index` and `query` of a token are stored only in Token.__init__ (tokens are not
   edited after the lexer made them)."""
import ast
from pathlib import Path

from .contracts import REGISTRY

CURSOR = {"start", "pos", "tokens", "query"}
LIST_MUT = {"append", "extend", "insert", "pop", "remove", "clear", "sort", "reverse", "__setitem__", "__delitem__"}


def _stores(fn_body_nodes):
    for n in fn_body_nodes:
        tg = []
        if isinstance(n, ast.Assign):
            tg = n.targets
        elif isinstance(n, (ast.AugAssign, ast.AnnAssign)):
            tg = [n.target]
        elif isinstance(n, ast.Delete):
            tg = n.targets
        elif isinstance(n, (ast.For, ast.AsyncFor)):
            tg = [n.target]
        elif isinstance(n, ast.With):
            tg = [i.optional_vars for i in n.items if i.optional_vars is not None]
        elif isinstance(n, ast.NamedExpr):
            tg = [n.target]
        for t in tg:
            for x in ast.walk(t):
                if isinstance(x, ast.Attribute) and isinstance(x.ctx, (ast.Store, ast.Del)):
                    yield x.attr, n.lineno
                if isinstance(x, ast.Subscript) and isinstance(x.ctx, (ast.Store, ast.Del)) and isinstance(x.value, ast.Attribute):
                    yield x.value.attr, n.lineno
        if isinstance(n, ast.Call):
            f = n.func
            if isinstance(f, ast.Name) and f.id in ("setattr", "delattr") and len(n.args) >= 2:
                a = n.args[1]
                yield (a.value if isinstance(a, ast.Constant) and isinstance(a.value, str) else "*"), n.lineno
            if isinstance(f, ast.Attribute) and f.attr == "__setattr__":
                yield "*", n.lineno
            if isinstance(f, ast.Attribute) and f.attr in LIST_MUT and isinstance(f.value, ast.Attribute):
                yield f.value.attr, n.lineno


def lex_frame_obligations(repo="/repo"):
    pkg = Path(repo) / "jsonpath_rfc9535"
    out = []
    # 1. lex.py: cursor fields are stored only inside class Lexer
    tree = ast.parse((pkg / "lex.py").read_text())
    bad = []
    for top in tree.body:
        if isinstance(top, ast.ClassDef) and top.name == "Lexer":
            continue
        for attr, line in _stores(ast.walk(top)):
            if attr in CURSOR or attr == "*":
                bad.append(f"lex.py:{line} stores .{attr}")
    out.append({"id": "lex:frame/cursor-fields-stored-only-by-Lexer-methods", "status": "ok" if not bad else "violated", "detail": bad[:5]})
    # 2. Lexer methods under contract are all the methods of the class that store a cursor field
    missing = []
    for top in tree.body:
        if isinstance(top, ast.ClassDef) and top.name == "Lexer":
            for m in top.body:
                if isinstance(m, ast.FunctionDef):
                    touched = {a for a, _ in _stores(ast.walk(m))}
                    if (touched & CURSOR or "*" in touched) and f"lex:Lexer.{m.name}" not in REGISTRY:
                        missing.append(m.name)
    out.append({"id": "lex:frame/every-cursor-writing-method-is-under-contract", "status": "ok" if not missing else "violated", "detail": missing})
    # 3. package-wide: a field named `index` or `query` is stored only as `self.<field> = ...` inside a constructor
    #    (Token.__init__ for tokens; IndexSelector / FilterQuery / Lexer constructors for their own fields)
    bad = []
    for p in sorted(pkg.rglob("*.py")):
        t = ast.parse(p.read_text())
        inits = [(n.lineno, n.end_lineno or n.lineno) for n in ast.walk(t) if isinstance(n, ast.FunctionDef) and n.name == "__init__"]
        for n in ast.walk(t):
            for attr, line in _stores([n]):
                if attr not in ("index", "query", "*"):
                    continue
                in_init = any(a <= line <= b for a, b in inits)
                self_store = isinstance(n, (ast.Assign, ast.AnnAssign, ast.AugAssign)) and all(
                    isinstance(x.value, ast.Name) and x.value.id == "self"
                    for tt in (n.targets if isinstance(n, ast.Assign) else [n.target]) for x in ast.walk(tt)
                    if isinstance(x, ast.Attribute) and x.attr in ("index", "query"))
                if not (in_init and self_store):
                    bad.append(f"{p.name}:{line} stores .{attr} outside a constructor")
    out.append({"id": "tokens:frame/token-offset-and-text-stored-only-by-constructors", "status": "ok" if not bad else "violated", "detail": bad[:5]})
    # 4. the driver Lexer.run calls whatever `state` holds through the contract of lex_root: every state function (every
    #    module-level function of lex.py taking the lexer `l`, and the closure made by lex_string_factory) must carry
    #    exactly that contract
    state_fns = [t.name for t in tree.body if isinstance(t, ast.FunctionDef) and [a.arg for a in t.args.args] == ["l"]]
    keys = ["lex:" + n for n in state_fns] + ["lex:lex_string_factory.<locals>._lex_string"]
    ref = REGISTRY.get("lex:lex_root")
    diff = []
    for k in keys:
        c = REGISTRY.get(k)
        if c is None or ref is None:
            diff.append(k + ": no contract")
            continue
        extra_req = [r for r in c.requires if r not in ref.requires]
        closure_ok = k.endswith("_lex_string") and all(("quote" in r or "tt" in r) for r in extra_req)
        if ((extra_req and not closure_ok) or c.ensures != ref.ensures or c.raises != ref.raises
                or c.raises_ensures != ref.raises_ensures or c.mutates != ref.mutates or c.trusted or c.heavy):
            diff.append(k + ": contract differs from lex_root's")
    out.append({"id": "lex:frame/state-functions-share-the-contract-of-lex_root", "status": "ok" if not diff else "violated", "detail": diff[:5]})
    # 5. a state function returns None, another state function, or a closure bound at module level by lex_string_factory
    closures = {t.targets[0].id for t in tree.body if isinstance(t, ast.Assign) and len(t.targets) == 1 and isinstance(t.targets[0], ast.Name)
                and isinstance(t.value, ast.Call) and isinstance(t.value.func, ast.Name) and t.value.func.id == "lex_string_factory"
                and len(t.value.args) == 2 and isinstance(t.value.args[1], ast.Name) and t.value.args[1].id in state_fns}
    bad = []
    fns = [t for t in tree.body if isinstance(t, ast.FunctionDef) and t.name in state_fns]
    for t in tree.body:
        if isinstance(t, ast.FunctionDef) and t.name == "lex_string_factory":
            fns += [x for x in t.body if isinstance(x, ast.FunctionDef)]
    for f in fns:
        for n in ast.walk(f):
            if isinstance(n, ast.Return):
                v = n.value
                ok = v is None or (isinstance(v, ast.Constant) and v.value is None) or (
                    isinstance(v, ast.Name) and (v.id in state_fns or v.id in closures or (f.name == "_lex_string" and v.id == "state")))
                if not ok:
                    bad.append(f"lex.py:{n.lineno} {f.name} returns {ast.unparse(v)}")
    # 6. the alias the contract of tokenize() declares: lex() returns `lexer, lexer.tokens` (the object and ITS token list),
    #    tokenize() unpacks that pair once and never rebinds either name
    ok6 = False
    for t in tree.body:
        if isinstance(t, ast.FunctionDef) and t.name == "lex":
            rets = [n for n in ast.walk(t) if isinstance(n, ast.Return)]
            ok6 = (len(rets) == 1 and isinstance(rets[0].value, ast.Tuple) and len(rets[0].value.elts) == 2
                   and isinstance(rets[0].value.elts[0], ast.Name) and ast.unparse(rets[0].value.elts[1]) == rets[0].value.elts[0].id + ".tokens")
    binds = 0
    for t in tree.body:
        if isinstance(t, ast.FunctionDef) and t.name == "tokenize":
            for n in ast.walk(t):
                if isinstance(n, ast.Name) and isinstance(n.ctx, ast.Store) and n.id in ("tokens", "lexer"):
                    binds += 1
    out.append({"id": "lex:frame/tokenize-tokens-is-the-lexers-token-list", "status": "ok" if ok6 and binds == 2 else "violated",
                "detail": [] if ok6 and binds == 2 else [f"lex() shape ok={ok6}, bindings of tokens/lexer in tokenize={binds}"]})
    # Lexer.run starts from lex_root and only ever assigns the result of a state call
    out.append({"id": "lex:frame/state-functions-return-state-functions-or-None", "status": "ok" if not bad else "violated", "detail": bad[:5]})
    return out


def _in_init(tree, line):
    for n in ast.walk(tree):
        if isinstance(n, ast.FunctionDef) and n.name == "__init__" and n.lineno <= line <= (n.end_lineno or n.lineno):
            return True
    return False
