"""Run the deductive part (D) for a set of functions under contract: parallel over functions,
cached by content hash, compared with the committed ledger."""
from __future__ import annotations

import hashlib
import importlib
import json
import os
import pkgutil
import sys
import time
from concurrent.futures import ProcessPoolExecutor
from pathlib import Path

ROOT = Path(__file__).resolve().parent.parent
CACHE = ROOT / "work" / "dcache"


def load_contracts():
    import contracts
    from pyvc.contracts import REGISTRY, resolve_inheritance

    for m in pkgutil.iter_modules(contracts.__path__):
        importlib.import_module("contracts." + m.name)
    import lemmas

    for m in pkgutil.iter_modules(lemmas.__path__):
        importlib.import_module("lemmas." + m.name)
    resolve_inheritance()
    return REGISTRY


def _engine_hash():
    h = hashlib.sha256()
    for d in ("pyvc", "spec", "contracts", "lemmas"):
        for p in sorted((ROOT / d).glob("*.py")):
            h.update(p.name.encode())
            h.update(p.read_bytes())
    return h.hexdigest()


def _verify_one(args):
    key, timeout_ms, hard_s, jobs, use_cache, ehash = args
    sys.path.insert(0, str(ROOT))
    load_contracts()
    from pyvc.universe import Source
    from pyvc.verify import verify_function

    src = Source()
    h = hashlib.sha256((ehash + key + "".join(sorted(src.sha.values())) + str(timeout_ms)).encode()).hexdigest()[:24]
    cf = CACHE / f"{h}.json"
    if use_cache and cf.exists():
        r = json.loads(cf.read_text())
        r["cached"] = True
        return r
    r = verify_function(key, src=src, timeout_ms=timeout_ms, hard_s=hard_s, jobs=jobs)
    r.pop("trace", None) if r.get("status") != "engine-error" else None
    r["cached"] = False
    try:
        CACHE.mkdir(parents=True, exist_ok=True)
        cf.write_text(json.dumps(r))
    except OSError:
        pass
    return r


def run_D(keys, tier="quick", use_cache=True):
    """verify the given functions; returns {key: result}"""
    timeout_ms = 8000 if tier == "quick" else 30000
    hard_s = 150 if tier == "quick" else 400
    ehash = _engine_hash()
    ncpu = os.cpu_count() or 4
    outer = min(len(keys), 4) or 1
    inner = max(2, ncpu // outer)
    t0 = time.time()
    out = {}
    with ProcessPoolExecutor(max_workers=outer) as ex:
        for r in ex.map(_verify_one, [(k, timeout_ms, hard_s, inner, use_cache, ehash) for k in keys]):
            out[r["key"]] = r
    return out, time.time() - t0
