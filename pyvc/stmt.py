"""Statement execution: path-splitting forward symbolic execution with loop invariants."""
from __future__ import annotations

import ast

import z3

from .calls import CallMixin
from .core import State, fresh_name
from .expr import OK, RAISE, Rec
from .vals import BM, Builtin, Cls, Fn, It, Mod, Star, T, Tup, Unsupported

NORMAL, RETURN, BREAK, CONTINUE = "normal", "return", "break", "continue"


def loops_in_order(fn: ast.FunctionDef):
    """For/While nodes of fn (not of nested defs) in source order -> ordinal from 1"""
    found = []

    def visit(n):
        for ch in ast.iter_child_nodes(n):
            if isinstance(ch, (ast.FunctionDef, ast.AsyncFunctionDef, ast.Lambda, ast.ClassDef)):
                continue
            if isinstance(ch, (ast.For, ast.While)):
                found.append(ch)
            visit(ch)

    visit(fn)
    found.sort(key=lambda n: (n.lineno, n.col_offset))
    return {id(n): k + 1 for k, n in enumerate(found)}


def comps_in_order(fn: ast.FunctionDef):
    """comprehension / generator-expression nodes of fn in source order -> ordinal from 1"""
    found = [n for n in ast.walk(fn) if isinstance(n, (ast.ListComp, ast.GeneratorExp))]
    found.sort(key=lambda n: (n.lineno, n.col_offset))
    return {id(n): k + 1 for k, n in enumerate(found)}


def assigned_names(stmts):
    names = set()
    for s in stmts:
        for n in ast.walk(s):
            if isinstance(n, ast.Name) and isinstance(n.ctx, (ast.Store, ast.Del)):
                names.add(n.id)
            elif isinstance(n, ast.ExceptHandler) and n.name:
                names.add(n.name)
            elif isinstance(n, ast.Call) and isinstance(n.func, ast.Attribute) and isinstance(n.func.value, ast.Name) and n.func.attr in ("append", "extend", "pop", "popleft", "insert", "sort", "reverse", "clear"):
                names.add(n.func.value.id)
            elif isinstance(n, ast.Call) and isinstance(n.func, ast.Attribute) and n.func.attr == "shuffle" and n.args and isinstance(n.args[0], ast.Name):
                names.add(n.args[0].id)
            elif isinstance(n, (ast.Assign, ast.AugAssign)):
                tgts = n.targets if isinstance(n, ast.Assign) else [n.target]
                for t in tgts:
                    if isinstance(t, ast.Attribute) and isinstance(t.value, ast.Name):
                        names.add(t.value.id)
    return names


class StmtMixin(CallMixin):
    # ------------------------------------------------------------------
    def exec_block(self, stmts, st):
        results = [(NORMAL, None, st)]
        for s in stmts:
            nxt = []
            for tag, p, s0 in results:
                if tag == NORMAL:
                    nxt.extend(self.exec_stmt(s, s0))
                else:
                    nxt.append((tag, p, s0))
            results = nxt
            if len(results) > 400:
                raise Unsupported("path explosion (>400 paths)")
        return results

    def lift(self, results):
        """expression results -> statement results"""
        return [((NORMAL if tag == OK else tag), (None if tag == OK else p), s) for tag, p, s in results]

    def exec_stmt(self, node, st):
        self._g = st.ghost
        m = getattr(self, "st_" + type(node).__name__, None)
        if m is None:
            raise Unsupported(f"statement {type(node).__name__}")
        return m(node, st)

    def st_Pass(self, node, st):
        return [(NORMAL, None, st)]

    def st_Break(self, node, st):
        return [(BREAK, None, st)]

    def st_Continue(self, node, st):
        return [(CONTINUE, None, st)]

    def st_FunctionDef(self, node, st):
        key = f"{self.fn_key}.<locals>.{node.name}"
        return [(NORMAL, None, st.set(node.name, Fn(key)))]

    def st_Expr(self, node, st):
        v = node.value
        if isinstance(v, ast.Constant):
            return [(NORMAL, None, st)]
        # x.append(e) on a local list
        if isinstance(v, ast.Call) and isinstance(v.func, ast.Attribute) and isinstance(v.func.value, ast.Name) and v.func.attr == "append" and len(v.args) == 1:
            name = v.func.value.id
            cur = st.env.get(name)
            if cur is not None and (isinstance(cur, T) and cur.kind in ("list", "V")):
                def k(val, s):
                    c = s.env[name]
                    if c.kind == "V":
                        self.oblige(s, "safety:append", self.is_kind(c, ["VList"]))
                    return [(NORMAL, None, s.set(name, T("list", z3.Concat(self.seq_term(c), z3.Unit(self.box(val))))))]
                self.local_mutation_ok(name)
                return self.lift_bind(self.ev(v.args[0], st), k)
        # obj.field.append(e) on an object updated in place
        if (isinstance(v, ast.Call) and isinstance(v.func, ast.Attribute) and v.func.attr == "append" and len(v.args) == 1
                and isinstance(v.func.value, ast.Attribute) and isinstance(v.func.value.value, ast.Name)
                and isinstance(st.env.get(v.func.value.value.id), Rec)):
            oname, fname = v.func.value.value.id, v.func.value.attr

            def kr(val, s):
                rec = s.env[oname]
                cur = rec.fields.get(fname)
                if cur is None:
                    raise Unsupported(f"append to unset field {fname}")
                if isinstance(cur, T) and cur.kind == "V":
                    self.oblige(s, "safety:append", self.is_kind(cur, ["VList"]))
                new = T("list", z3.Concat(self.seq_term(cur), z3.Unit(self.box(val))))
                return self.assign(ast.Attribute(value=ast.Name(id=oname, ctx=ast.Load()), attr=fname, ctx=ast.Store()), new, s)

            return self.lift_bind(self.ev(v.args[0], st), kr)
        # obj.field.pop() (last element dropped; the value is not used) on an object updated in place
        if (isinstance(v, ast.Call) and isinstance(v.func, ast.Attribute) and v.func.attr == "pop" and not v.args
                and isinstance(v.func.value, ast.Attribute) and isinstance(v.func.value.value, ast.Name)
                and isinstance(st.env.get(v.func.value.value.id), Rec)):
            oname, fname = v.func.value.value.id, v.func.value.attr
            cur = st.env[oname].fields.get(fname)
            if cur is None:
                raise Unsupported(f"pop from unset field {fname}")
            if isinstance(cur, T) and cur.kind == "V":
                self.oblige(st, "safety:pop", self.is_kind(cur, ["VList"]))
            seq = self.seq_term(cur)
            n = z3.Length(seq)
            tgt = ast.Attribute(value=ast.Name(id=oname, ctx=ast.Load()), attr=fname, ctx=ast.Store())
            def popped(a):
                # the shorter list, characterised position by position (friendlier to instantiation than seq.extract)
                r = z3.Const(fresh_name("popd"), self.U.SeqV)
                j = z3.Int("pj!")
                a2 = a.fork(z3.Length(r) == n - 1, self.forall([j], z3.Implies(z3.And(j >= 0, j < n - 1), r[j] == seq[j]), [r[j]]))
                return self.assign(tgt, T("list", r), a2)

            return self.split(st, n > 0, popped, lambda b: self.lift(self.raise_(b, "IndexError")))
        if isinstance(v, ast.Call) and isinstance(v.func, ast.Attribute) and v.func.attr == "shuffle" and isinstance(v.func.value, ast.Name) and v.func.value.id == "random":
            if len(v.args) == 1 and isinstance(v.args[0], ast.Name):
                return self.shuffle_local(v.args[0].id, st)
            raise Unsupported("random.shuffle of non-local")
        return self.lift(self.ev(v, st))

    def lift_bind(self, results, k):
        out = []
        for tag, p, s in results:
            if tag == OK:
                out.extend(k(p, s))
            else:
                out.append((tag, p, s))
        return out

    def local_mutation_ok(self, name):
        """A5: in-place mutation of a local list is modelled by rebinding; sound when the list is not
        aliased -- checked syntactically: the name is never the right-hand side of an assignment,
        never stored in a container/attribute and never passed to a call other than len/iter/tuple/list."""
        fn = self.cur_fn_node
        for n in ast.walk(fn):
            if isinstance(n, (ast.Assign, ast.AnnAssign)) and n.value is not None:
                for sub in ast.walk(n.value):
                    if isinstance(sub, ast.Name) and sub.id == name and not self._harmless_use(n.value, sub):
                        raise Unsupported(f"mutated local list {name} may be aliased")

    def _harmless_use(self, root, name_node):
        # uses inside len(...)/iteration are harmless; anything else is treated as potential aliasing
        for n in ast.walk(root):
            if isinstance(n, ast.Call) and isinstance(n.func, ast.Name) and n.func.id in ("len", "iter", "tuple", "list", "deque") and any(a is name_node for a in n.args):
                return True
            if isinstance(n, ast.Subscript) and n.value is name_node:
                return True
        return False

    def shuffle_local(self, name, st):
        """random.shuffle(x): x becomes SOME permutation of itself (every outcome is a path):
        fresh sequence r, fresh index map p, with len(r)==len(x), p a bijection on [0,n), r[j]==x[p(j)]."""
        cur = st.env[name]
        self.local_mutation_ok(name)
        seq = self.seq_term(cur)
        n = z3.Length(seq)
        r = z3.Const(fresh_name("shuf"), self.U.SeqV)
        p = z3.Function(fresh_name("perm"), z3.IntSort(), z3.IntSort())
        q = z3.Function(fresh_name("perminv"), z3.IntSort(), z3.IntSort())
        j = z3.Int(fresh_name("pj"))
        facts = [
            z3.Length(r) == n,
            self.forall([j], z3.Implies(z3.And(0 <= j, j < n), z3.And(0 <= p(j), p(j) < n, q(p(j)) == j, r[j] == seq[p(j)])), [r[j]]),
            self.forall([j], z3.Implies(z3.And(0 <= j, j < n), z3.And(0 <= q(j), q(j) < n, p(q(j)) == j)), [q(j)]),
        ]
        s = st.fork(*facts)
        s.env[name] = T("list", r)
        s.ghost.setdefault("perms", [])
        s.ghost["perms"] = s.ghost["perms"] + [(name, p, q)]
        s.ghost["perm"] = (p, q)
        return [(NORMAL, None, s)]

    def val_terms(self, v):
        if isinstance(v, T):
            return [v.t == v.t] if not z3.is_bool(v.t) else [v.t]
        if isinstance(v, Tup):
            return [t for x in v.items for t in self.val_terms(x)]
        return []

    # ---------------- assignment -----------------
    def bind_target(self, tgt, val, st):
        if isinstance(tgt, ast.Name):
            return st.set(tgt.id, val)
        if isinstance(tgt, (ast.Tuple, ast.List)):
            n = len(tgt.elts)
            if isinstance(val, Tup):
                if len(val.items) != n:
                    raise Unsupported("tuple unpack length")
                items = val.items
            else:
                if st.mode == "code":
                    self.oblige(st, "safety:unpack", z3.And(self.is_kind(val, ["VTuple", "VList"]), z3.Length(self.seq_term(val)) == n))
                seq = self.seq_term(val)
                parts = self.concat_parts(seq)
                if len(parts) == n and all(kind == "unit" for kind, _ in parts):
                    items = [T("V", t) for _, t in parts]  # an explicit tuple: its components themselves
                else:
                    items = [T("V", seq[k]) for k in range(n)]
            for t, v in zip(tgt.elts, items):
                st = self.bind_target(t, v, st)
            return st
        raise Unsupported("assignment target " + type(tgt).__name__)

    def assign(self, tgt, val, st):
        """returns statement results"""
        U = self.U
        if isinstance(tgt, ast.Attribute) and isinstance(tgt.value, ast.Name):
            name = tgt.value.id
            obj = st.env.get(name)
            if isinstance(obj, Rec):
                nr = Rec(obj.cls)
                nr.fields = dict(obj.fields)
                nr.fields[tgt.attr] = val
                return [(NORMAL, None, st.set(name, nr))]
            if isinstance(obj, T) and obj.kind == "V" and tgt.attr == "token" and st.ghost.get("excvar") == name:
                # by-value update of the exception caught in this frame
                self.oblige(st, "safety:attrstore", U.is_("VExc", obj.t))
                return [(NORMAL, None, st.set(name, T("V", U.con("VExc", U.acc("xcls", obj.t), self.box(val)))))]
            raise Unsupported(f"attribute store {ast.unparse(tgt)}")
        st2 = self.bind_target(tgt, val, st)
        if st.mode == "code" and isinstance(val, T) and val.kind == "V" and z3.is_app(val.t) and val.t.decl().kind() == z3.Z3_OP_SEQ_NTH:
            st2 = self.learn(st2, self.val_terms(val))  # x = s[i]: quantified facts about the elements of s apply to x
        return [(NORMAL, None, st2)]

    def st_Assign(self, node, st):
        def k(val, s):
            res = [(NORMAL, None, s)]
            for tgt in node.targets:
                res = [r for tag, p, s2 in res for r in (self.assign(tgt, val, s2) if tag == NORMAL else [(tag, p, s2)])]
            return res

        return self.lift_bind(self.ev(node.value, st), k)

    def st_AnnAssign(self, node, st):
        if node.value is None:
            return [(NORMAL, None, st)]
        return self.lift_bind(self.ev(node.value, st), lambda v, s: self.assign(node.target, v, s))

    def st_AugAssign(self, node, st):
        tgt = node.target
        if isinstance(tgt, ast.Attribute) and isinstance(tgt.value, ast.Name) and isinstance(st.env.get(tgt.value.id), Rec):
            # field of an object updated in place: obj.f op= e
            load = ast.Attribute(value=ast.Name(id=tgt.value.id, ctx=ast.Load()), attr=tgt.attr, ctx=ast.Load())

            def kf(vs, s):
                return self.lift_bind(self.binop(node.op, vs[0], vs[1], s, node), lambda v, s2: self.assign(tgt, v, s2))

            return self.lift_bind(self.ev_seq([load, node.value], st, lambda vs, s: [(OK, vs, s)]), kf)
        if (isinstance(tgt, ast.Subscript) and isinstance(tgt.value, ast.Attribute) and isinstance(tgt.value.value, ast.Name)
                and isinstance(st.env.get(tgt.value.value.id), Rec) and not isinstance(tgt.slice, ast.Slice)):
            # obj.field[i] op= e on an object updated in place: the list with position i replaced
            oname, fname = tgt.value.value.id, tgt.value.attr
            load = ast.Subscript(value=ast.Attribute(value=ast.Name(id=oname, ctx=ast.Load()), attr=fname, ctx=ast.Load()), slice=tgt.slice, ctx=ast.Load())
            ftgt = ast.Attribute(value=ast.Name(id=oname, ctx=ast.Load()), attr=fname, ctx=ast.Store())

            def ks(vs, s):
                old_elem, idx, rhs = vs

                def put(newv, s2):
                    cur = s2.env[oname].fields[fname]
                    seq = self.seq_term(cur)
                    n = z3.Length(seq)
                    i0 = self.int_term(idx)
                    i = z3.If(i0 < 0, i0 + n, i0)  # in range: the load above did not raise
                    upd = z3.Const(fresh_name("updl"), self.U.SeqV)
                    j = z3.Int("uj!")
                    s3 = s2.fork(z3.Length(upd) == n, upd[i] == self.box(newv),
                                 self.forall([j], z3.Implies(z3.And(j >= 0, j < n, j != i), upd[j] == seq[j]), [upd[j]]))
                    return self.assign(ftgt, T("list", upd), s3)

                return self.lift_bind(self.binop(node.op, old_elem, rhs, s, node), put)

            return self.lift_bind(self.ev_seq([load, tgt.slice, node.value], st, lambda vs, s: [(OK, vs, s)]), ks)
        if not isinstance(node.target, ast.Name):
            raise Unsupported("augmented assignment to non-name")
        load = ast.Name(id=node.target.id, ctx=ast.Load())

        def k(vs, s):
            return self.lift_bind(self.binop(node.op, vs[0], vs[1], s, node), lambda v, s2: [(NORMAL, None, s2.set(node.target.id, v))])

        return self.lift(self.ev_seq([load, node.value], st, lambda vs, s: [(OK, vs, s)])) if False else self.lift_bind(self.ev_seq([load, node.value], st, lambda vs, s: [(OK, vs, s)]), k)

    def st_Return(self, node, st):
        if node.value is None:
            return [(RETURN, T("V", self.U.none), st)]
        return self.lift_bind(self.ev(node.value, st), lambda v, s: [(RETURN, v, s)])

    def st_Assert(self, node, st):
        def k(v, s):
            c = self.truthy(v)
            self.oblige(s, "assert", c, ast.unparse(node.test))
            return [(NORMAL, None, s.fork(c))]

        return self.lift_bind(self.ev(node.test, st), k)

    def st_If(self, node, st):
        def k(v, s):
            return self.split(s, self.truthy(v), lambda a: self.exec_block(node.body, a), lambda b: self.exec_block(node.orelse, b))

        return self.lift_bind(self.ev(node.test, st), k)

    def st_Raise(self, node, st):
        if node.exc is None:
            h = st.handler_exc
            if h is None:
                raise Unsupported("bare raise outside handler")
            if isinstance(h, str):
                return [(RAISE, self.box(st.env[h]), st)]
            return [(RAISE, h, st)]

        def k(v, s):
            if isinstance(v, Cls):
                return self.lift_bind(self.construct(v.name, [], {}, s), lambda e, s2: [(RAISE, self.box(e), s2)])
            return [(RAISE, self.box(v), s)]

        return self.lift_bind(self.ev(node.exc, st), k)

    # ---------------- yield -----------------
    def ev_Yield(self, node, st):
        if st.out is None:
            raise Unsupported("yield outside generator")

        def k(v, s):
            s2 = s.fork()
            s2.out = z3.Concat(s.out, z3.Unit(self.box(v)))
            return self.ok(T("V", self.U.none), s2)

        if node.value is None:
            return k(T("V", self.U.none), st)
        return self.bind(self.ev(node.value, st), k)

    def ev_YieldFrom(self, node, st):
        def k(v, s):
            it = self.as_iterable(v, s)
            seq = self.it_to_seq(it)
            s2 = s.fork()
            s2.out = z3.Concat(s.out, seq)
            p = self.it_pending(it)
            if p is None:
                return self.ok(T("V", self.U.none), s2)

            def raised(b):
                # the delegate raised after yielding SOME prefix: out is havocked beyond what was there
                b2 = b.fork()
                pre = z3.Const(fresh_name("prefix"), self.U.SeqV)
                b2.out = z3.Concat(s.out, pre)
                return [(RAISE, p, b2)]

            return self.split(s2, self.U.is_("VNone", p), lambda a: self.ok(T("V", self.U.none), a), raised)

        return self.bind(self.ev(node.value, st), k)

    # ---------------- with / try -----------------
    def st_With(self, node, st):
        if len(node.items) != 1:
            raise Unsupported("with: several items")
        ce = node.items[0].context_expr
        if not (isinstance(ce, ast.Call) and isinstance(ce.func, ast.Name) and ce.func.id == "suppress" and node.items[0].optional_vars is None):
            raise Unsupported("with: only contextlib.suppress is modelled")
        classes = [self.ev1(a, State(env=st.env, mode="spec")) for a in ce.args]
        outs = self.exec_block(node.body, st)
        res = []
        for tag, p, s in outs:
            if tag != RAISE:
                res.append((tag, p, s))
                continue
            cond = z3.Or(*[self.isinstance_term(T("V", p), c) for c in classes])
            res.extend(self.split(s, cond, lambda a: [(NORMAL, None, a)], lambda b, p=p: [(RAISE, p, b)]))
        return res

    def st_Try(self, node, st):
        if node.finalbody:
            raise Unsupported("try/finally")
        outs = self.exec_block(node.body, st)
        res = []
        for tag, p, s in outs:
            if tag == NORMAL:
                res.extend(self.exec_block(node.orelse, s))
            elif tag != RAISE:
                res.append((tag, p, s))
            else:
                res.extend(self.dispatch_handlers(node.handlers, p, s))
        return res

    def dispatch_handlers(self, handlers, exc, st):
        if not handlers:
            return [(RAISE, exc, st)]
        h = handlers[0]
        if h.type is None:
            cond = z3.BoolVal(True)
        else:
            cls = self.ev1(h.type, State(env=st.env, mode="spec"))
            cond = self.isinstance_term(T("V", exc), cls)

        def matched(a):
            s = a.fork()
            save_h, save_v = a.handler_exc, a.ghost.get("excvar")
            if h.name:
                s.env[h.name] = T("V", exc)
                s.handler_exc = h.name
                s.ghost["excvar"] = h.name
            else:
                s.handler_exc = exc
            outs = self.exec_block(h.body, s)
            res = []
            for tag, p, s2 in outs:
                s3 = s2.fork()
                s3.handler_exc = save_h
                s3.ghost["excvar"] = save_v
                res.append((tag, p, s3))
            return res

        return self.split(st, cond, matched, lambda b: self.dispatch_handlers(handlers[1:], exc, b))

    # ---------------- loops -----------------
    def inv_state(self, st, k, ival):
        """spec-mode state for evaluating invariants of loop k with ghost index value"""
        env = dict(st.env)
        for name, v in st.ghost.get("entry", {}).items():
            env.setdefault("entry_" + name, v)
        if st.out is not None:
            env["out"] = T("list", st.out)
        for kk, v in st.ghost.get("idx", {}).items():
            env[f"i{kk}"] = self.int_(v)
        if ival is not None:
            env[f"i{k}"] = self.int_(ival)
        if "perm" in st.ghost:
            p, q = st.ghost["perm"]
            env["__perm__"] = p
        return State(env, st.pc, None, "spec", None, dict(st.ghost))

    def invariants(self, k):
        c = self.cur_contract
        return list(c.loops.get(k, [])) if c else []

    def havoc_names(self, sh, mod, body):
        """loop havoc: assigned names become unknown values; an object updated in place (a record) that the body
        mentions at all becomes an unknown instance of its class (its fields may have been changed through method calls)"""
        mentioned = {n.id for stmt in body for n in ast.walk(stmt) if isinstance(n, ast.Name)}
        facts = []
        for v in list(sh.env):
            cur = sh.env[v]
            if isinstance(cur, Rec) and (v in mod or v in mentioned):
                m = z3.Const(fresh_name("hv_" + v), self.V)
                facts.append(self.isinstance_term(T("V", m), Cls(cur.cls)))
                sh.env[v] = self.rec_of(cur.cls, m)
            elif v in mod and not isinstance(cur, (Cls, Fn, Builtin, Mod)):
                sh.env[v] = T("V", z3.Const(fresh_name("hv_" + v), self.V))
        return sh.fork(*facts) if facts else sh

    def st_For(self, node, st):
        k = self.loop_ord[id(node)]
        invs = self.invariants(k)

        def go(itv, s):
            it = self.as_iterable(itv, s)
            n = self.it_len(it)
            cm = self.cur_module
            # init
            s0 = self.inv_state(s, k, z3.IntVal(0))
            for idx, cl in enumerate(invs):
                self.oblige(s, f"inv-init#{k}.{idx}", self.truthy(self.ev1(self.cur_contract.parsed(cl), s0)), cl)
            # arbitrary iteration
            mod = assigned_names(node.body) | assigned_names([ast.Expr(value=node.target)] if False else [])
            for nn in ast.walk(node.target):
                if isinstance(nn, ast.Name):
                    mod.add(nn.id)
            sh = self.havoc_names(s.fork(), mod, node.body)
            if sh.out is not None:
                sh.out = z3.Const(fresh_name("hv_out"), self.U.SeqV)
            i = z3.Int(fresh_name(f"i{k}_"))
            sb = sh.fork(i >= 0, i < n)
            sb.ghost["idx"] = dict(sb.ghost.get("idx", {}))
            sb.ghost["idx"][k] = i
            si = self.inv_state(sb, k, i)
            sb = self.assume(sb, [self.truthy(self.ev1(self.cur_contract.parsed(cl), si)) for cl in invs])
            elem = self.it_elem(it, i)
            sb = self.bind_target(node.target, elem, sb)
            sb = self.learn(sb, self.val_terms(elem))
            res = []
            if self.feasible(sb):
                for tag, p, s2 in self.exec_block(node.body, sb):
                    if tag in (NORMAL, CONTINUE):
                        s3 = self.inv_state(s2, k, i + 1)
                        for idx, cl in enumerate(invs):
                            self.oblige(s2, f"inv-keep#{k}.{idx}", self.truthy(self.ev1(self.cur_contract.parsed(cl), s3)), cl)
                    elif tag == BREAK:
                        s4 = s2.fork()
                        s4.ghost["idx"] = {a: b for a, b in s4.ghost.get("idx", {}).items() if a != k}
                        res.append((NORMAL, None, s4))
                    else:
                        res.append((tag, p, s2))
            # exit
            se = sh.fork()
            sx = self.inv_state(se, k, n)
            se = self.assume(se, [self.truthy(self.ev1(self.cur_contract.parsed(cl), sx)) for cl in invs])
            p = self.it_pending(it)
            if p is not None:
                def after(a):
                    return self.exec_block(node.orelse, a)

                def rz(b):
                    b2 = b.fork()
                    if b2.out is not None:
                        b2.out = z3.Const(fresh_name("hv_out"), self.U.SeqV)
                    return [(RAISE, p, b2)]

                res.extend(self.split(se, self.U.is_("VNone", p), after, rz))
            else:
                res.extend(self.exec_block(node.orelse, se))
            return res

        return self.lift_bind(self.ev(node.iter, st), go)

    def st_While(self, node, st):
        k = self.loop_ord[id(node)]
        invs = self.invariants(k)
        if not invs:
            raise Unsupported("while loop without invariant")
        s0 = self.inv_state(st, k, None)
        for idx, cl in enumerate(invs):
            self.oblige(st, f"inv-init#{k}.{idx}", self.truthy(self.ev1(self.cur_contract.parsed(cl), s0)), cl)
        mod = assigned_names(node.body)
        sh = self.havoc_names(st.fork(), mod, node.body + [ast.Expr(value=node.test)])
        if sh.out is not None:
            sh.out = z3.Const(fresh_name("hv_out"), self.U.SeqV)
        si = self.inv_state(sh, k, None)
        sh = self.assume(sh, [self.truthy(self.ev1(self.cur_contract.parsed(cl), si)) for cl in invs])
        res = []

        def body(a):
            out = []
            for tag, p, s2 in self.exec_block(node.body, a):
                if tag in (NORMAL, CONTINUE):
                    s3 = self.inv_state(s2, k, None)
                    for idx, cl in enumerate(invs):
                        self.oblige(s2, f"inv-keep#{k}.{idx}", self.truthy(self.ev1(self.cur_contract.parsed(cl), s3)), cl)
                elif tag == BREAK:
                    out.append((NORMAL, None, s2))
                else:
                    out.append((tag, p, s2))
            return out

        return self.lift_bind(self.ev(node.test, sh), lambda v, s: self.split(s, self.truthy(v), body, lambda b: self.exec_block(node.orelse, b)))
