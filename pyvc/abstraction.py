"""Theory abstraction rung. The query is translated into equality + algebraic datatypes + linear arithmetic:

  * every sequence / string SORT becomes an uninterpreted sort, the value datatype V is rebuilt over them;
  * every sequence / string OPERATION becomes an uninterpreted function of the translated signature
    (lengths additionally keep `>= 0`, distinct string literals stay distinct).

Any model of the original formulas yields a model of the translated ones (interpret each new sort as the set
of sequences it replaces and each new symbol as the operation it replaces), so `unsat` of the translation
implies `unsat` of the original. Nothing else is concluded from it: `sat` only means that the proof, if there
is one, needs sequence reasoning (or an instance that was not generated) and the concrete ladder goes on.
Most obligations need only congruence, datatypes and linear arithmetic once the quantifiers over positions
have been instantiated (verify._instantiate); z3's sequence solver is what loops or gives up on them."""
from __future__ import annotations

import z3

_NAMES = ["Z3_OP_SEQ_UNIT", "Z3_OP_SEQ_EMPTY", "Z3_OP_SEQ_CONCAT", "Z3_OP_SEQ_PREFIX", "Z3_OP_SEQ_SUFFIX",
          "Z3_OP_SEQ_CONTAINS", "Z3_OP_SEQ_EXTRACT", "Z3_OP_SEQ_REPLACE", "Z3_OP_SEQ_AT", "Z3_OP_SEQ_NTH",
          "Z3_OP_SEQ_LENGTH", "Z3_OP_SEQ_INDEX", "Z3_OP_SEQ_LAST_INDEX", "Z3_OP_SEQ_TO_RE", "Z3_OP_SEQ_IN_RE",
          "Z3_OP_STR_TO_INT", "Z3_OP_INT_TO_STR", "Z3_OP_STRING_LT", "Z3_OP_STRING_LE", "Z3_OP_SEQ_REPLACE_ALL",
          "Z3_OP_STR_TO_CODE", "Z3_OP_STR_FROM_CODE", "Z3_OP_SEQ_MAP", "Z3_OP_SEQ_FOLDL", "Z3_OP_SEQ_REPLACE_RE",
          "Z3_OP_SEQ_REPLACE_RE_ALL", "Z3_OP_SEQ_MAPI", "Z3_OP_SEQ_FOLDLI"]
KINDS = {getattr(z3, n) for n in _NAMES if hasattr(z3, n)}


class Untranslatable(Exception):
    pass


class Abstractor:
    def __init__(self, V):
        self.V = V
        self.sorts = {}
        self.cache = {}  # id -> (term kept alive, image)
        self.ufs = {}
        self.len_terms = {}
        self.extra = {}  # valid facts about translated terms (unit laws of concatenation)
        self.literals = {}
        self._build_datatype()

    # ---------------- sorts ----------------
    def _build_datatype(self):
        V = self.V
        dt = z3.Datatype("V!a")
        self._pending = dt
        for i in range(V.num_constructors()):
            c = V.constructor(i)
            fields = []
            for j in range(c.arity()):
                a = V.accessor(i, j)
                rs = a.range()
                fields.append((a.name() + "!a", dt if rs == V else self.sort(rs)))
            dt.declare(c.name() + "!a", *fields)
        self.V2 = dt.create()
        self._pending = None
        self.sorts[V.sexpr()] = self.V2
        self.cons, self.accs, self.recs = {}, {}, {}
        for i in range(V.num_constructors()):
            self.cons[V.constructor(i).name()] = self.V2.constructor(i)
            self.recs[V.constructor(i).name()] = self.V2.recognizer(i)
            for j in range(V.constructor(i).arity()):
                self.accs[V.accessor(i, j).name()] = self.V2.accessor(i, j)

    def sort(self, s):
        k = s.sexpr()
        hit = self.sorts.get(k)
        if hit is not None:
            return hit
        if s == self.V:
            raise Untranslatable("value sort requested before the datatype exists")
        if s.kind() in (z3.Z3_BOOL_SORT, z3.Z3_INT_SORT, z3.Z3_REAL_SORT):
            r = s
        else:
            r = z3.DeclareSort("S!" + k.replace(" ", "_"))
        self.sorts[k] = r
        return r

    # ---------------- terms ----------------
    def _uf(self, name, args, rng):
        key = (name, tuple(a.sort().sexpr() for a in args), rng.sexpr())
        f = self.ufs.get(key)
        if f is None:
            f = z3.Function(name + "!a%d" % len(self.ufs), *[a.sort() for a in args], rng)
            self.ufs[key] = f
        return f

    def _const(self, name, srt):
        key = (name, (), srt.sexpr())
        c = self.ufs.get(key)
        if c is None:
            c = z3.Const(name + "!a", srt)
            self.ufs[key] = c
        return c

    def tr(self, t):
        k = t.get_id()
        hit = self.cache.get(k)
        if hit is not None:
            return hit[1]
        r = self._tr(t, k)
        self.cache[k] = (t, r)
        return r

    def _tr(self, t, k):
        if z3.is_var(t):
            raise Untranslatable("free variable")
        if z3.is_quantifier(t):
            if t.is_lambda():
                raise Untranslatable("lambda")
            n = t.num_vars()
            cs = [z3.Const("bv!%d!%s" % (k, t.var_name(i)), t.var_sort(i)) for i in range(n)]
            body = self.tr(z3.substitute_vars(t.body(), *reversed(cs)))  # Var(0) is the last bound variable
            cs2 = [self.tr(c) for c in cs]
            return (z3.ForAll if t.is_forall() else z3.Exists)(cs2, body)
        if not z3.is_app(t):
            raise Untranslatable("term kind")
        d = t.decl()
        kind = d.kind()
        if z3.is_string_value(t):
            s = t.as_string()
            c = self.literals.get(s)
            if c is None:
                c = z3.Const("lit!%d" % len(self.literals), self.sort(t.sort()))
                self.literals[s] = c
            return c
        if kind == z3.Z3_OP_SEQ_CONCAT:
            # concatenation is associative with the empty sequence as unit: translated in a canonical shape
            # (leaves in order, empties dropped, nested to the right), so that (a ++ b) ++ c and a ++ (b ++ c) coincide
            leaves, stack = [], list(reversed(t.children()))
            while stack:
                x = stack.pop()
                if z3.is_app(x) and x.decl().kind() == z3.Z3_OP_SEQ_CONCAT:
                    stack.extend(reversed(x.children()))
                elif z3.is_app(x) and x.decl().kind() == z3.Z3_OP_SEQ_EMPTY:
                    continue
                elif z3.is_string_value(x) and x.as_string() == "":
                    continue
                else:
                    leaves.append(self.tr(x))
            rng = self.sort(t.sort())
            if not leaves:
                return self._const("empty!" + t.sort().sexpr().replace(" ", "_"), rng)
            acc = leaves[-1]
            empty = self._const("empty!" + t.sort().sexpr().replace(" ", "_"), rng)
            for lf in reversed(leaves[:-1]):
                new = self._uf("seq.++", [lf, acc], rng)(lf, acc)
                # unit laws for operands that only turn out to be empty by equational reasoning
                self.extra[new.get_id()] = z3.And(z3.Implies(acc == empty, new == lf), z3.Implies(lf == empty, new == acc))
                acc = new
            return acc
        ch = [self.tr(c) for c in t.children()]
        rng = self.sort(t.sort())
        if kind == z3.Z3_OP_DT_CONSTRUCTOR and t.sort() == self.V:
            c = self.cons[d.name()]
            return c(*ch) if ch else c()
        if kind == z3.Z3_OP_DT_ACCESSOR and d.domain(0) == self.V:
            return self.accs[d.name()](*ch)
        if kind in (z3.Z3_OP_DT_IS, z3.Z3_OP_DT_RECOGNISER) and d.domain(0) == self.V:
            cname = d.params()[0].name() if d.params() else d.name()
            return self.recs[cname](*ch)
        if kind in KINDS:
            if not ch:
                return self._const("empty!" + t.sort().sexpr().replace(" ", "_"), rng)
            r = self._uf(d.name(), ch, rng)(*ch)
            if kind == z3.Z3_OP_SEQ_LENGTH:
                self.len_terms[r.get_id()] = r
            return r
        if kind == z3.Z3_OP_UNINTERPRETED:
            if not ch:
                return self._const(d.name(), rng)
            return self._uf(d.name(), ch, rng)(*ch)
        if kind == z3.Z3_OP_EQ:
            return ch[0] == ch[1]
        if kind == z3.Z3_OP_DISTINCT:
            return z3.Distinct(*ch)
        if kind == z3.Z3_OP_ITE:
            return z3.If(ch[0], ch[1], ch[2])
        if not ch:
            if t.sort().kind() in (z3.Z3_BOOL_SORT, z3.Z3_INT_SORT, z3.Z3_REAL_SORT):
                return t  # true / false / numerals
            return self._const(d.name(), rng)
        if all(c.sort().kind() in (z3.Z3_BOOL_SORT, z3.Z3_INT_SORT, z3.Z3_REAL_SORT) for c in t.children()) and \
                t.sort().kind() in (z3.Z3_BOOL_SORT, z3.Z3_INT_SORT, z3.Z3_REAL_SORT):
            return d(*ch)  # connectives and arithmetic
        # anything else (internal sequence operators such as seq.nth_i, ...): uninterpreted
        r = self._uf(d.name(), ch, rng)(*ch)
        return r

    def run(self, forms):
        out = [self.tr(f) for f in forms]
        out += [ln >= 0 for ln in self.len_terms.values()]
        out += list(self.extra.values())
        lits = list(self.literals.values())
        if len(lits) > 1:
            out.append(z3.Distinct(*lits))
        return out
