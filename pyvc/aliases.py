"""C15: syntactic obligations on entry-point aliases (AST of /repo's current source)."""
import ast
from pathlib import Path


def alias_obligations(repo="/repo"):
    out = []
    pkg = Path(repo) / "jsonpath_rfc9535"
    q = ast.parse((pkg / "query.py").read_text())
    ok = False
    for n in q.body:
        if isinstance(n, ast.ClassDef) and n.name == "JSONPathQuery":
            for item in n.body:
                if (isinstance(item, ast.Assign) and len(item.targets) == 1 and isinstance(item.targets[0], ast.Name)
                        and item.targets[0].id == "apply" and isinstance(item.value, ast.Name) and item.value.id == "find"):
                    ok = True
            # a def apply(...) that only returns self.find(value) is also fine
            for item in n.body:
                if isinstance(item, ast.FunctionDef) and item.name == "apply":
                    body = [s for s in item.body if not (isinstance(s, ast.Expr) and isinstance(s.value, ast.Constant))]
                    if (len(body) == 1 and isinstance(body[0], ast.Return) and isinstance(body[0].value, ast.Call)
                            and ast.unparse(body[0].value.func) == "self.find" and len(body[0].value.args) == 1):
                        ok = True
    out.append({"id": "query:JSONPathQuery.apply/alias-of-find", "status": "ok" if ok else "violated"})
    m = ast.parse((pkg / "__init__.py").read_text())
    env_names = set()
    binds = {}
    for n in m.body:
        if isinstance(n, ast.Assign) and len(n.targets) == 1 and isinstance(n.targets[0], ast.Name):
            t, v = n.targets[0].id, n.value
            if isinstance(v, ast.Call) and ast.unparse(v.func) == "JSONPathEnvironment" and not v.args and not v.keywords:
                env_names.add(t)
            elif isinstance(v, ast.Attribute) and isinstance(v.value, ast.Name):
                binds.setdefault(t, []).append((v.value.id, v.attr))
            else:
                binds.setdefault(t, []).append((None, None))
    # a default environment must not be reconfigured at module level
    reconf = any(isinstance(n, (ast.Assign, ast.AugAssign)) and any(
        isinstance(t, ast.Attribute) and isinstance(t.value, ast.Name) and t.value.id in env_names
        for t in (n.targets if isinstance(n, ast.Assign) else [n.target])) for n in m.body)
    for name in ("compile", "find", "finditer", "find_one"):
        b = binds.get(name, [])
        good = len(b) == 1 and b[0][0] in env_names and b[0][1] == name and not reconf
        out.append({"id": f"__init__:{name}/bound-method-of-a-default-environment", "status": "ok" if good else "violated"})
    return out
