"""The spec functions of /verif/spec executed natively on the real compiled objects: the reference
semantics the bounded runners compare `find()` with (and the CPython cross-check of the proofs)."""
import sys
from pathlib import Path

sys.path.insert(0, str(Path(__file__).resolve().parent.parent))
sys.setrecursionlimit(20000)

from spec.prims import *  # noqa: F401,F403,E402
from spec import prims  # noqa: E402
from spec import rfc_select, rfc_filter, pysem  # noqa: E402

# the spec modules refer to each other's functions by bare name (pyvc resolves them globally)
_ns = {}
for _m in (prims, rfc_select, rfc_filter, pysem):
    for _k, _v in vars(_m).items():
        if not _k.startswith("__"):
            _ns.setdefault(_k, _v)
for _m in (rfc_select, rfc_filter, pysem):
    for _k, _v in _ns.items():
        if not hasattr(_m, _k):
            setattr(_m, _k, _v)

query_nodes = rfc_select.query_nodes
same = prims.same
as_node = prims.as_node


def expected_nodes(compiled, doc):
    return rfc_select.query_nodes(list(compiled.segments), doc)


def node_repr(n):
    return {"location": list(n.location), "value": n.value}
