"""Structured enumeration of RFC 9535 queries (DESIGN.md 2.7 (a)-(f)) and of near-miss strings.

A *skeleton* is a tuple of tokens.  A token is
  * a `str`                      - fixed text of the grammar (`$`, `[`, `&&`, ...);
  * `(cls, text)`                - a lexical slot of class `cls` currently holding `text`
                                   (cls in name / str / int / num / op / kw / fn);
  * `S`                          - a position where the grammar has optional blank space `S`.
`render(sk)` concatenates (S -> "").

Parts (each exhaustive within its own bound, the bound depends on the tier):
  (a) `token_skeletons`   - bounded expansion of the ABNF file itself (abnf.Grammar.expand), one
                            representative per lexical class, <= N tokens, filter nesting <= 2;
  (b) `selector_lists`    - every bracketed selection of <= L selectors over 17 representative selectors
                            (name, index +/-, wildcard, filter, 12 slice shapes) as child and descendant
                            segment; `segment_sequences` - sequences of <= K segments over 11 segments;
  (c) `expression_trees`  - every logical expression with <= N operators (&& || ! ()) over 10 atoms;
  (d) `function_calls`    - every built-in and probe function with every argument kind, nesting <= 2,
                            in every syntactic position (test, negated test, comparand, ...);
  (e) `lexical_variations`- in a skeleton, each lexical slot in turn runs through its full
                            representative list (linear, not a product);
  (f) `blank_variations`  - at each S position in turn each of " ", "\n", "\t", "\r", "  ".

Nothing here is trusted: every string is judged by `rfcvalid` before it is used as a "valid" query
(`judge_bases` / runners); ungrammatical output of a generator is dropped and counted.

Also: `neighbours(q)` (single deletions, adjacent transpositions, insertions and substitutions over
`ALPHABET`), `token_strings(k)`.
"""

from __future__ import annotations

import itertools
import os
from typing import Dict, Iterable, Iterator, List, Sequence, Tuple

from . import rfcvalid
from .rfcvalid import BUILTINS, LOGICAL, NODES, VALUE

S = ("S",)
Token = object
Skeleton = Tuple[Token, ...]

# probe functions (C05-style signatures the built-ins do not cover): registered in a separate environment
PROBES: Dict[str, Tuple[Tuple[str, ...], str]] = {
    "lg": ((LOGICAL,), LOGICAL),
    "nd": ((NODES,), NODES),
    "zl": ((), LOGICAL),
}
PROBE_REGISTRY = dict(BUILTINS)
PROBE_REGISTRY.update(PROBES)


def needs_probe(q: str) -> bool:
    return "lg(" in q or "nd(" in q or "zl(" in q


def registry_for(q: str):
    return PROBE_REGISTRY if needs_probe(q) else BUILTINS


# --------------------------------------------------------------------------------------------------
# representatives of the lexical classes
# --------------------------------------------------------------------------------------------------

BLANKS = [" ", "\n", "\t", "\r", "  "]

REPS: Dict[str, List[str]] = {
    # member-name-shorthand: one per minterm of name-first / name-char, incl. non-ASCII and astral,
    # and the keywords (which are ordinary names after a dot)
    "name": [
        "a", "Z", "_", "a1", "_0", "aB_9", "z_", "\u00e9", "\u0080", "\ud7ff", "\ue000", "\uffff",
        "\U00010000", "\U0001F600", "\U0010ffff", "a\U0001F600", "\U0001F600a", "\u00e99", "\u00809",
        "true", "null", "false", "length", "e1", "E", "and",
    ],
    # int (index, slice parts)
    "int": ["1", "0", "-1", "10", "2", "-10", "123456789", "9007199254740991", "-9007199254740991"],
    # number
    "num": [
        "1", "0", "-1", "10", "-0", "0.5", "-0.5", "1.0", "1.50", "0e1", "0E1", "1e2", "1E2", "1e+2", "1E+2",
        "1e-2", "1.0e-2", "-0e0", "-0.0", "0.0e+0", "1e02", "1e-0", "123.456", "-1.5E-3", "1.5e+10", "0.000",
        "9007199254740991", "-9007199254740991", "1e15", "1e400", "9007199254740993", "1e-400",
    ],
    # string-literal
    "str": [
        "'a'", '"a"', "''", '""', "'\"'", '"\'"', "'\\''", '"\\""', "'\\\\'", '"\\\\"', "'\\/'", "'/'",
        "'\\b\\f\\n\\r\\t'", '"\\b\\f\\n\\r\\t"', "'\\u0041'", "'\\u00e9'", "'\\u00E9'", "'\\uD83D\\uDE00'",
        "'\\ud83d\\ude00'", "'\\uDbFf\\uDfFf'", "'\\u0000'", "'\\u0001'", "'\\u001f'", "'\\u001F'", '"\\u0009"',
        "'\\u0020'", "'\\uD7FF'", "'\\uE000'", "'\\uFFFF'", "'\\uabcd'", "'\U0001F600'", "'\u00e9'", "' '", "'a b'",
        "'\u007f'", "'\U0010ffff'", "'\ud7ff\ue000'", "'[]'", "'$@.*,:?!&|=<>()'", "'a\\\\\\'b'", '"a\\\\\\"b"',
        "'\\\\u0041'", "'ab'", "'-'", "'0'", "'true'",
    ],
    "op": ["==", "!=", "<=", ">=", "<", ">"],
    "kw": ["true", "false", "null"],
}


def render(sk: Sequence[Token]) -> str:
    out = []
    for t in sk:
        if t is S or t == S:
            continue
        out.append(t if isinstance(t, str) else t[1])
    return "".join(out)


def is_slot(t: Token) -> bool:
    return isinstance(t, tuple) and len(t) == 2


def lexical_variations(sk: Skeleton) -> Iterator[str]:
    """(e) one slot at a time through its full representative list"""
    parts = ["" if (t == S) else (t if isinstance(t, str) else t[1]) for t in sk]
    for i, t in enumerate(sk):
        if is_slot(t) and t[0] in REPS:
            pre = "".join(parts[:i])
            post = "".join(parts[i + 1 :])
            for alt in REPS[t[0]]:
                if alt != t[1]:
                    yield pre + alt + post


def blank_variations(sk: Skeleton) -> Iterator[str]:
    """(f) one S position at a time"""
    parts = ["" if (t == S) else (t if isinstance(t, str) else t[1]) for t in sk]
    for i, t in enumerate(sk):
        if t == S:
            pre = "".join(parts[:i])
            post = "".join(parts[i + 1 :])
            for b in BLANKS:
                yield pre + b + post


# --------------------------------------------------------------------------------------------------
# (a) token skeletons, generated from the ABNF file
# --------------------------------------------------------------------------------------------------

_TERMINALS = {
    "S": [S],
    "member-name-shorthand": [("name", "a")],
    "string-literal": [("str", "'a'")],
    "int": [("int", "1")],
    "number": [("num", "1")],
    "comparison-op": [("op", "==")],
    "true": [("kw", "true")],
    "false": [],
    "null": [],
    "function-name": [],  # calls are covered by (d); with <= 9 tokens no built-in call is well-typed
}


def token_skeletons(max_tokens: int, nesting: int = 2) -> List[Skeleton]:
    g = rfcvalid.grammar()
    seqs = g.expand(
        "jsonpath-query",
        max_tokens,
        _TERMINALS,
        limits={"filter-selector": nesting},
        weight=lambda tok: 0 if tok == S else 1,
    )
    return sorted(seqs, key=lambda sk: (len(render(sk)), render(sk), len(sk)))


# --------------------------------------------------------------------------------------------------
# building blocks for (b) (c) (d)
# --------------------------------------------------------------------------------------------------


def _name(n: str = "a") -> Token:
    return ("name", n)


def q_rel(*segs: Sequence[Token]) -> List[Token]:
    out: List[Token] = ["@"]
    for s in segs:
        out.append(S)
        out.extend(s)
    return out


def q_abs(*segs: Sequence[Token]) -> List[Token]:
    out: List[Token] = ["$"]
    for s in segs:
        out.append(S)
        out.extend(s)
    return out


def seg_dot(n: str = "a") -> List[Token]:
    return [".", _name(n)]


def bracket(*selectors: Sequence[Token]) -> List[Token]:
    out: List[Token] = ["[", S]
    for i, sel in enumerate(selectors):
        if i:
            out.extend([S, ",", S])
        out.extend(sel)
    out.extend([S, "]"])
    return out


def sel_filter(expr: Sequence[Token]) -> List[Token]:
    return ["?", S] + list(expr)


def slice_shapes() -> List[List[Token]]:
    """[start S] ":" S [end S] [":" [S step]] - every way of omitting parts"""
    out = []
    for has_start, has_end, tail in itertools.product((False, True), (False, True), (0, 1, 2)):
        sk: List[Token] = []
        if has_start:
            sk += [("int", "1"), S]
        sk += [":", S]
        if has_end:
            sk += [("int", "2"), S]
        if tail >= 1:
            sk += [":"]
        if tail == 2:
            sk += [S, ("int", "3")]
        out.append(sk)
    return out


def selector_reps() -> List[List[Token]]:
    sels: List[List[Token]] = [
        [("str", "'a'")],
        [("int", "1")],
        [("int", "-1")],
        ["*"],
        sel_filter(q_rel(seg_dot("a"))),
    ]
    sels.extend(slice_shapes())
    return sels


def selector_lists(max_len: int) -> Iterator[Skeleton]:
    """(b) bracketed selections of <= max_len selectors, as child and as descendant segment"""
    sels = selector_reps()
    for n in range(1, max_len + 1):
        for combo in itertools.product(sels, repeat=n):
            b = bracket(*combo)
            yield tuple(["$", S] + b)
            yield tuple(["$", S, ".."] + b)


def segment_reps() -> List[List[Token]]:
    return [
        [".", _name("a")],
        [".", "*"],
        bracket([("str", "'a'")]),
        bracket([("int", "1")]),
        bracket(["*"]),
        ["..", _name("a")],
        ["..", "*"],
        [".."] + bracket([("int", "1")]),
        bracket(sel_filter(q_rel(seg_dot("a")))),
        bracket(slice_shapes()[7]),
        bracket([("str", "'a'")], [("int", "1")]),
    ]


def segment_sequences(max_len: int) -> Iterator[Skeleton]:
    segs = segment_reps()
    for n in range(0, max_len + 1):
        for combo in itertools.product(segs, repeat=n):
            out: List[Token] = ["$"]
            for s in combo:
                out.append(S)
                out.extend(s)
            yield tuple(out)


# ---- (c) expression trees -------------------------------------------------------------------------


def call(fn: str, *args: Sequence[Token]) -> List[Token]:
    out: List[Token] = [("fn", fn), "(", S]
    for i, a in enumerate(args):
        if i:
            out.extend([S, ",", S])
        out.extend(a)
    out.extend([S, ")"])
    return out


def cmp_(left: Sequence[Token], right: Sequence[Token], op: str = "==") -> List[Token]:
    return list(left) + [S, ("op", op), S] + list(right)


def test_atoms() -> List[List[Token]]:
    """atoms that may be negated (test-expr)"""
    return [
        q_rel(seg_dot("a")),
        q_abs(seg_dot("b")),
        q_rel(["..", _name("a")]),
        call("match", q_rel(seg_dot("a")), [("str", "'a'")]),
        call("nd", q_rel([".", "*"])),
    ]


def cmp_atoms() -> List[List[Token]]:
    return [
        cmp_(q_rel(seg_dot("a")), [("num", "1")]),
        cmp_([("str", "'a'")], q_rel(seg_dot("a")), "!="),
        cmp_(q_rel(seg_dot("a")), q_abs(seg_dot("b")), "<"),
        cmp_(call("length", q_rel(seg_dot("a"))), [("num", "1")], ">="),
        cmp_(q_rel(["[", ("str", "'a'"), "]"], ["[", ("int", "1"), "]"]), [("kw", "true")], "<="),
    ]


def expression_trees(max_ops: int) -> List[Skeleton]:
    """(c) every logical expression (as a token skeleton) with <= max_ops operators among
    && || ! ( ), following logical-or-expr / logical-and-expr / basic-expr."""
    tests = test_atoms()
    cmps = cmp_atoms()
    memo_b: Dict[int, List[List[Token]]] = {}
    memo_a: Dict[int, List[List[Token]]] = {}
    memo_o: Dict[int, List[List[Token]]] = {}

    def basic(n: int) -> List[List[Token]]:  # exactly n operators
        if n in memo_b:
            return memo_b[n]
        out: List[List[Token]] = []
        if n == 0:
            out.extend(tests)
            out.extend(cmps)
        if n == 1:
            out.extend([["!", S] + t for t in tests])
        if n >= 1:
            out.extend([["(", S] + e + [S, ")"] for e in or_(n - 1)])
        if n >= 2:
            out.extend([["!", S, "(", S] + e + [S, ")"] for e in or_(n - 2)])
        memo_b[n] = out
        return out

    def and_(n: int) -> List[List[Token]]:
        if n in memo_a:
            return memo_a[n]
        out = list(basic(n))
        for k in range(0, n):
            for left in basic(k):
                for right in and_(n - 1 - k):
                    out.append(left + [S, "&&", S] + right)
        memo_a[n] = out
        return out

    def or_(n: int) -> List[List[Token]]:
        if n in memo_o:
            return memo_o[n]
        out = list(and_(n))
        for k in range(0, n):
            for left in and_(k):
                for right in or_(n - 1 - k):
                    out.append(left + [S, "||", S] + right)
        memo_o[n] = out
        return out

    res: List[Skeleton] = []
    for n in range(0, max_ops + 1):
        for e in or_(n):
            res.append(tuple(["$"] + bracket(sel_filter(e))))
    return res


# ---- (d) function calls ----------------------------------------------------------------------------


def _arg_kinds() -> List[Tuple[str, List[Token]]]:
    a = q_rel(seg_dot("a"))
    return [
        ("lit-num", [("num", "1")]),
        ("lit-str", [("str", "'a'")]),
        ("lit-kw", [("kw", "true")]),
        ("q-current", ["@"]),
        ("q-root", ["$"]),
        ("q-rel-singular", a),
        ("q-abs-singular", q_abs(seg_dot("b"))),
        ("q-bracket-singular", q_rel(["[", ("str", "'a'"), "]"], ["[", ("int", "1"), "]"])),
        ("q-wild", q_rel([".", "*"])),
        ("q-desc", q_rel(["..", _name("a")])),
        ("q-slice", q_rel(bracket([":", S]))),
        ("q-filter", q_rel(bracket(sel_filter(q_rel(seg_dot("b")))))),
        ("l-cmp", cmp_(a, [("num", "1")])),
        ("l-litcmp", cmp_([("num", "1")], [("num", "1")])),
        ("l-not", ["!", S] + a),
        ("l-paren", ["(", S] + a + [S, ")"]),
        ("l-notparen", ["!", S, "(", S] + a + [S, ")"]),
        ("l-and", a + [S, "&&", S] + q_rel(seg_dot("b"))),
        ("l-or", a + [S, "||", S] + q_rel(seg_dot("b"))),
        ("l-parencmp", ["(", S] + cmp_(a, [("num", "1")]) + [S, ")"]),
    ]


_DEFAULT_ARG = {
    VALUE: q_rel(seg_dot("a")),
    NODES: q_rel([".", "*"]),
    LOGICAL: q_rel(seg_dot("a")),
}

_ALL_FUNCS = dict(PROBE_REGISTRY)


def _default_call(fn: str) -> List[Token]:
    params, _ = _ALL_FUNCS[fn]
    return call(fn, *[_DEFAULT_ARG[p] for p in params])


def _calls_level(level: int) -> List[Tuple[str, List[Token]]]:
    """(fn, call skeleton): each parameter position in turn runs through every argument kind
    (level 1: plain kinds + default calls; level 2: also the level-1 calls as arguments)."""
    out: List[Tuple[str, List[Token]]] = []
    kinds = [k for _, k in _arg_kinds()]
    defaults = [_default_call(f) for f in _ALL_FUNCS]
    args1 = kinds + defaults
    if level >= 2:
        args = args1 + [c for _, c in _calls_level(1)]
    else:
        args = args1
    for fn, (params, _res) in _ALL_FUNCS.items():
        if not params:
            out.append((fn, call(fn)))
            out.append((fn, call(fn, _DEFAULT_ARG[VALUE])))  # arity error
            continue
        for i in range(len(params)):
            for a in args:
                actual = [_DEFAULT_ARG[p] for p in params]
                actual[i] = a
                out.append((fn, call(fn, *actual)))
        if level == 1:
            # arity errors
            out.append((fn, call(fn)))
            out.append((fn, call(fn, *([_DEFAULT_ARG[p] for p in params] + [_DEFAULT_ARG[VALUE]]))))
            if len(params) > 1:
                out.append((fn, call(fn, _DEFAULT_ARG[params[0]])))
    return out


def function_calls(nesting: int) -> List[Skeleton]:
    """(d) calls in every syntactic position; most are ill-typed (useful to C04/C05), the oracle decides"""
    res: List[Skeleton] = []
    b = q_rel(seg_dot("b"))
    for level in range(1, nesting + 1):
        calls = _calls_level(level)
        if level == 1:
            contexts = [
                lambda c: c,
                lambda c: ["!", S] + c,
                lambda c: cmp_(c, [("num", "1")]),
                lambda c: cmp_([("num", "1")], c, "<"),
                lambda c: cmp_(c, b, "!="),
                lambda c: ["(", S] + c + [S, ")"],
                lambda c: c + [S, "&&", S] + b,
                lambda c: b + [S, "||", S] + c,
                lambda c: cmp_(c, c),
            ]
        else:
            contexts = [lambda c: c, lambda c: cmp_(c, [("num", "1")])]
        seen = set()
        for _fn, c in calls:
            key = render(c)
            if key in seen:
                continue
            seen.add(key)
            for ctx in contexts:
                res.append(tuple(["$"] + bracket(sel_filter(ctx(list(c))))))
    # unknown function
    res.append(tuple(["$"] + bracket(sel_filter(call("foo", q_rel(seg_dot("a")))))))
    res.append(tuple(["$"] + bracket(sel_filter(cmp_(call("foo", q_rel(seg_dot("a"))), [("num", "1")])))))
    return res


# --------------------------------------------------------------------------------------------------
# tiers
# --------------------------------------------------------------------------------------------------

TIERS = {
    "quick": dict(a_tokens=8, b_list=2, b_segs=2, c_ops=2, c_vary_ops=1, d_nest=2, d_vary_nest=1,
                  b_vary_list=2, nb_target=1_500_000, tok_k=4, tok_k_expr=5),
    "thorough": dict(a_tokens=10, b_list=3, b_segs=3, c_ops=3, c_vary_ops=2, d_nest=2, d_vary_nest=2,
                     b_vary_list=2, nb_target=20_000_000, tok_k=5, tok_k_expr=6),
}


def bases(tier: str) -> List[Tuple[str, Skeleton, bool]]:
    """All base skeletons of the tier: (part, skeleton, vary?) - deduplicated by rendered string + S layout.
    `vary` says whether (e)/(f) variations of this skeleton are part of the tier."""
    t = TIERS[tier]
    out: List[Tuple[str, Skeleton, bool]] = []
    seen = set()

    def add(part: str, sk: Skeleton, vary: bool) -> None:
        if sk in seen:
            return
        seen.add(sk)
        out.append((part, sk, vary))

    for sk in token_skeletons(t["a_tokens"]):
        add("a", tuple(sk), True)
    for sk in selector_lists(t["b_list"]):
        n_sel = 1 + sum(1 for x in sk if x == ",")
        add("b", sk, n_sel <= t["b_vary_list"])
    for sk in segment_sequences(t["b_segs"]):
        add("b", sk, True)
    for n in range(0, t["c_ops"] + 1):
        pass
    trees_vary = set(expression_trees(t["c_vary_ops"]))
    for sk in expression_trees(t["c_ops"]):
        add("c", sk, sk in trees_vary)
    calls_vary = set(function_calls(t["d_vary_nest"]))
    for sk in function_calls(t["d_nest"]):
        add("d", sk, sk in calls_vary)
    return out


def _judge_chunk(chunk) -> list:
    out = []
    for part, sk, vary in chunk:
        q = render(sk)
        cands = [(part, q)]
        if vary and rfcvalid.validity(q, registry_for(q)) == "valid":
            cands += [(part + "+e", s) for s in lexical_variations(sk)]
            cands += [(part + "+f", s) for s in blank_variations(sk)]
        for p, s in cands:
            out.append((p, s, rfcvalid.validity(s, registry_for(s))))
    return out


def judged_queries(tier: str) -> Iterator[Tuple[str, str, str]]:
    """(part, string, verdict) for every string of the tier's enumeration (a)-(f), oracle run in parallel.
    Variations are only taken of valid base skeletons.  May contain duplicates."""
    from . import _run

    bs = bases(tier)
    for res in _run.pool_map(_judge_chunk, _run.chunked(bs, _run.nprocs() * 8)):
        yield from res


def valid_queries(tier: str) -> List[str]:
    """The distinct strings of the tier's enumeration that the oracle confirms valid (generator bugs and
    ill-typed candidates are dropped here, never reported)."""
    seen = set()
    out = []
    for _p, s, v in judged_queries(tier):
        if v == "valid" and s not in seen:
            seen.add(s)
            out.append(s)
    return out


# --------------------------------------------------------------------------------------------------
# near-miss strings
# --------------------------------------------------------------------------------------------------

# 28 single characters of the query language + 4 near-tokens (inserted as units)
ALPHABET = list("$@.[]()?*,:'\"\\!=<>&|-+01ae_ ") + ["E"]
NEAR_TOKENS = ["&&", "||", "==", ".."]


def neighbours(q: str) -> set:
    """All strings at edit distance one from q over ALPHABET: single deletions, adjacent transpositions,
    single insertions and substitutions (plus insertion of the near-tokens).  q itself excluded."""
    out = set()
    n = len(q)
    for i in range(n):
        out.add(q[:i] + q[i + 1 :])
    for i in range(n - 1):
        if q[i] != q[i + 1]:
            out.add(q[:i] + q[i + 1] + q[i] + q[i + 2 :])
    for i in range(n + 1):
        pre, post = q[:i], q[i:]
        for a in ALPHABET:
            out.add(pre + a + post)
        for a in NEAR_TOKENS:
            out.add(pre + a + post)
    for i in range(n):
        pre, post = q[:i], q[i + 1 :]
        for a in ALPHABET:
            out.add(pre + a + post)
    out.discard(q)
    return out


LEXEMES = [
    "$", "@", ".", "..", "[", "]", "(", ")", "?", "*", ",", ":", "'a'", "a", "1", "-1", "-0", "01", "1.5",
    "true", "==", "<", "!", "&&", "||", "length", "count", "match", " ", "-",
]


# 16 lexemes of the filter-expression language (longer sequences than LEXEMES allow, inside `$[?..]`)
EXPR_LEXEMES = ["@", "$", ".a", "(", ")", "!", "==", "<", "&&", "||", "1", "'a'", "true", ",", "count(", "match("]


def token_strings(k: int, prefix: str = "$", suffix: str = "") -> Iterator[str]:
    """prefix + every sequence of <= k lexemes + suffix"""
    for n in range(0, k + 1):
        for combo in itertools.product(LEXEMES, repeat=n):
            yield prefix + "".join(combo) + suffix


def token_string_count(k: int) -> int:
    return sum(len(LEXEMES) ** n for n in range(0, k + 1))


def token_string_at(index: int, k: int) -> str:
    """the index-th sequence (without prefix/suffix) in the order of token_strings - lets workers
    enumerate disjoint index ranges without materialising anything"""
    base = len(LEXEMES)
    n = 0
    while index >= base**n:
        index -= base**n
        n += 1
    digits = []
    for _ in range(n):
        digits.append(index % base)
        index //= base
    return "".join(LEXEMES[d] for d in reversed(digits))


def designed_near_misses() -> List[str]:
    """Hand-written near-miss strings, one or more per category named in the C04 statement (the oracle
    still decides what each one is; a valid or unjudged entry is simply not a C04 case)."""
    base = [
        # the property's own examples
        "$.a-b", "$[1:2 3]", "$[?@.a==-01]", "$[?!!@.a]", "$[?(@.a)==1]", "$[?count(@.a,)==1]", "$[?@.a==(1)]",
        "$[?@.a==!1]", "$[?@.a==1==1]", "$[?!@.a==1]", "$[?!length(@.a)]", "$[?length(@.a) && @.b]",
        # misplaced blank space
        " $", "$ ", "$. a", "$ . a", "$.. a", "$.a .. b", "$[?@.a= =1]", "$[?@.a& &@.b]", "$[?@.a| |@.b]", "$[?length (@.a)==1]",
        "$[?@.a==1 e2]", "$[?@.a==1E 2]", "$[?@.a==- 1]", "$[- 1]", "$[?@.a==tr ue]", "$['a' 'b']", "$[1 2]", "$.a b", "$[?@. a]",
        "$[?@[ 'a' ]==1]", "$[?@[ 0 ]==1]", "$[?length(@[ 'a' ])==1]",
        # leading zeros, -0
        "$[01]", "$[-0]", "$[-01]", "$[00]", "$[01:]", "$[:01]", "$[::01]", "$[-0:]", "$[:-0]", "$[::-0]", "$[?@.a==01]", "$[?@.a==00]",
        "$[?@.a==-01]", "$[?@.a==01.5]", "$[?@.a==-01.5]", "$[?@.a==00.5]", "$[?@.a==01e1]", "$[?@.a==-01e1]", "$[?@.a==-00]",
        # malformed numbers
        "$[1.0]", "$[1e1]", "$[+1]", "$[?@.a==1.]", "$[?@.a==.1]", "$[?@.a==+1]", "$[?@.a==1e]", "$[?@.a==1e+]", "$[?@.a==1e-]",
        "$[?@.a==1.e1]", "$[?@.a==1.5.5]", "$[?@.a==1e1.5]", "$[?@.a==--1]", "$[?@.a==0x10]", "$[?@.a==1_0]", "$[?@.a==:1.5]",
        "$[?@.a==Infinity]", "$[?@.a==NaN]", "$[?@.a==1e1e1]",
        # malformed escapes / strings
        "$['\\x']", "$['\\a']", "$['\\u12']", "$['\\u123']", "$['\\u12G4']", "$['\\ud800']", "$['\\udc00']", "$['\\ud800\\u0041']",
        "$['\\ud800\\ud800']", "$['\\udc00\\ud800']", "$['\\U0041']", "$['\\\"']", "$[\"\\'\"]", "$['a]", "$['a", "$[\"a']", "$['\t']", "$['\x00']", "$['\x1f']",
        "$[\"\n\"]", "$['\\']", "$[?@.a=='\\x']", "$['\\ ']", "$['\\0']", "$['\\N']", "$['\\T']", "$['\\uD83D\\uDE0']",
        # doubled or dangling operators
        "$[?@.a===1]", "$[?@.a==]", "$[?==1]", "$[?@.a<>1]", "$[?@.a=1]", "$[?@.a=<1]", "$[?@.a=>1]", "$[?@.a!1]", "$[?@.a!]", "$[?!]",
        "$[?@.a && ]", "$[?&& @.a]", "$[?@.a &&& @.b]", "$[?@.a && && @.b]", "$[?@.a & @.b]", "$[?@.a | @.b]", "$[?@.a ||| @.b]",
        "$[?@.a and @.b]", "$[?@.a or @.b]", "$[?not @.a]", "$[?@.a==1==1]", "$[?@.a<1<2]", "$[?@.a && || @.b]", "$[?@.a!!=1]",
        # parenthesised / negated comparison operands
        "$[?(@.a)==1]", "$[?1==(@.a)]", "$[?(1)==@.a]", "$[?@.a==(1)]", "$[?((@.a))==1]", "$[?(@.a==1)==true]", "$[?(@.a && @.b)==1]",
        "$[?@.a==!1]", "$[?@.a==!@.b]", "$[?!@.a==1]", "$[?!1==@.a]", "$[?!(1)==1]", "$[?@.a==!(1)]", "$[?!1]", "$[?!'a']", "$[?!true]",
        "$[?!null]", "$[?(1)]", "$[?('a')]", "$[?(true)]", "$[?1]", "$[?'a']", "$[?true]", "$[?null]", "$[?@.a && 1]", "$[?1 || @.a]",
        "$[?@.a && !1]", "$[?@.a && (1)]", "$[?!(1)]", "$[?!!(@.a)]", "$[?! !@.a]",
        # trailing or missing commas and colons
        "$[1,]", "$[,1]", "$[,]", "$[1,,2]", "$['a',]", "$[*,]", "$[?@.a,]", "$[1 2]", "$[1:2:3:4]", "$[:::]", "$[1::2:3]", "$[1:2 3]",
        "$[1 :2 3]", "$[1:2-3]", "$[1 2:3]", "$[1-2]", "$[?count(@.a,)==1]", "$[?count(,@.a)==1]", "$[?count(@.a,,@.b)==1]",
        "$[?match(@.a 'a')]", "$[?match(@.a,'a',)]", "$[?match(@.a,,'a')]", "$[?match(,)]", "$[?length(,)==1]", "$[?zl(,)]",
        # unbalanced brackets
        "$[", "$]", "$[]", "$[[1]]", "$[1]]", "$[[1]", "$[?(@.a]", "$[?@.a)]", "$[?(@.a))]", "$[?((@.a)]", "$[?()]", "$[?count(@.a]",
        "$[?count(@.a)) == 1]", "$[?count((@.a) == 1]", "$[?@.a[0]", "$[?@[?@.a]", "$.a[", "$.a]", "$(", "$)", "$[(1)]", "$.(a)",
        # text before $ or after the last segment
        "a$", "$$", "@", "@.a", "a", "", "$a", "$.a$", "$.a@", "$.a!", "$.a=", "$.a.", "$.a..", "$.", "$..", "$...a", "$.a...b", "$.a,",
        "$.a:", "$.a?", "$.a*", "$.*a", "$.**", "$..**", "$[?@.a]x", "$[0]1", "$[0]'a'", "$.a 1", "$.a\n", "\n$.a", "$.a\t", "$.1", "$.-a",
        "$.1a", "$.&", "$.a&b", "$.a b", "$.'a'", "$.[0]", "$.[?@.a]", "$..[", "$..]", "$....", "$..['a'", "$.a[*", "$?@.a", "$[?@.a]]",
        # upper-case / misspelt keywords and function names
        "$[?@.a==True]", "$[?@.a==TRUE]", "$[?@.a==False]", "$[?@.a==FALSE]", "$[?@.a==Null]", "$[?@.a==NULL]", "$[?@.a==nil]",
        "$[?@.a==none]", "$[?@.a==truee]", "$[?@.a==nul]", "$[?@.a==null_]", "$[?@.a==truefalse]", "$[?LENGTH(@.a)==1]",
        "$[?Length(@.a)==1]", "$[?lengtH(@.a)==1]", "$[?l-x(@.a)==1]", "$[?1x(@.a)]", "$[?_x(@.a)]", "$[?length_(@.a)==1]",
        "$[?foo(@.a)]", "$[?length==1]", "$[?length]", "$[?count]", "$[?@.a==length]", "$[?MATCH(@.a,'a')]", "$[?true()]",
        # non-singular queries compared, ill-typed calls, integers out of range
        "$[?@.*==1]", "$[?@..a==1]", "$[?@[0,1]==1]", "$[?@[0:1]==1]", "$[?@[*]==1]", "$[?@[?@.a]==1]", "$[?1==@.*]", "$[?@.a==@.*]",
        "$[?length(@.*)==1]", "$[?count(1)==1]", "$[?count('a')==1]", "$[?match(@.a,'a')==true]", "$[?value(@.*)]", "$[?length(@.a)]",
        "$[?count(@.*)]", "$[?length(@.a,@.b)==1]", "$[?length()==1]", "$[?match(@.a)]", "$[?search(@.a)]", "$[?match()]",
        "$[?length(@.a==1)==1]", "$[?length(!@.a)==1]", "$[?length((@.a))==1]", "$[?count(@.a==1)==1]", "$[?count(value(@.*))==1]",
        "$[?length(match(@.a,'a'))==1]", "$[?match(@.*,'a')]", "$[?match(@.a,@.*)]", "$[?value(1)==1]", "$[?value(@.*)==@.*]",
        "$[9007199254740992]", "$[-9007199254740992]", "$[9007199254740992:]", "$[:9007199254740992]", "$[::9007199254740992]",
        "$[?$[9007199254740992]]", "$[?@[-9007199254740992]==1]", "$[99999999999999999999]",
    ]
    return base


# minimal queries embedding every representative of every lexical class (origins for neighbours)
def lexical_origins() -> List[str]:
    out = []
    for n in REPS["name"]:
        out.append("$." + n)
    for i in REPS["int"]:
        out.append("$[" + i + "]")
        out.append("$[" + i + ":]")
    for x in REPS["num"]:
        out.append("$[?@.a==" + x + "]")
    for s in REPS["str"]:
        out.append("$[" + s + "]")
        out.append("$[?@.a==" + s + "]")
    for o in REPS["op"]:
        out.append("$[?@.a" + o + "1]")
    for k in REPS["kw"]:
        out.append("$[?@.a==" + k + "]")
    return out


if __name__ == "__main__":
    import collections
    import sys
    import time

    tier = sys.argv[1] if len(sys.argv) > 1 else "quick"
    t0 = time.time()
    bs = bases(tier)
    c = collections.Counter(p for p, _, _ in bs)
    cv = collections.Counter(p for p, _, v in bs if v)
    print("bases", dict(c), "varied", dict(cv), "%.1fs" % (time.time() - t0))
    nv = sum(1 for p, sk, v in bs if v for _ in itertools.chain(lexical_variations(sk), blank_variations(sk)))
    print("variations of varied bases (before validity filtering)", nv)
