"""Shared helpers of the bounded runners: JSON document enumeration, parallel map, CLI."""
import argparse
import itertools
import json
import multiprocessing as mp
import os
import sys
import time
from pathlib import Path

sys.path.insert(0, str(Path(__file__).resolve().parent.parent))

LEAVES = [None, False, True, 0, 1, -1, 1.0, 0.5, "", "a", "b"]
KEYS = ["a", "b", ""]


def docs(n, leaves=LEAVES, keys=KEYS):
    """all JSON values with <= n nodes over the given leaves/keys (exhaustive)"""
    memo = {}

    def exact(k):  # values with exactly k nodes
        if k in memo:
            return memo[k]
        out = []
        if k == 1:
            out = list(leaves) + [[], {}]
        elif k > 1:
            # arrays: compositions of k-1 nodes into m >= 1 children
            for parts in compositions(k - 1):
                for kids in itertools.product(*[exact(p) for p in parts]):
                    out.append(list(kids))
                if len(parts) <= len(keys):
                    for ks in itertools.permutations(keys, len(parts)):
                        for kids in itertools.product(*[exact(p) for p in parts]):
                            out.append(dict(zip(ks, kids)))
        memo[k] = out
        return out

    res = []
    for k in range(1, n + 1):
        res.extend(exact(k))
    return res


def compositions(total):
    if total == 0:
        yield ()
        return
    for first in range(1, total + 1):
        for rest in compositions(total - first):
            yield (first,) + rest


def jsonable(x):
    try:
        json.dumps(x)
        return x
    except (TypeError, ValueError):
        return repr(x)


class Collector:
    def __init__(self, per_kind=40):
        self.v = {}
        self.per_kind = per_kind

    def add(self, kind, what, inp, expected=None, observed=None):
        lst = self.v.setdefault(kind, [])
        if len(lst) < self.per_kind:
            lst.append({"kind": kind, "what": what, "input": jsonable(inp), "expected": jsonable(expected), "observed": jsonable(observed)})

    def merge(self, other_list):
        for v in other_list:
            lst = self.v.setdefault(v["kind"], [])
            if len(lst) < self.per_kind:
                lst.append(v)

    def list(self):
        out = []
        for k in sorted(self.v):
            out.extend(sorted(self.v[k], key=lambda v: len(json.dumps(v["input"], default=str))))
        return out


def pmap(fn, chunks, procs=None):
    procs = procs or min(16, os.cpu_count() or 4)
    if len(chunks) <= 1 or procs <= 1:
        return [fn(c) for c in chunks]
    ctx = mp.get_context("fork")
    with ctx.Pool(procs) as pool:
        return pool.map(fn, chunks)


def chunked(seq, n):
    seq = list(seq)
    size = max(1, (len(seq) + n - 1) // n)
    return [seq[i:i + size] for i in range(0, len(seq), size)]


def main(run):
    ap = argparse.ArgumentParser()
    ap.add_argument("--tier", default="quick")
    ap.add_argument("--seed", type=int, default=int(os.environ.get("VERIF_SEED", "0")))
    a = ap.parse_args()
    t = time.time()
    r = run(a.tier, a.seed)
    r["wall_s"] = round(time.time() - t, 2)
    json.dump(r, sys.stdout, default=str)
    print()
