"""C16 refuter harness: independence of lazy result iterators under interleaving and threading.

Part 1 (exhaustive within the bound).  An *iterator spec* is (environment, query, document): two environments,
each with its own compiled query objects (two iterators with the same environment and query share ONE compiled
query object), several documents (two iterators with the same document key share ONE document object).
For every multiset of k <= 3 specs and every schedule (a word over the k iterators) of combined length
L = min(bound, total number of next() calls the iterators accept; bound 8, quick: 6): the iterators are created
up front, advanced in schedule order, and every item (location + value) or StopIteration each next() gives must
equal the item at the same position of the spec's SOLITARY run (computed in a forked process of its own on a fresh
environment with a freshly compiled query and a private copy of the document).  Every schedule is run in two variants:
`abandon` (the iterators are dropped where the schedule ends) and `exhaust` (they are then drained one after
the other and the remainders compared as well).  After each `abandon` schedule a fresh solitary iterator per
spec is run to completion on the shared objects (an abandoned iterator must not leave anything behind), and the
documents are compared with their snapshot.  The two environments are interchangeable, so one multiset per
orbit of the A<->B swap is run.

Part 2 (threads).  4 threads x 200 iterations with sys.setswitchinterval(1e-6): every iteration compiles a
query on ONE shared environment, evaluates it on shared documents (fully, and through a partially consumed
iterator), also through a compiled query object shared by all threads; results are compared with the
sequential ones.
"""
from __future__ import annotations

import argparse
import copy
import itertools
import json
import multiprocessing as mp
import os
import sys
import threading
import time
from pathlib import Path

sys.path.insert(0, str(Path(__file__).resolve().parent.parent))

from jsonpath_rfc9535 import JSONPathEnvironment  # noqa: E402

DOCS = {
    "d0": [{"a": [3, 1], "b": 3, "s": "ab"}, {"a": [2, [4]], "b": 1, "k": 1}, {"b": [4, {"b": 2}], "a": [7]}],
    "d1": {"k": 2, "x": [{"a": [3, 1], "b": 3}, {"a": [5], "b": 2}], "b": {"b": 1}, "a": [1, 2, 3]},
}
QUERIES = {
    "q_desc": "$..b",
    "q_filter": "$[?@.b > 0]",
    "q_nested_root": "$[?@.a[?@ > $[1].b]]",
    "q_desc_filter_root": "$..[?@.b == 2 || (@.b && @.b == $[1].b)]",
    "q_fn": "$[?count(@..*) > 2].a[*]",
}
QUICK_QUERIES = ["q_desc", "q_nested_root", "q_desc_filter_root", "q_fn"]
ENVS = ["A", "B"]
STOP = "<StopIteration>"


def item(n):
    return json.dumps([list(n.location), n.value])


def _solitary(qd):
    q, d = qd
    env = JSONPathEnvironment()
    try:
        return qd, [item(n) for n in env.compile(QUERIES[q]).finditer(copy.deepcopy(DOCS[d]))] + [STOP]
    except Exception as e:  # noqa: BLE001
        return qd, ["ERR:" + type(e).__name__]


def solitary_table(ctx=None):
    """Every solitary run in a process of its own that has evaluated nothing else."""
    ctx = ctx or mp.get_context("fork")
    with ctx.Pool(min(10, os.cpu_count() or 1), maxtasksperchild=1) as p:
        return dict(p.imap_unordered(_solitary, [(q, d) for q in QUERIES for d in DOCS], chunksize=1))


class World:
    """The shared objects of one worker process."""

    def __init__(self, sol):
        self.envs = {e: JSONPathEnvironment() for e in ENVS}
        self.compiled = {(e, q): self.envs[e].compile(t) for e in ENVS for q, t in QUERIES.items()}
        self.docs = {d: copy.deepcopy(v) for d, v in DOCS.items()}
        self.snap = {d: json.dumps(v) for d, v in self.docs.items()}
        self.sol = sol

    def new_iter(self, spec):
        e, q, d = spec
        return iter(self.compiled[(e, q)].finditer(self.docs[d]))


def step(it):
    try:
        return item(next(it))
    except StopIteration:
        return STOP
    except Exception as e:  # noqa: BLE001
        return "ERR:" + type(e).__name__


def schedules(limits, length):
    """All words of the given length over range(k) using iterator i at most limits[i] times."""
    k = len(limits)

    def rec(prefix, used):
        if len(prefix) == length:
            yield tuple(prefix)
            return
        for i in range(k):
            if used[i] < limits[i]:
                used[i] += 1
                prefix.append(i)
                yield from rec(prefix, used)
                prefix.pop()
                used[i] -= 1
    yield from rec([], [0] * k)


def violation(kind, specs, sched, variant, what, expected, observed):
    return {"kind": kind, "what": what,
            "input": {"iterators": [{"env": e, "query": QUERIES[q], "document": d} for e, q, d in specs],
                      "schedule": list(sched), "variant": variant},
            "expected": expected, "observed": observed}


def run_case(w, specs, sched, variant):
    """-> list of violations"""
    out = []
    its = [w.new_iter(s) for s in specs]
    pos = [0] * len(specs)
    done = [False] * len(specs)
    for i in sched:
        got = step(its[i])
        exp = w.sol[specs[i][1:]][pos[i]]
        if got != exp:
            kind = "c16-raises-" + got[4:] if got.startswith("ERR:") else "c16-interleaving-changes-result"
            out.append(violation(kind, specs, sched, variant, f"iterator {i}, its next() number {pos[i] + 1}", exp, got))
            return out
        pos[i] += 1
        done[i] = got == STOP
    if variant == "exhaust":
        for i in range(len(specs)):
            while not done[i]:
                got = step(its[i])
                exp = w.sol[specs[i][1:]][pos[i]]
                if got != exp:
                    kind = "c16-raises-" + got[4:] if got.startswith("ERR:") else "c16-interleaving-changes-result"
                    out.append(violation(kind, specs, sched, variant, f"iterator {i} while draining, next() number {pos[i] + 1}", exp, got))
                    return out
                pos[i] += 1
                done[i] = got == STOP
        return out        # everything was consumed and compared
    del its
    for s in set(specs):
        got = [item(n) for n in w.new_iter(s)] + [STOP]
        if got != w.sol[s[1:]]:
            out.append(violation("c16-abandoned-iterator-changes-later-run" if variant == "abandon" else "c16-interleaving-changes-later-run",
                                 specs, sched, variant, f"solitary run of {s} after the schedule", w.sol[s[1:]], got))
    for d in w.docs:
        if json.dumps(w.docs[d]) != w.snap[d]:
            out.append(violation("c16-document-mutated", specs, sched, variant, f"document {d}", w.snap[d], json.dumps(w.docs[d])))
            w.docs[d] = copy.deepcopy(DOCS[d])
    return out


_W = {}


def _worker(task):
    specs, bound = task
    w = _W.get("w")
    if w is None:
        w = _W["w"] = World(_W["sol"])
    limits = [len(w.sol[s[1:]]) for s in specs]
    length = min(bound, sum(limits))
    n = nontrivial = 0
    viol = []
    sample = None
    for sched in schedules(limits, length):
        distinct_its = len(set(sched)) > 1
        switches = sum(1 for a, b in zip(sched, sched[1:]) if a != b)
        for variant in ("abandon", "exhaust"):
            v = run_case(w, specs, sched, variant)
            n += 1
            if distinct_its and switches >= 2:
                nontrivial += 1
                if sample is None and switches >= 3:
                    sample = {"iterators": [list(s) for s in specs], "schedule": list(sched), "variant": variant}
            if v and len(viol) < 60:
                viol.extend(v[:2])
    return n, nontrivial, viol, sample


def spec_multisets(kmax, queries):
    """Multisets of specs, one representative per orbit of the symmetry that swaps the two environments."""
    specs = [(e, q, d) for e in ENVS for q in queries for d in DOCS]
    swap = {"A": "B", "B": "A"}
    for k in range(1, kmax + 1):
        for ms in itertools.combinations_with_replacement(specs, k):
            mirrored = tuple(sorted((swap[e], q, d) for e, q, d in ms))
            if tuple(sorted(ms)) <= mirrored:
                yield ms


# ------------------------------------------------------------------------------------------------
# threads
# ------------------------------------------------------------------------------------------------
def thread_part(sol, n_threads=4, iterations=200):
    env = JSONPathEnvironment()
    docs = {d: copy.deepcopy(v) for d, v in DOCS.items()}
    snap = {d: json.dumps(v) for d, v in docs.items()}
    shared = {q: env.compile(t) for q, t in QUERIES.items()}
    pairs = [(q, d) for q in QUERIES for d in DOCS]
    viol, count = [], [0]
    lock = threading.Lock()
    start = threading.Barrier(n_threads)

    def body(tid):
        start.wait()
        for i in range(iterations):
            q, d = pairs[(i + 3 * tid) % len(pairs)]
            exp = sol[(q, d)]
            try:
                c = env.compile(QUERIES[q])
                full = [item(n) for n in c.find(docs[d])] + [STOP]
                it = iter(c.finditer(docs[d]))
                half = [step(it) for _ in range(len(exp) // 2)]
                via_shared = [item(n) for n in shared[q].finditer(docs[d])] + [STOP]
                rest = []
                while not rest or rest[-1] != STOP:
                    rest.append(step(it))
                    if rest[-1].startswith("ERR:"):
                        break
                obs = {"find": full, "shared_compiled": via_shared, "partially_consumed": half + rest}
                bad = {k: v for k, v in obs.items() if v != exp}
                err = None
            except Exception as e:  # noqa: BLE001
                bad, err = {"raised": type(e).__name__}, type(e).__name__
            with lock:
                count[0] += 1
                if bad and len(viol) < 40:
                    viol.append({"kind": "c16-raises-" + err if err else "c16-thread-changes-result",
                                 "what": f"thread {tid}, iteration {i}: {sorted(bad)} differ from the sequential result",
                                 "input": {"query": QUERIES[q], "document": d, "threads": n_threads, "iterations": iterations},
                                 "expected": exp, "observed": bad})
    old = sys.getswitchinterval()
    sys.setswitchinterval(1e-6)
    try:
        ts = [threading.Thread(target=body, args=(t,)) for t in range(n_threads)]
        for t in ts:
            t.start()
        for t in ts:
            t.join()
    finally:
        sys.setswitchinterval(old)
    for d in docs:
        if json.dumps(docs[d]) != snap[d]:
            viol.append({"kind": "c16-document-mutated", "what": f"document {d} changed during the threaded run",
                         "input": {"document": d}, "expected": snap[d], "observed": json.dumps(docs[d])})
    return count[0], viol


def run(tier: str, seed: int) -> dict:
    t0 = time.time()
    bound = 6 if tier == "quick" else 8
    queries = QUICK_QUERIES if tier == "quick" else list(QUERIES)
    tasks = [(specs, bound) for specs in spec_multisets(3, queries)]
    tasks.sort(key=lambda t: -len(t[0]))
    evaluations = nontrivial = 0
    viol, samples = [], []
    ctx = mp.get_context("fork")
    _W["sol"] = sol = solitary_table(ctx)
    with ctx.Pool(min(16, os.cpu_count() or 1)) as pool:
        for n, nt, v, s in pool.imap_unordered(_worker, tasks, chunksize=8):
            evaluations += n
            nontrivial += nt
            viol.extend(v)
            if s and len(samples) < 400:
                samples.append(s)
    with ctx.Pool(1) as pool:                       # threads in a process of their own
        tn, tv = pool.apply(thread_part, (sol,))
    evaluations += tn
    viol.extend(tv)
    by_kind, seen = {}, set()
    for v in sorted(viol, key=lambda v: (len(v["input"].get("iterators", [])), len(v["input"].get("schedule", [])), json.dumps(v["input"]))):
        key = (v["kind"], json.dumps([(i["query"]) for i in v["input"].get("iterators", [])] or v["input"].get("query")))
        if key in seen:
            continue
        seen.add(key)
        lst = by_kind.setdefault(v["kind"], [])
        if len(lst) < 40:
            lst.append(v)
    samples = samples[:: max(1, len(samples) // 8)][:8]
    return {
        "evaluations": evaluations,
        "distinct_nontrivial": nontrivial,
        "rule": ("every multiset of k<=3 iterator specs (environment x query x document) x every schedule of combined length "
                 "min(bound, total next() calls) x {abandon, exhaust}; a case is non-trivial when the schedule advances at least "
                 "two different iterators and switches between iterators at least twice; plus one threaded run (4 x 200 iterations)"),
        "samples": samples,
        "bounds": {"k_max": 3, "combined_length": bound, "specs": len(ENVS) * len(queries) * len(DOCS),
                   "multisets_up_to_environment_swap": len(tasks),
                   "queries": {q: QUERIES[q] for q in queries}, "documents": list(DOCS), "environments": ENVS, "threads": 4, "thread_iterations": 200,
                   "switch_interval": 1e-6},
        "exhaustive": True,
        "unjudged": 0,
        "violations": [v for k in sorted(by_kind) for v in by_kind[k]],
        "seconds": round(time.time() - t0, 2),
    }


if __name__ == "__main__":
    ap = argparse.ArgumentParser()
    ap.add_argument("--tier", default="quick", choices=["quick", "thorough"])
    ap.add_argument("--seed", type=int, default=0)
    a = ap.parse_args()
    json.dump(run(a.tier, a.seed), sys.stdout, indent=1)
    sys.stdout.write("\n")
