"""RFC 9535 validity oracle: `validity(q, registry=None) -> "valid" | "invalid" | "unjudged"`.

Independent of the implementation under test.  Built from

* grammar membership: the generic ABNF recogniser (`abnf.py`) over `rfc9535.abnf` (DESIGN.md App. D);
* a *reference AST*: the derivation tree the same generic engine extracts (no hand-written JSONPath
  parser).  The tree is extracted from a copy of the grammar whose `function-argument` alternatives are
  reordered (literal / filter-query / function-expr / logical-expr - same language) so that the first
  derivation names the most specific form of an argument, which is what RFC 9535 section 2.4.3 types.
  Membership is always decided by the *unmodified* grammar and the two must agree (internal error
  otherwise);
* the validity rules on top of the grammar (RFC 9535 sections 2.1, 2.3.3, 2.3.4, 2.4.3):
  - every index and slice integer within [-(2**53)+1, 2**53-1];
  - function well-typedness against a registry name -> (parameter types, result type); unknown names
    are invalid; a call used as a test returns LogicalType or NodesType, a call used as a comparison
    operand returns ValueType; a ValueType parameter takes a literal, a singular query or a ValueType
    call; a NodesType parameter takes a query or a NodesType call; a LogicalType parameter takes any
    logical expression, a query, or a LogicalType/NodesType call.

Three-valued.  "unjudged" (App. D, last paragraph) is returned for
  * strings that are only derivable / only well-typed when blank space is allowed inside the brackets
    of a singular query (`@[ 'a' ] == 1`, `length(@[ 0 ])`): decided with a named relaxation of the
    grammar (`RELAX_SINGULAR_BLANKS`);
  * otherwise valid strings containing a number literal whose exact value lies outside the range in
    which integers are exactly representable, |v| > 2**53-1 (this includes 1e400).
"""

from __future__ import annotations

import os
from fractions import Fraction
from typing import Dict, Optional, Tuple

from .abnf import Grammar, Tree

__all__ = ["validity", "explain", "parse_tree", "judge_with", "parse_grammar", "BUILTINS", "VALUE", "LOGICAL", "NODES", "grammar", "OracleInternalError"]

VALUE, LOGICAL, NODES = "ValueType", "LogicalType", "NodesType"

BUILTINS: Dict[str, Tuple[Tuple[str, ...], str]] = {
    "length": ((VALUE,), VALUE),
    "count": ((NODES,), VALUE),
    "match": ((VALUE, VALUE), LOGICAL),
    "search": ((VALUE, VALUE), LOGICAL),
    "value": ((NODES,), VALUE),
}

INT_MIN = -(2**53) + 1
INT_MAX = 2**53 - 1

_HERE = os.path.dirname(os.path.abspath(__file__))

# same language, different preference among ambiguous derivations (see module docstring)
_REORDER = "function-argument = literal / filter-query / function-expr / logical-expr\n"

# named relaxation: blank space inside the brackets of a singular query
RELAX_SINGULAR_BLANKS = (
    'name-segment  = ("[" S name-selector S "]") / ("." member-name-shorthand)\n'
    'index-segment = "[" S index-selector S "]"\n'
)


class OracleInternalError(Exception):
    pass


_G: Optional[Grammar] = None
_GP: Optional[Grammar] = None
_GR: Optional[Grammar] = None


def grammar() -> Grammar:
    """The unmodified RFC 9535 grammar."""
    _load()
    return _G  # type: ignore[return-value]


def _load() -> None:
    global _G, _GP, _GR
    if _G is None:
        _G = Grammar.load(os.path.join(_HERE, "rfc9535.abnf"))
        _GP = _G.extended(_REORDER)
        _GR = _GP.extended(RELAX_SINGULAR_BLANKS)


class _Invalid(Exception):
    pass


def _number_out_of_range(text: str) -> bool:
    """|exact value| > 2**53-1"""
    t = text.lower()
    mant, _, ex = t.partition("e")
    e = int(ex) if ex else 0
    neg = mant.startswith("-")
    if neg:
        mant = mant[1:]
    ip, _, fp = mant.partition(".")
    digits = (ip + fp).lstrip("0")
    if not digits:
        return False
    e -= len(fp)
    # value = int(digits) * 10**e ; number of integer digits = len(digits) + e
    if len(digits) + e > 17:
        return True
    if len(digits) + e < 15:
        return False
    v = Fraction(int(digits)) * (Fraction(10) ** e)
    return v > INT_MAX


class _Judge:
    def __init__(self, g: Grammar, text: str, registry, bounds, relax=frozenset()) -> None:
        self.ses = g.session(text)
        self.registry = registry
        self.lo, self.hi = bounds
        self.big_number = False
        self.relax = relax  # named relaxations of the typing rules (used by classifiers only)

    def run(self) -> Optional[Tree]:
        tree = self.ses.parse("jsonpath-query")
        if tree is None:
            return None
        for n in tree.walk():
            nm = n.name
            if nm in ("index-selector", "start", "end", "step"):
                v = int(n.text)
                if not (self.lo <= v <= self.hi):
                    raise _Invalid("integer %s outside [%d, %d]" % (n.text, self.lo, self.hi))
            elif nm == "number":
                if _number_out_of_range(n.text):
                    self.big_number = True
        self.walk(tree)
        return tree

    # general walk: find function expressions and the syntactic position they are used in
    def walk(self, node: Tree) -> None:
        stack = [node]
        while stack:
            n = stack.pop()
            for k in n.kids:
                if k.name == "function-expr":
                    if n.name == "test-expr":
                        self.call(k, "test", None)
                    elif n.name == "comparable":
                        self.call(k, "comparable", None)
                    else:
                        raise OracleInternalError("function-expr under %s" % n.name)
                else:
                    stack.append(k)

    def call(self, node: Tree, ctx: str, param: Optional[str]) -> None:
        name = node.child("function-name").text  # type: ignore[union-attr]
        sig = self.registry.get(name)
        if sig is None:
            raise _Invalid("unknown function %s" % name)
        params, result = sig
        args = [k for k in node.kids if k.name == "function-argument"]
        if len(args) != len(params):
            raise _Invalid("%s() takes %d argument(s), %d given" % (name, len(params), len(args)))
        for a, p in zip(args, params):
            self.arg(name, a, p)
        if ctx == "test":
            if result not in (LOGICAL, NODES) and "value-function-as-test" not in self.relax:
                raise _Invalid("%s() returns %s and is used as a test expression" % (name, result))
        elif ctx == "comparable":
            if result != VALUE:
                raise _Invalid("%s() returns %s and is used as a comparison operand" % (name, result))
        else:
            if not (result == param or (param == LOGICAL and result == NODES)):
                raise _Invalid("%s() returns %s where a %s argument is required" % (name, result, param))

    def arg(self, fname: str, a: Tree, p: str) -> None:
        if len(a.kids) != 1:
            raise OracleInternalError("function-argument with %d children" % len(a.kids))
        k = a.kids[0]
        if k.name == "literal":
            if p != VALUE:
                raise _Invalid("literal %s given to the %s parameter of %s()" % (k.text, p, fname))
        elif k.name == "filter-query":
            if p == VALUE and not self.ses.span_matches("singular-query", k.start, k.end):
                raise _Invalid("non-singular query %s given to the ValueType parameter of %s()" % (k.text, fname))
            self.walk(k)
        elif k.name == "function-expr":
            self.call(k, "argument", p)
        elif k.name == "logical-expr":
            if p != LOGICAL:
                raise _Invalid("logical expression %s given to the %s parameter of %s()" % (k.text, p, fname))
            self.walk(k)
        else:
            raise OracleInternalError("function-argument child %s" % k.name)


def explain(q: str, registry=None, int_bounds: Tuple[int, int] = (INT_MIN, INT_MAX)) -> Tuple[str, str]:
    """(verdict, reason)"""
    _load()
    if registry is None:
        registry = BUILTINS
    in_grammar = _G.matches("jsonpath-query", q)  # type: ignore[union-attr]
    strict_reason = "not derivable from jsonpath-query"
    if in_grammar:
        j = _Judge(_GP, q, registry, int_bounds)  # type: ignore[arg-type]
        try:
            tree = j.run()
        except _Invalid as e:
            strict_reason = str(e)
        else:
            if tree is None:
                raise OracleInternalError("reordered grammar rejects a string of the language: %r" % q)
            if j.big_number:
                return "unjudged", "number literal outside the exactly representable range"
            return "valid", ""
    elif _GP.matches("jsonpath-query", q):  # type: ignore[union-attr]
        raise OracleInternalError("reordered grammar accepts a string outside the language: %r" % q)
    # strictly invalid: would the relaxation (blank space inside singular-query brackets) change that?
    j = _Judge(_GR, q, registry, int_bounds)  # type: ignore[arg-type]
    try:
        tree = j.run()
    except _Invalid:
        return "invalid", strict_reason
    if tree is None:
        return "invalid", strict_reason
    return "unjudged", "valid only if blank space is allowed inside the brackets of a singular query"


def judge_with(g: Grammar, q: str, registry=None, int_bounds: Tuple[int, int] = (INT_MIN, INT_MAX),
               relax=frozenset()) -> Tuple[str, str]:
    """Validity of q under another grammar `g` (an `extended()` copy of the reordered RFC grammar, see
    `parse_grammar()`) and optionally relaxed typing rules.  For classifiers: "which named relaxation of
    the RFC would make this string valid?".  Two-valued + reason; number ranges are not looked at."""
    if registry is None:
        registry = BUILTINS
    j = _Judge(g, q, registry, int_bounds, relax)
    try:
        tree = j.run()
    except _Invalid as e:
        return "invalid", str(e)
    if tree is None:
        return "invalid", "not derivable"
    return "valid", ""


def parse_grammar() -> Grammar:
    """The RFC grammar with `function-argument` alternatives reordered (same language): base of relaxations."""
    _load()
    return _GP  # type: ignore[return-value]


def parse_tree(q: str, relaxed: bool = False) -> Optional[Tree]:
    """The reference AST (derivation tree) of q, or None if q is not in the (relaxed) grammar."""
    _load()
    return (_GR if relaxed else _GP).parse("jsonpath-query", q)  # type: ignore[union-attr]


def validity(q: str, registry=None, int_bounds: Tuple[int, int] = (INT_MIN, INT_MAX)) -> str:
    return explain(q, registry, int_bounds)[0]


if __name__ == "__main__":
    import sys

    for s in sys.argv[1:]:
        print(repr(s), *explain(s))
