"""C08 - nodes carry exact locations and canonical, re-queryable normalized paths.

For every node returned by a set of queries on every document of a bounded family:
  * following node.location key by key from the document reaches the object that IS node.value;
  * every int in the location is >= 0 (and not a bool);
  * node.path() == strlit.normalized_path(node.location) and is a normalized path by the ABNF;
  * find(node.path(), doc) returns exactly one node, same location, identical value object;
  * nodelist.values()/paths()/items() agree with the nodes.
The oracle is bounded/strlit.py (RFC 9535 section 2.7, from the ABNF).
"""
from __future__ import annotations

import itertools
import sys
from pathlib import Path

sys.path.insert(0, str(Path(__file__).resolve().parent.parent))

from bounded import strlit  # noqa: E402
from bounded.common import main as _main  # noqa: E402
from bounded.common import pmap  # noqa: E402

PER_KIND = 40

NAMES = [
    "", "a", "'", '"', "\\", "\b", "\f", "\n", "\r", "\t", "\x00", "\x01", "\x1f", "\x7f",
    "\u2028", "\u00e9", "\U0001F600", "\\n", "1", "a'b\"c", "\u0000x\\u0000",
]

SWEEP_CHARS = [
    "'", '"', "\\", "/", "b", "f", "n", "r", "t", "u", "0", "a", "\b", "\f", "\n", "\r", "\t",
    "\x00", "\x01", "\x1f", "\x7f", "\u2028", "\u00e9", "\U0001F600",
]

FIXED_QUERIES = [
    "$", "$..*", "$.*", "$[*]", "$..[*]", "$..[-1]", "$..[::-1]", "$[-1]", "$[::-1]", "$..[-2:]",
    "$..[-1,0]", "$..[1::-1]", "$[-2]", "$..[-1:]", "$..[:-3:-1]", "$.*.*", "$..[-1][-1]", "$[*][::-1]",
]

# --------------------------------------------------------------------------------------
# documents: specs are picklable; build() makes fresh objects so that `is` means something


def compositions(total):
    if total == 0:
        yield ()
        return
    for first in range(1, total + 1):
        for rest in compositions(total - first):
            yield (first,) + rest


def shapes(k, memo={}):  # noqa: B006
    """Unnamed label-shapes with exactly k nodes: ('s',) | ('a', kids) | ('o', kids)."""
    if k in memo:
        return memo[k]
    out = []
    if k == 1:
        out = [("s",), ("a", ()), ("o", ())]
    else:
        for parts in compositions(k - 1):
            for kids in itertools.product(*[shapes(p) for p in parts]):
                out.append(("a", kids))
                out.append(("o", kids))
    memo[k] = out
    return out


def count_objects(shape):
    if shape[0] == "s":
        return 0
    return (1 if shape[0] == "o" and shape[1] else 0) + sum(count_objects(c) for c in shape[1])


def name_assignments_full(shape):
    """Every assignment of ordered distinct names to the members of every object."""
    if shape[0] == "s":
        yield shape
        return
    kids = shape[1]
    kid_options = [list(name_assignments_full(c)) for c in kids]
    for chosen in itertools.product(*kid_options):
        if shape[0] == "a":
            yield ("a", tuple(chosen))
        elif not kids:
            yield ("o", ())
        else:
            for names in itertools.permutations(NAMES, len(kids)):
                yield ("o", tuple(zip(names, chosen)))


def name_assignment_rotated(shape, base):
    """One assignment: the j-th object (preorder) takes a window of NAMES at base + 5j."""
    counter = [0]

    def go(s):
        if s[0] == "s":
            return s
        if s[0] == "a":
            return ("a", tuple(go(c) for c in s[1]))
        if not s[1]:
            return ("o", ())
        j = counter[0]
        counter[0] += 1
        off = base + 5 * j
        names = [NAMES[(off + 4 * i) % len(NAMES)] for i in range(len(s[1]))]
        return ("o", tuple((nm, go(c)) for nm, c in zip(names, s[1])))

    return go(shape)


def build(spec):
    if spec[0] == "s":
        return "".join(["le", "af"])  # equal values, distinct objects
    if spec[0] == "a":
        return [build(c) for c in spec[1]]
    return {nm: build(c) for nm, c in spec[1]}


def spec_names(spec, acc):
    if spec[0] == "a":
        for c in spec[1]:
            spec_names(c, acc)
    elif spec[0] == "o":
        for nm, c in spec[1]:
            if nm not in acc:
                acc.append(nm)
            spec_names(c, acc)
    return acc


def spec_json(spec):
    """JSON-serialisable rendering of a spec for reports (leaf -> 'leaf')."""
    if spec[0] == "s":
        return "leaf"
    if spec[0] == "a":
        return [spec_json(c) for c in spec[1]]
    return {nm: spec_json(c) for nm, c in spec[1]}


def enumerate_specs(tier):
    full_upto, max_nodes = (4, 6) if tier == "thorough" else (3, 5)
    specs = []
    for k in range(1, max_nodes + 1):
        for sh in shapes(k):
            if k <= full_upto:
                specs.extend(name_assignments_full(sh))
            elif count_objects(sh) == 0:
                specs.append(sh)
            else:
                seen = set()
                for base in range(len(NAMES)):
                    sp = name_assignment_rotated(sh, base)
                    if sp not in seen:
                        seen.add(sp)
                        specs.append(sp)
    return specs, full_upto, max_nodes


def sweep_specs(tier):
    maxlen = 3 if tier == "thorough" else 2
    out = []
    for n in range(1, maxlen + 1):
        for chars in itertools.product(SWEEP_CHARS, repeat=n):
            nm = "".join(chars)
            if nm in NAMES:
                continue
            out.append(("o", ((nm, ("a", (("s",),))),)))
    return out, maxlen


# --------------------------------------------------------------------------------------
# classification by what is visible in the location


def name_cause(location) -> str:
    names = [k for k in location if isinstance(k, str)]
    chars = set("".join(names))
    if any(ord(c) < 0x20 and c not in "\b\f\n\r\t" for c in chars):
        return "control-char-name"
    if any(c in "\b\f\n\r\t" for c in chars):
        return "named-escape-control-char-name"
    if "'" in chars:
        return "single-quote-name"
    if "\\" in chars:
        return "backslash-name"
    if '"' in chars:
        return "double-quote-name"
    if "\x7f" in chars:
        return "del-name"
    if "\u2028" in chars:
        return "u2028-name"
    if any(ord(c) > 0xFFFF for c in chars):
        return "astral-name"
    if any(ord(c) > 0x7F for c in chars):
        return "non-ascii-name"
    if "" in names:
        return "empty-name"
    if any(n.isdigit() for n in names):
        return "digit-name"
    if any(isinstance(k, int) and not isinstance(k, bool) and k < 0 for k in location):
        return "negative-index"
    return "plain"


def follow(doc, location):
    """(True, obj) or (False, reason)."""
    cur = doc
    for key in location:
        if isinstance(key, bool):
            return False, "bool key"
        if isinstance(key, str):
            if not isinstance(cur, dict) or key not in cur:
                return False, "no member %r" % key
            cur = cur[key]
        elif isinstance(key, int):
            if key < 0:
                return False, "negative index %d" % key
            if not isinstance(cur, list) or key >= len(cur):
                return False, "no element %d" % key
            cur = cur[key]
        else:
            return False, "key of type %s" % type(key).__name__
    return True, cur


# --------------------------------------------------------------------------------------


def _trim(viol):
    by = {}
    for v in viol:
        by.setdefault(v["kind"], []).append(v)
    out = []
    for k, vs in by.items():
        vs.sort(key=lambda v: (len(repr(v["input"])), repr(v["input"])))
        out.extend(vs[: PER_KIND * 2])
    return out


def _work(specs):
    import jsonpath_rfc9535 as jp

    compiled = {}

    def comp(q):
        if q not in compiled:
            try:
                compiled[q] = jp.compile(q)
            except jp.JSONPathError as e:
                compiled[q] = e
        return compiled[q]

    viol = []
    counts = {}
    evaluations = 0
    nontrivial = 0
    nodes_checked = 0
    unjudged = 0
    samples = []

    def report(kind, what, inp, expected, observed):
        counts[kind] = counts.get(kind, 0) + 1
        viol.append({"kind": kind, "what": what, "input": inp, "expected": expected, "observed": observed})

    for si, spec in enumerate(specs):
        doc = build(spec)
        queries = list(FIXED_QUERIES)
        for nm in spec_names(spec, []):
            queries.append("$[" + strlit.encode_literal(nm, "'") + "]")
            queries.append("$..[" + strlit.encode_literal(nm, '"') + "]")
            if len(compiled) > 5000:
                compiled.clear()
        requery_cache = {}
        for qtext in queries:
            q = comp(qtext)
            if isinstance(q, Exception):
                unjudged += 1  # a valid name-selector query refused: C03/C09's finding, nothing to check here
                continue
            evaluations += 1
            inp = {"document": spec_json(spec), "query": qtext}
            try:
                nodes = q.find(doc)
            except Exception as e:  # noqa: BLE001
                report("c08-find-raises-" + type(e).__name__, "find raised", inp, "a nodelist", str(e)[:100])
                continue
            if any(len(n.location) > 0 for n in nodes):
                nontrivial += 1
            # nodelist helpers
            try:
                vals, paths, items = nodes.values(), nodes.paths(), nodes.items()
                if len(vals) != len(nodes) or any(v is not n.value for v, n in zip(vals, nodes)):
                    report("c08-nodelist-values-disagree", "values() is not the nodes' value objects", inp, None, None)
                node_paths = [n.path() for n in nodes]
                if paths != node_paths:
                    report("c08-nodelist-paths-disagree", "paths() differs from [n.path()]", inp, node_paths, paths)
                if len(items) != len(nodes) or any(
                    (not isinstance(it, tuple)) or len(it) != 2 or it[0] != p or it[1] is not n.value
                    for it, p, n in zip(items, node_paths, nodes)
                ):
                    report("c08-nodelist-items-disagree", "items() differs from [(n.path(), n.value)]", inp, None, None)
            except Exception as e:  # noqa: BLE001
                report("c08-nodelist-helper-raises-" + type(e).__name__, "values/paths/items raised", inp, None, str(e)[:100])
            for node in nodes:
                nodes_checked += 1
                loc = node.location
                ninp = dict(inp, location=list(loc) if isinstance(loc, tuple) else repr(loc))
                if not isinstance(loc, tuple):
                    report("c08-location-wrong", "location is not a tuple", ninp, "tuple", type(loc).__name__)
                    continue
                ok, obj = follow(doc, loc)
                if not ok:
                    neg = any(isinstance(k, int) and not isinstance(k, bool) and k < 0 for k in loc)
                    report("c08-location-wrong" + ("-negative-index" if neg else ""),
                           "following the location from the root fails: " + str(obj), ninp, "a path into the document", list(loc))
                    continue
                if obj is not node.value:
                    report("c08-value-not-identical", "location leads to a different object than node.value", ninp,
                           "identity", {"equal": obj == node.value})
                    continue
                want = strlit.normalized_path(loc)
                try:
                    p = node.path()
                except Exception as e:  # noqa: BLE001
                    report("c08-path-raises-" + type(e).__name__, "path() raised", ninp, want, str(e)[:100])
                    continue
                cause = name_cause(loc)
                if p != want or not strlit.is_normalized_path(p):
                    # name the cause after the first key whose rendering deviates
                    for cut in range(1, len(loc) + 1):
                        if not isinstance(p, str) or not p.startswith(strlit.normalized_path(loc[:cut])):
                            cause = name_cause(loc[cut - 1 : cut])
                            break
                    report("c08-path-not-canonical-" + cause, "path() is not the normalized path of the location", ninp, want, p)
                    continue
                if p in requery_cache:
                    res = requery_cache[p]
                else:
                    try:
                        res = jp.find(p, doc)
                    except jp.JSONPathError as e:
                        res = e
                    except Exception as e:  # noqa: BLE001
                        res = e
                    requery_cache[p] = res
                if isinstance(res, Exception):
                    kind = "c08-path-not-requeryable-" + cause
                    report(kind, "the library rejects its own normalized path: %s: %s" % (type(res).__name__, str(res)[:80]),
                           dict(ninp, path=p), "exactly this node", "error")
                    continue
                if len(res) != 1 or res[0].location != loc:
                    report("c08-path-requery-wrong-node-" + cause, "re-querying the path does not return exactly this node",
                           dict(ninp, path=p), [list(loc)], [list(r.location) for r in res])
                    continue
                if res[0].value is not node.value:
                    report("c08-requery-value-not-identical", "re-query returns another object", dict(ninp, path=p), "identity", None)
                    continue
                if len(samples) < 2 and len(loc) >= 2 and si % 50 == 7:
                    samples.append({"document": spec_json(spec), "query": qtext, "location": list(loc), "path": p,
                                    "verdict": "location, identity, canonical path, re-query all hold"})
        if len(viol) > 3000:
            viol[:] = _trim(viol)
    return evaluations, nontrivial, nodes_checked, unjudged, _trim(viol), counts, samples


def run(tier: str, seed: int) -> dict:
    problems = list(strlit._selftest())
    if problems:
        raise RuntimeError("strlit oracle self-test failed: " + "; ".join(problems[:3]))
    specs, full_upto, max_nodes = enumerate_specs(tier)
    sweep, sweep_len = sweep_specs(tier)
    n_docs, n_sweep = len(specs), len(sweep)
    allspecs = specs + sweep
    # deterministic striping for load balance
    nchunks = 64
    chunks = [allspecs[i::nchunks] for i in range(nchunks)]
    chunks = [c for c in chunks if c]
    results = pmap(_work, chunks)
    viol, counts, samples = [], {}, []
    for r in results:
        viol.extend(r[4])
        for k, c in r[5].items():
            counts[k] = counts.get(k, 0) + c
        samples.extend(r[6])
    by = {}
    for v in viol:
        by.setdefault(v["kind"], []).append(v)
    violations = []
    for k in sorted(by):
        vs = sorted(by[k], key=lambda v: (len(repr(v["input"])), repr(v["input"])))
        violations.extend(vs[:PER_KIND])
    return {
        "evaluations": sum(r[0] for r in results),
        "distinct_nontrivial": sum(r[1] for r in results),
        "rule": (
            "A case is a (document, query) pair; all pairs are distinct.  Documents: every JSON value with <= N nodes "
            "(node = value incl. containers) built from arrays, objects, empty containers and one scalar leaf (equal but "
            "distinct string objects so that identity is observable); objects with <= F nodes in the document get EVERY "
            "ordered tuple of distinct member names from the 21-name alphabet (empty, a, ', \", \\, \\b \\f \\n \\r \\t, "
            "U+0000, U+0001, U+001F, DEL, U+2028, e-acute, U+1F600, the two characters backslash-n, '1', a'b\"c, "
            "NUL+x+literal \\u0000), larger documents get 21 rotations of name windows; plus the name sweep {name: [leaf]} "
            "for every name of <= L characters over 24 character classes.  Queries: 18 fixed ($, $..*, $.*, $[*], $..[*], "
            "negative indices and reverse/negative slices at child and descendant level) and, per member name of the "
            "document, $['lit'] and $..[\"lit\"] with the name as a correctly escaped literal.  Non-trivial = the query "
            "returns at least one node with a non-empty location.  For every node: follow(location) IS value, ints >= 0, "
            "path() == normalized_path(location) (RFC 9535 2.7, strlit.py) and matches the normalized-path ABNF, "
            "find(path(), doc) == exactly that node with the identical value, values()/paths()/items() agree."
        ),
        "samples": samples[:8],
        "bounds": {
            "tier": tier, "max_nodes": max_nodes, "full_name_product_upto_nodes": full_upto,
            "documents": n_docs, "name_sweep_documents": n_sweep, "name_sweep_max_len": sweep_len,
            "names": len(NAMES), "fixed_queries": len(FIXED_QUERIES),
            "nodes_checked": sum(r[2] for r in results),
            "violation_counts_by_kind": dict(sorted(counts.items())),
        },
        "exhaustive": True,
        "unjudged": sum(r[3] for r in results),
        "violations": violations,
    }


if __name__ == "__main__":
    _main(run)
