"""C03 (bounded): every enumerated VALID RFC 9535 query must compile.

Enumeration: qenum parts (a)-(f) for the tier; every string is judged by the independent oracle
(rfcvalid) first: only strings the oracle calls "valid" are cases, "unjudged" ones are counted and
skipped, "invalid" ones are generator output that is not a valid query (ill-typed calls of part (d) are
expected; ungrammatical ones are generator bugs) - dropped and counted, never reported.
"""

from __future__ import annotations

import re
import time
from typing import List, Tuple

from . import _run, qenum, rfcvalid

PROP = "c03"


# --------------------------------------------------------------------------------------------------
# classification of a refused valid query: ordered predicates on the input string (via its reference AST)
# --------------------------------------------------------------------------------------------------


# Each refused valid query gets exactly ONE kind: its minimal cause, found by cause isolation.
# 1. candidate features are read off the reference AST (predicates on the input);
# 2. every feature has a neutralising edit that keeps the query valid (astral name -> `a`, control-character
#    escape -> \\u0041, `0e1` -> `1`, `!` opening a function argument -> stripped, parentheses opening a
#    function argument -> unwrapped, a Logical/Nodes call given to a LogicalType parameter -> unwrapped to its
#    own argument, or the plain query `@.a` where that is not possible);
# 3. with ALL features neutralised the query must compile (otherwise the cause is unknown: unclassified);
# 4. the kind is the first feature (fixed order) that, left in place ALONE, still makes compile() refuse.
FEATURES = [
    "astral-shorthand-name",
    "control-char-escape",
    "number-0e1",
    "not-opening-function-argument",
    "paren-opening-function-argument",
    "logicaltype-call-as-logicaltype-argument",
    "nodestype-call-as-logicaltype-argument",
]


def feature_edits(q: str) -> dict:
    """feature -> [(start, end, replacement)] for the features present in q"""
    tree = rfcvalid.parse_tree(q)
    edits: dict = {}
    if tree is None:
        return edits
    reg = qenum.registry_for(q)
    for n in tree.walk():
        nm = n.name
        if nm == "member-name-shorthand":
            if any(ord(c) > 0xFFFF for c in n.text):
                edits.setdefault("astral-shorthand-name", []).append((n.start, n.end, "a"))
        elif nm == "escapable":
            e = n.text
            if e[0] == "u" and len(e) == 5 and int(e[1:5], 16) < 0x20:
                edits.setdefault("control-char-escape", []).append((n.start, n.end, "u0041"))
        elif nm == "number":
            if re.match(r"^0[eE]", n.text):
                edits.setdefault("number-0e1", []).append((n.start, n.end, "1"))
        elif nm == "function-argument":
            if n.text[:1] in ("!", "("):
                # the basic expression that opens the argument: strip its `!` / unwrap its parentheses
                first = next((k for k in n.walk() if k.name in ("paren-expr", "test-expr") and k.start == n.start), None)
                if first is not None and first.name == "paren-expr":
                    inner = first.child("logical-expr")
                    open_pos = first.start + first.text.index("(")
                    if first.text[0] == "!":  # `!( .. )` carries both features
                        edits.setdefault("not-opening-function-argument", []).append((first.start, open_pos, ""))
                    edits.setdefault("paren-opening-function-argument", []).extend(
                        [(open_pos, inner.start, ""), (inner.end, first.end, "")]
                    )
                elif first is not None and first.text[0] == "!":
                    body = first.kids[-1]
                    edits.setdefault("not-opening-function-argument", []).append((first.start, body.start, ""))
                else:
                    key = "not-opening-function-argument" if n.text[0] == "!" else "paren-opening-function-argument"
                    edits.setdefault(key, []).append((n.start, n.end, "@.a"))
        elif nm == "function-expr":
            sig = reg.get(n.child("function-name").text)
            if not sig:
                continue
            fargs = [k for k in n.kids if k.name == "function-argument"]
            for a, p in zip(fargs, sig[0]):
                k = a.kids[0]
                if p == rfcvalid.LOGICAL and k.name == "function-expr":
                    inner = reg.get(k.child("function-name").text)
                    iargs = [x for x in k.kids if x.name == "function-argument"]
                    # neutralise by unwrapping a one-argument call (keeps what is inside), else by `@.a`
                    if len(iargs) == 1:
                        ed = [(k.start, iargs[0].start, ""), (iargs[0].end, k.end, "")]
                    else:
                        ed = [(a.start, a.end, "@.a")]
                    if inner and inner[1] == rfcvalid.LOGICAL:
                        edits.setdefault("logicaltype-call-as-logicaltype-argument", []).extend(ed)
                    elif inner and inner[1] == rfcvalid.NODES:
                        edits.setdefault("nodestype-call-as-logicaltype-argument", []).extend(ed)
    return edits


def _apply(q: str, edits: dict, features) -> str:
    sel = sorted((e for f in features for e in edits[f]), key=lambda e: (e[0], -e[1]))
    keep = []
    last_end = -1
    for st, en, rep in sel:  # outermost edits win
        if st >= last_end:
            keep.append((st, en, rep))
            last_end = en
    out = q
    for st, en, rep in reversed(keep):
        out = out[:st] + rep + out[en:]
    return out


def _refused(s: str):
    """True / False, or None when the variant is not a valid query (inconclusive)"""
    if rfcvalid.validity(s, qenum.registry_for(s)) != "valid":
        return None
    comp, _tag = _run.compiler_for(s)
    try:
        comp(s)
    except BaseException:  # noqa: BLE001
        return True
    return False


def _neutralise(q: str, keep=None) -> str:
    """q with every known feature except `keep` neutralised (repeated: an edit may uncover a feature)"""
    for _ in range(4):
        edits = feature_edits(q)
        todo = [f for f in FEATURES if f in edits and f != keep]
        if not todo:
            break
        q2 = _apply(q, edits, todo)
        if q2 == q:
            break
        q = q2
    return q


def classify(q: str) -> str:
    present = [f for f in FEATURES if f in feature_edits(q)]
    if not present:
        return PROP + "-unclassified"
    if _refused(_neutralise(q)) is not False:
        return PROP + "-unclassified"  # still refused (or not valid) without any known feature
    for f in present:
        if _refused(_neutralise(q, keep=f)) is True:
            return "%s-refuses-%s" % (PROP, f)
    return PROP + "-unclassified"


# --------------------------------------------------------------------------------------------------
# worker
# --------------------------------------------------------------------------------------------------


def _check(q: str, part: str, st: dict) -> str:
    """judge q, and if valid run compile(); returns the verdict"""
    reg = qenum.registry_for(q)
    verdict, reason = rfcvalid.explain(q, reg)
    if verdict == "unjudged":
        st["unjudged"] += 1
        return verdict
    if verdict == "invalid":
        if rfcvalid.grammar().matches("jsonpath-query", q):
            st["dropped_illtyped_or_range"] += 1
        else:
            st["dropped_ungrammatical"] += 1
            if len(st["dropped_examples"]) < 20:
                st["dropped_examples"].append([part, q])
        return verdict
    d = _run.digest(q)
    if d in st["seen"]:
        return verdict
    st["seen"].add(d)
    st["valid_by_part"][part] = st["valid_by_part"].get(part, 0) + 1
    comp, tag = _run.compiler_for(q)
    st["evaluations"] += 1
    if len(st["samples"]) < 3 or (st["evaluations"] % 997 == 0 and len(st["samples"]) < 12):
        st["samples"].append({"query": q, "part": part, "registry": tag})
    try:
        comp(q)
    except BaseException as e:  # noqa: BLE001
        import jsonpath_rfc9535

        kind = classify(q)
        st["viol"].add(
            kind,
            "valid query refused by compile()",
            {"query": q, "registry": tag, "part": part},
            "compile() returns",
            "%s: %s" % (type(e).__name__, _safe_str(e))
            + ("" if isinstance(e, jsonpath_rfc9535.JSONPathError) else " [not a JSONPathError]"),
        )
    return verdict


def _safe_str(e: BaseException) -> str:
    try:
        return str(e)[:200]
    except BaseException as e2:  # noqa: BLE001
        return "<str() failed: %s>" % type(e2).__name__


def _new_state() -> dict:
    return {
        "evaluations": 0,
        "unjudged": 0,
        "dropped_illtyped_or_range": 0,
        "dropped_ungrammatical": 0,
        "dropped_examples": [],
        "seen": set(),
        "valid_by_part": {},
        "samples": [],
        "viol": _run.Violations(),
    }


def _prelude():
    """Before any valid query: compile a few thousand REJECTED strings on the very environments the valid
    queries will use (the property holds for every valid string whatever was compiled before; a parser
    that accumulates state on failed compiles would start refusing valid input)."""
    import jsonpath_rfc9535 as jp

    bad = list(qenum.designed_near_misses())
    nested = ["$[?(" * k + "@.a" for k in range(1, 6)] + ["$[?((@.a) && (@.b)", "$[?(@.a == 1) && ((@.b)", "$[?!(@.a", "$[?(@.a))]", "$[?lg((@.a)]"]
    envs = [jp.DEFAULT_ENV]
    try:
        envs.append(_run.probe_env())
    except Exception:  # noqa: BLE001
        pass
    n = 0
    for _ in range(60):
        for q in bad + nested:
            for env in envs:
                try:
                    env.compile(q)
                except Exception:  # noqa: BLE001
                    pass
                n += 1
    return n


def _worker(chunk) -> dict:
    st = _new_state()
    if not getattr(_worker, "_prelude_done", False):
        _worker._prelude_done = True
        st["evaluations"] += 0 * _prelude()
    for part, sk, vary in chunk:
        q = qenum.render(sk)
        v = _check(q, part, st)
        if v != "valid" or not vary:
            continue
        for s in qenum.lexical_variations(sk):
            _check(s, part + "+e", st)
        for s in qenum.blank_variations(sk):
            _check(s, part + "+f", st)
    st["viol"] = st["viol"].dump()
    st["seen"] = b"".join(sorted(st["seen"]))
    return st


def enumerate_and_check(tier: str) -> dict:
    """Runs the whole enumeration; returns merged state (also used by c04/c13 to obtain the valid set)."""
    bs = qenum.bases(tier)
    # lexical origins are (minimal) valid queries too
    res = _run.pool_map(_worker, _run.chunked(bs, _run.nprocs() * 8))
    return _merge(res, len(bs))


def _merge(res: List[dict], n_bases: int) -> dict:
    tot = _new_state()
    seen = set()
    dup = 0
    for r in res:
        for k in ("evaluations", "unjudged", "dropped_illtyped_or_range", "dropped_ungrammatical"):
            tot[k] += r[k]
        tot["dropped_examples"].extend(r["dropped_examples"])
        blob = r["seen"]
        for i in range(0, len(blob), 8):
            d = blob[i : i + 8]
            if d in seen:
                dup += 1
            seen.add(d)
        for p, n in r["valid_by_part"].items():
            tot["valid_by_part"][p] = tot["valid_by_part"].get(p, 0) + n
        tot["samples"].extend(r["samples"])
        tot["viol"].merge(r["viol"])
    tot["distinct"] = len(seen)
    tot["duplicates_across_workers"] = dup
    tot["n_bases"] = n_bases
    tot["seen"] = None
    return tot


def run(tier: str, seed: int) -> dict:
    t0 = time.time()
    tot = enumerate_and_check(tier)
    t = qenum.TIERS[tier]
    samples = sorted(tot["samples"], key=lambda s: (len(s["query"]), s["query"]))
    step = max(1, len(samples) // 8)
    return {
        "evaluations": tot["evaluations"],
        "distinct_nontrivial": tot["distinct"],
        "rule": "structured enumeration qenum (a)-(f) of RFC 9535 queries; a case is a distinct string that the "
        "independent oracle (ABNF recogniser + validity rules) judges valid; every such string is non-trivial "
        "(it exercises compile() on a member of the language); duplicates are removed per worker, "
        "distinct_nontrivial is the number of distinct valid strings over all workers",
        "samples": samples[::step][:10],
        "bounds": {
            "tier": tier,
            "token_skeleton_tokens": t["a_tokens"],
            "selector_list_len": t["b_list"],
            "segment_sequence_len": t["b_segs"],
            "expression_operators": t["c_ops"],
            "expression_operators_with_variations": t["c_vary_ops"],
            "call_nesting": t["d_nest"],
            "call_nesting_with_variations": t["d_vary_nest"],
            "base_skeletons": tot["n_bases"],
            "valid_by_part": tot["valid_by_part"],
            "dropped_illtyped_or_out_of_range": tot["dropped_illtyped_or_range"],
            "dropped_ungrammatical_generator_output": tot["dropped_ungrammatical"],
            "dropped_examples": tot["dropped_examples"][:10],
            "duplicate_evaluations_across_workers": tot["duplicates_across_workers"],
            "violation_totals": tot["viol"].totals,
            "wall_seconds": round(time.time() - t0, 1),
        },
        "exhaustive": True,
        "unjudged": tot["unjudged"],
        "violations": tot["viol"].final(),
    }


if __name__ == "__main__":
    _run.main(run)
