"""C03 (bounded): every enumerated VALID RFC 9535 query must compile.

Enumeration: qenum parts (a)-(f) for the tier; every string is judged by the independent oracle
(rfcvalid) first: only strings the oracle calls "valid" are cases, "unjudged" ones are counted and
skipped, "invalid" ones are generator output that is not a valid query (ill-typed calls of part (d) are
expected; ungrammatical ones are generator bugs) - dropped and counted, never reported.
"""

from __future__ import annotations

import re
import time
from typing import List, Tuple

from . import _run, qenum, rfcvalid

PROP = "c03"


# --------------------------------------------------------------------------------------------------
# classification of a refused valid query: ordered predicates on the input string (via its reference AST)
# --------------------------------------------------------------------------------------------------


def _escapes_of(tree) -> List[str]:
    return [n.text for n in tree.walk() if n.name == "escapable"]


def causes(q: str) -> List[str]:
    """All known refusal causes visible in q (each a predicate on q's reference AST), in a fixed order."""
    tree = rfcvalid.parse_tree(q)
    if tree is None:  # cannot happen for a string the oracle called valid
        return []
    out: List[str] = []
    names = [n.text for n in tree.walk() if n.name == "member-name-shorthand"]
    if any(any(ord(c) > 0xFFFF for c in nm) for nm in names):
        out.append("astral-shorthand-name")
    for e in _escapes_of(tree):
        if e[0] == "u" and len(e) == 5 and int(e[1:5], 16) < 0x20:
            out.append("control-char-escape")
            break
    numbers = [n.text for n in tree.walk() if n.name == "number"]
    if any(re.match(r"^0[eE]", x) for x in numbers):
        out.append("number-0e1")
    args = [n for n in tree.walk() if n.name == "function-argument"]
    if any(a.text[:1] == "!" for a in args):
        out.append("not-opening-function-argument")
    if any(a.text[:1] == "(" for a in args):
        out.append("paren-opening-function-argument")
    reg = qenum.registry_for(q)
    typed = set()
    for fe in (n for n in tree.walk() if n.name == "function-expr"):
        fname = fe.child("function-name").text
        sig = reg.get(fname)
        if not sig:
            continue
        fargs = [k for k in fe.kids if k.name == "function-argument"]
        for a, p in zip(fargs, sig[0]):
            k = a.kids[0]
            if p == rfcvalid.LOGICAL and k.name == "function-expr":
                inner = reg.get(k.child("function-name").text)
                if inner and inner[1] == rfcvalid.LOGICAL:
                    typed.add("logicaltype-call-as-logicaltype-argument")
                if inner and inner[1] == rfcvalid.NODES:
                    typed.add("nodestype-call-as-logicaltype-argument")
    out.extend(sorted(typed))
    return out


def classify(q: str) -> str:
    """Kind of a refused valid query: the known causes present in q joined by '+' (a query exhibiting two
    causes is its own class, so that fixing one cause does not re-label the survivors)."""
    cs = causes(q)
    if not cs:
        return PROP + "-unclassified"
    return PROP + "-refuses-" + "+".join(cs)


# --------------------------------------------------------------------------------------------------
# worker
# --------------------------------------------------------------------------------------------------


def _check(q: str, part: str, st: dict) -> str:
    """judge q, and if valid run compile(); returns the verdict"""
    reg = qenum.registry_for(q)
    verdict, reason = rfcvalid.explain(q, reg)
    if verdict == "unjudged":
        st["unjudged"] += 1
        return verdict
    if verdict == "invalid":
        if rfcvalid.grammar().matches("jsonpath-query", q):
            st["dropped_illtyped_or_range"] += 1
        else:
            st["dropped_ungrammatical"] += 1
            if len(st["dropped_examples"]) < 20:
                st["dropped_examples"].append([part, q])
        return verdict
    d = _run.digest(q)
    if d in st["seen"]:
        return verdict
    st["seen"].add(d)
    st["valid_by_part"][part] = st["valid_by_part"].get(part, 0) + 1
    comp, tag = _run.compiler_for(q)
    st["evaluations"] += 1
    if len(st["samples"]) < 3 or (st["evaluations"] % 997 == 0 and len(st["samples"]) < 12):
        st["samples"].append({"query": q, "part": part, "registry": tag})
    try:
        comp(q)
    except BaseException as e:  # noqa: BLE001
        import jsonpath_rfc9535

        kind = classify(q)
        st["viol"].add(
            kind,
            "valid query refused by compile()",
            {"query": q, "registry": tag, "part": part},
            "compile() returns",
            "%s: %s" % (type(e).__name__, _safe_str(e))
            + ("" if isinstance(e, jsonpath_rfc9535.JSONPathError) else " [not a JSONPathError]"),
        )
    return verdict


def _safe_str(e: BaseException) -> str:
    try:
        return str(e)[:200]
    except BaseException as e2:  # noqa: BLE001
        return "<str() failed: %s>" % type(e2).__name__


def _new_state() -> dict:
    return {
        "evaluations": 0,
        "unjudged": 0,
        "dropped_illtyped_or_range": 0,
        "dropped_ungrammatical": 0,
        "dropped_examples": [],
        "seen": set(),
        "valid_by_part": {},
        "samples": [],
        "viol": _run.Violations(),
    }


def _worker(chunk) -> dict:
    st = _new_state()
    for part, sk, vary in chunk:
        q = qenum.render(sk)
        v = _check(q, part, st)
        if v != "valid" or not vary:
            continue
        for s in qenum.lexical_variations(sk):
            _check(s, part + "+e", st)
        for s in qenum.blank_variations(sk):
            _check(s, part + "+f", st)
    st["viol"] = st["viol"].dump()
    st["seen"] = b"".join(sorted(st["seen"]))
    return st


def enumerate_and_check(tier: str) -> dict:
    """Runs the whole enumeration; returns merged state (also used by c04/c13 to obtain the valid set)."""
    bs = qenum.bases(tier)
    # lexical origins are (minimal) valid queries too
    res = _run.pool_map(_worker, _run.chunked(bs, _run.nprocs() * 8))
    return _merge(res, len(bs))


def _merge(res: List[dict], n_bases: int) -> dict:
    tot = _new_state()
    seen = set()
    dup = 0
    for r in res:
        for k in ("evaluations", "unjudged", "dropped_illtyped_or_range", "dropped_ungrammatical"):
            tot[k] += r[k]
        tot["dropped_examples"].extend(r["dropped_examples"])
        blob = r["seen"]
        for i in range(0, len(blob), 8):
            d = blob[i : i + 8]
            if d in seen:
                dup += 1
            seen.add(d)
        for p, n in r["valid_by_part"].items():
            tot["valid_by_part"][p] = tot["valid_by_part"].get(p, 0) + n
        tot["samples"].extend(r["samples"])
        tot["viol"].merge(r["viol"])
    tot["distinct"] = len(seen)
    tot["duplicates_across_workers"] = dup
    tot["n_bases"] = n_bases
    tot["seen"] = None
    return tot


def run(tier: str, seed: int) -> dict:
    t0 = time.time()
    tot = enumerate_and_check(tier)
    t = qenum.TIERS[tier]
    samples = sorted(tot["samples"], key=lambda s: (len(s["query"]), s["query"]))
    step = max(1, len(samples) // 8)
    return {
        "evaluations": tot["evaluations"],
        "distinct_nontrivial": tot["distinct"],
        "rule": "structured enumeration qenum (a)-(f) of RFC 9535 queries; a case is a distinct string that the "
        "independent oracle (ABNF recogniser + validity rules) judges valid; every such string is non-trivial "
        "(it exercises compile() on a member of the language); duplicates are removed per worker, "
        "distinct_nontrivial is the number of distinct valid strings over all workers",
        "samples": samples[::step][:10],
        "bounds": {
            "tier": tier,
            "token_skeleton_tokens": t["a_tokens"],
            "selector_list_len": t["b_list"],
            "segment_sequence_len": t["b_segs"],
            "expression_operators": t["c_ops"],
            "expression_operators_with_variations": t["c_vary_ops"],
            "call_nesting": t["d_nest"],
            "call_nesting_with_variations": t["d_vary_nest"],
            "base_skeletons": tot["n_bases"],
            "valid_by_part": tot["valid_by_part"],
            "dropped_illtyped_or_out_of_range": tot["dropped_illtyped_or_range"],
            "dropped_ungrammatical_generator_output": tot["dropped_ungrammatical"],
            "dropped_examples": tot["dropped_examples"][:10],
            "duplicate_evaluations_across_workers": tot["duplicates_across_workers"],
            "violation_totals": tot["viol"].totals,
            "wall_seconds": round(time.time() - t0, 1),
        },
        "exhaustive": True,
        "unjudged": tot["unjudged"],
        "violations": tot["viol"].final(),
    }


if __name__ == "__main__":
    _run.main(run)
