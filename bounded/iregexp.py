"""Reference I-Regexp (RFC 9485) implementation, independent of any regex library.

* ``parse(pattern)`` follows the ABNF transcribed in DESIGN.md Appendix D and returns
  an AST (nested tuples) or ``None`` when the string is outside the grammar.
* ``matches(pattern, s)`` / ``contains(pattern, s)`` decide whole-string / substring
  membership by Brzozowski derivatives (no backtracking, no host regex engine).

Semantics (RFC 9485 section 5 / RFC 9535 section 2.4.6-7, as transcribed in
DESIGN.md App. D): ``.`` matches any character except LF and CR; a negated class
matches every character not listed (so LF and CR too unless excluded); class contents
are literal; ``\\p{..}``/``\\P{..}`` by Unicode general category
(``unicodedata.category``); characters are Unicode scalar values (a Python ``str``
element), so an astral character is one character.

AST (what ``parse`` returns):
    ("alt", [branch, ...])      one or more branches
    ("cat", [piece, ...])       zero or more pieces
    ("rep", atom, lo, hi)       hi is None for "unbounded"
    ("set", negated, items)     items: ("c", ch) | ("r", lo_ch, hi_ch) | ("p", cat, complemented)
    ("group", regexp)
``.`` is ("set", True, (("c","\\n"),("c","\\r"))), a literal is ("set", False, (("c",ch),)).
"""

from __future__ import annotations

import unicodedata
from typing import Dict
from typing import List
from typing import Optional
from typing import Tuple

# --------------------------------------------------------------------------- grammar


def _in(cp: int, ranges: Tuple[Tuple[int, int], ...]) -> bool:
    for lo, hi in ranges:
        if lo <= cp <= hi:
            return True
    return False


# NormalChar = %x00-27 / "," / "-" / %x2F-3E / %x40-5A / %x5E-7A / %x7E-D7FF / %xE000-10FFFF
_NORMAL = (
    (0x00, 0x27),
    (0x2C, 0x2C),
    (0x2D, 0x2D),
    (0x2F, 0x3E),
    (0x40, 0x5A),
    (0x5E, 0x7A),
    (0x7E, 0xD7FF),
    (0xE000, 0x10FFFF),
)
# CCchar (unescaped part) = %x00-2C / %x2E-5A / %x5E-D7FF / %xE000-10FFFF
_CCCHAR = ((0x00, 0x2C), (0x2E, 0x5A), (0x5E, 0xD7FF), (0xE000, 0x10FFFF))
# SingleCharEsc = "\" ( %x28-2B / "-" / "." / "?" / %x5B-5E / %s"n" / %s"r" / %s"t" / %x7B-7D )
_ESC_LITERAL = set("()*+-.?[\\]^{|}")
_ESC_NAMED = {"n": "\n", "r": "\r", "t": "\t"}

_CATEGORIES = {
    "L": "lmotu",
    "M": "cen",
    "N": "dlo",
    "P": "cdefios",
    "Z": "lps",
    "S": "ckmo",
    "C": "cfno",
}

DOT = ("set", True, (("c", "\n"), ("c", "\r")))


def is_normal_char(ch: str) -> bool:
    return _in(ord(ch), _NORMAL)


def is_cc_char(ch: str) -> bool:
    return _in(ord(ch), _CCCHAR)


class _Parser:
    def __init__(self, text: str) -> None:
        self.t = text
        self.i = 0
        self.n = len(text)

    def peek(self) -> str:
        return self.t[self.i] if self.i < self.n else ""

    # i-regexp = branch *( "|" branch )
    def regexp(self):  # noqa: ANN201
        branches = [self.branch()]
        while self.peek() == "|":
            self.i += 1
            branches.append(self.branch())
        return ("alt", branches)

    # branch = *piece
    def branch(self):  # noqa: ANN201
        pieces = []
        while True:
            atom = self.atom()
            if atom is None:
                break
            pieces.append(self.quantified(atom))
        return ("cat", pieces)

    # piece = atom [ quantifier ]
    def quantified(self, atom):  # noqa: ANN001, ANN201
        ch = self.peek()
        if ch == "*":
            self.i += 1
            return ("rep", atom, 0, None)
        if ch == "+":
            self.i += 1
            return ("rep", atom, 1, None)
        if ch == "?":
            self.i += 1
            return ("rep", atom, 0, 1)
        if ch == "{":
            # range-quantifier = "{" QuantExact [ "," [ QuantExact ] ] "}"
            self.i += 1
            lo = self.quant_exact()
            hi: Optional[int] = lo
            if self.peek() == ",":
                self.i += 1
                if self.peek() == "}":
                    hi = None
                else:
                    hi = self.quant_exact()
            if self.peek() != "}":
                raise _Bad
            self.i += 1
            return ("rep", atom, lo, hi)
        return atom

    def quant_exact(self) -> int:
        j = self.i
        while j < self.n and "0" <= self.t[j] <= "9":
            j += 1
        if j == self.i:
            raise _Bad
        val = int(self.t[self.i : j])
        self.i = j
        return val

    # atom = NormalChar / charClass / ( "(" i-regexp ")" )
    def atom(self):  # noqa: ANN201
        ch = self.peek()
        if ch == "":
            return None
        if ch == "(":
            self.i += 1
            inner = self.regexp()
            if self.peek() != ")":
                raise _Bad
            self.i += 1
            return ("group", inner)
        if ch == ".":
            self.i += 1
            return DOT
        if ch == "\\":
            item = self.escape()
            return ("set", False, (item,))
        if ch == "[":
            return self.class_expr()
        if ch in "|)":
            return None  # ends the branch; the caller decides whether it is legal
        if is_normal_char(ch):
            self.i += 1
            return ("set", False, (("c", ch),))
        raise _Bad  # * + ? { } ] or a surrogate

    def escape(self):  # noqa: ANN201
        """SingleCharEsc or charClassEsc at self.i (which is a backslash)."""
        if self.i + 1 >= self.n:
            raise _Bad
        ch = self.t[self.i + 1]
        if ch in _ESC_LITERAL:
            self.i += 2
            return ("c", ch)
        if ch in _ESC_NAMED:
            self.i += 2
            return ("c", _ESC_NAMED[ch])
        if ch in "pP":
            # catEsc = %s"\p{" charProp "}" ; complEsc = %s"\P{" charProp "}"
            if self.t[self.i + 2 : self.i + 3] != "{":
                raise _Bad
            end = self.t.find("}", self.i + 3)
            if end < 0:
                raise _Bad
            prop = self.t[self.i + 3 : end]
            if not (
                1 <= len(prop) <= 2
                and prop[0] in _CATEGORIES
                and (len(prop) == 1 or prop[1] in _CATEGORIES[prop[0]])
            ):
                raise _Bad
            self.i = end + 1
            return ("p", prop, ch == "P")
        raise _Bad

    def cc_char(self) -> Optional[str]:
        """CCchar at self.i, or None (position unchanged) if there is none."""
        ch = self.peek()
        if ch == "":
            return None
        if ch == "\\":
            if self.i + 1 < self.n and self.t[self.i + 1] in "pP":
                return None
            item = self.escape()
            return item[1]
        if is_cc_char(ch):
            self.i += 1
            return ch
        return None

    # charClassExpr = "[" [ "^" ] ( "-" / CCE1 ) *CCE1 [ "-" ] "]"
    # CCE1 = ( CCchar [ "-" CCchar ] ) / charClassEsc
    def class_expr(self):  # noqa: ANN201
        self.i += 1  # "["
        negated = False
        if self.peek() == "^":
            negated = True
            self.i += 1
        items: List[tuple] = []
        if self.peek() == "-":
            self.i += 1
            items.append(("c", "-"))
        else:
            item = self.cce1()
            if item is None:
                raise _Bad
            items.append(item)
        while True:
            item = self.cce1()
            if item is None:
                break
            items.append(item)
        if self.peek() == "-":
            self.i += 1
            items.append(("c", "-"))
        if self.peek() != "]":
            raise _Bad
        self.i += 1
        return ("set", negated, tuple(items))

    def cce1(self):  # noqa: ANN201
        if self.peek() == "\\" and self.i + 1 < self.n and self.t[self.i + 1] in "pP":
            return self.escape()
        lo = self.cc_char()
        if lo is None:
            return None
        if self.peek() == "-":
            save = self.i
            self.i += 1
            hi = self.cc_char()
            if hi is not None:
                return ("r", lo, hi)
            self.i = save
        return ("c", lo)


class _Bad(Exception):
    pass


def parse(pattern: str):  # noqa: ANN201
    """Return the AST of _pattern_, or None if it is not an I-Regexp."""
    if not isinstance(pattern, str):
        return None
    for ch in pattern:
        if 0xD800 <= ord(ch) <= 0xDFFF:
            return None
    p = _Parser(pattern)
    try:
        ast = p.regexp()
    except _Bad:
        return None
    if p.i != p.n:
        return None
    return ast


def has_reversed_range_or_quantifier(ast) -> bool:  # noqa: ANN001
    """Grammar-valid but semantically undefined: [b-a], a{2,1}."""
    tag = ast[0]
    if tag == "alt" or tag == "cat":
        return any(has_reversed_range_or_quantifier(x) for x in ast[1])
    if tag == "group":
        return has_reversed_range_or_quantifier(ast[1])
    if tag == "rep":
        if ast[3] is not None and ast[3] < ast[2]:
            return True
        return has_reversed_range_or_quantifier(ast[1])
    if tag == "set":
        return any(it[0] == "r" and it[1] > it[2] for it in ast[2])
    raise AssertionError(tag)


# --------------------------------------------------------------------------- derivatives


class _Node:
    __slots__ = ("tag", "a", "b", "lo", "hi", "nullable", "d")


_INTERN: Dict[tuple, _Node] = {}


def clear_cache() -> None:
    """Forget all interned automaton states (call between patterns to bound memory)."""
    _INTERN.clear()
    _PATTERNS.clear()
    for n in (NULL, EPS, ANY, ANYSTAR):
        n.d = {}
        _INTERN[_key_of[id(n)]] = n


_key_of: Dict[int, tuple] = {}


def _mk(key: tuple, tag: str, a=None, b=None, lo=0, hi=None, nullable=False) -> _Node:  # noqa: ANN001
    node = _INTERN.get(key)
    if node is None:
        node = _Node()
        node.tag = tag
        node.a = a
        node.b = b
        node.lo = lo
        node.hi = hi
        node.nullable = nullable
        node.d = {}
        _INTERN[key] = node
    return node


NULL = _mk(("null",), "null")
EPS = _mk(("eps",), "eps", nullable=True)


def _set(negated: bool, items: tuple) -> _Node:
    return _mk(("set", negated, items), "set", a=negated, b=items)


def _cat(x: _Node, y: _Node) -> _Node:
    if x is NULL or y is NULL:
        return NULL
    if x is EPS:
        return y
    if y is EPS:
        return x
    if x.tag == "cat":  # right-associate
        return _cat(x.a, _cat(x.b, y))
    return _mk(("cat", id(x), id(y)), "cat", a=x, b=y, nullable=x.nullable and y.nullable)


def _alt(x: _Node, y: _Node) -> _Node:
    if x is y or y is NULL:
        return x
    if x is NULL:
        return y
    members: Dict[int, _Node] = {}
    for z in (x, y):
        if z.tag == "alt":
            for m in z.a:
                members[id(m)] = m
        else:
            members[id(z)] = z
    if len(members) == 1:
        return next(iter(members.values()))
    ids = tuple(sorted(members))
    return _mk(
        ("alt", ids),
        "alt",
        a=tuple(members[i] for i in ids),
        nullable=any(m.nullable for m in members.values()),
    )


def _star(x: _Node) -> _Node:
    if x is NULL or x is EPS:
        return EPS
    if x.tag == "star":
        return x
    return _mk(("star", id(x)), "star", a=x, nullable=True)


def _rep(x: _Node, lo: int, hi: Optional[int]) -> _Node:
    if hi is not None and hi < lo:
        return NULL
    if hi == 0:
        return EPS
    if x is NULL:
        return EPS if lo == 0 else NULL
    if x is EPS:
        return EPS
    if hi is None and lo == 0:
        return _star(x)
    if lo == 1 and hi == 1:
        return x
    return _mk(("rep", id(x), lo, hi), "rep", a=x, lo=lo, hi=hi, nullable=lo == 0 or x.nullable)


ANY = _set(True, ())
ANYSTAR = _star(ANY)
for _n, _k in ((NULL, ("null",)), (EPS, ("eps",)), (ANY, ("set", True, ())), (ANYSTAR, ("star", id(ANY)))):
    _key_of[id(_n)] = _k


def item_contains(item: tuple, ch: str) -> bool:
    kind = item[0]
    if kind == "c":
        return ch == item[1]
    if kind == "r":
        return item[1] <= ch <= item[2]
    # ("p", category, complemented)
    cat = unicodedata.category(ch)
    prop = item[1]
    inside = cat == prop if len(prop) == 2 else cat[0] == prop
    return inside != item[2]


def set_contains(negated: bool, items: tuple, ch: str) -> bool:
    for item in items:
        if item_contains(item, ch):
            return not negated
    return negated


def _deriv(node: _Node, ch: str) -> _Node:
    got = node.d.get(ch)
    if got is not None:
        return got
    tag = node.tag
    if tag == "null" or tag == "eps":
        res = NULL
    elif tag == "set":
        res = EPS if set_contains(node.a, node.b, ch) else NULL
    elif tag == "cat":
        res = _cat(_deriv(node.a, ch), node.b)
        if node.a.nullable:
            res = _alt(res, _deriv(node.b, ch))
    elif tag == "alt":
        res = NULL
        for m in node.a:
            res = _alt(res, _deriv(m, ch))
    elif tag == "star":
        res = _cat(_deriv(node.a, ch), node)
    elif tag == "rep":
        lo = node.lo - 1 if node.lo > 0 else 0
        hi = None if node.hi is None else node.hi - 1
        res = _cat(_deriv(node.a, ch), _rep(node.a, lo, hi))
    else:
        raise AssertionError(tag)
    node.d[ch] = res
    return res


def build(ast) -> _Node:  # noqa: ANN001
    """AST -> automaton state."""
    tag = ast[0]
    if tag == "alt":
        res = NULL
        for b in ast[1]:
            res = _alt(res, build(b))
        return res
    if tag == "cat":
        res = EPS
        for p in reversed(ast[1]):
            res = _cat(build(p), res)
        return res
    if tag == "rep":
        return _rep(build(ast[1]), ast[2], ast[3])
    if tag == "group":
        return build(ast[1])
    if tag == "set":
        return _set(ast[1], ast[2])
    raise AssertionError(tag)


_PATTERNS: Dict[str, Optional[Tuple[_Node, _Node]]] = {}


def compile_pattern(pattern: str) -> Optional[Tuple[_Node, _Node]]:
    """(whole-string automaton, substring automaton) or None for a non-I-Regexp."""
    if pattern in _PATTERNS:
        return _PATTERNS[pattern]
    ast = parse(pattern)
    if ast is None:
        res = None
    else:
        whole = build(ast)
        res = (whole, _cat(ANYSTAR, _cat(whole, ANYSTAR)))
    if len(_PATTERNS) > 256:
        _PATTERNS.clear()
    _PATTERNS[pattern] = res
    return res


def step(state: _Node, ch: str) -> _Node:
    return _deriv(state, ch)


def accepts(state: _Node, s: str) -> bool:
    for ch in s:
        state = _deriv(state, ch)
        if state is NULL:
            return False
    return state.nullable


def matches(pattern: str, s: str) -> bool:
    """The whole of _s_ is in the language of _pattern_ (False for a non-I-Regexp)."""
    c = compile_pattern(pattern)
    if c is None or not isinstance(s, str):
        return False
    return accepts(c[0], s)


def contains(pattern: str, s: str) -> bool:
    """Some substring of _s_ is in the language of _pattern_ (False for a non-I-Regexp)."""
    c = compile_pattern(pattern)
    if c is None or not isinstance(s, str):
        return False
    return accepts(c[1], s)


def _selftest() -> None:
    ok = {
        "": [("", True, True), ("a", False, True)],
        "a": [("a", True, True), ("ba", False, True), ("", False, False)],
        "a|": [("", True, True), ("a", True, True), ("b", False, True)],
        "()": [("", True, True)],
        ".": [("a", True, True), ("\n", False, False), ("\r", False, False), (" ", True, True), ("\U0001f600", True, True)],
        "[^a]": [("\n", True, True), ("a", False, False), ("\U0001f600", True, True)],
        "[a&&b]": [("&", True, True), ("a", True, True), ("c", False, False)],
        "[--]": [("-", True, True)],
        "[a-]": [("-", True, True), ("a", True, True)],
        "[a-c]": [("b", True, True), ("d", False, False)],
        "\\p{L}": [("a", True, True), ("1", False, False)],
        "\\P{Nd}": [("a", True, True), ("1", False, False)],
        "[\\p{L}1]": [("1", True, True), ("a", True, True), ("-", False, False)],
        "a{2}": [("aa", True, True), ("aaa", False, True), ("a", False, False)],
        "a{1,2}b": [("ab", True, True), ("aab", True, True), ("aaab", False, True), ("b", False, False)],
        "a{2,}": [("aaaa", True, True), ("a", False, False)],
        "(a|b)*": [("abba", True, True), ("abc", False, True)],
        "(a*)*b": [("aaab", True, True), ("aaa", False, False)],
        "(a?){3}": [("aa", True, True), ("aaaa", False, True)],
        "\\.\\|\\[": [(".|[", True, True), ("a|[", False, False)],
        "\\n": [("\n", True, True)],
    }
    for p, cases in ok.items():
        assert parse(p) is not None, p
        for s, m, c in cases:
            assert matches(p, s) is m, (p, s, "match")
            assert contains(p, s) is c, (p, s, "search")
    for p in ["a**", "a*?", "[", "]", "{", "}", "a{,2}", "[]", "[^]", "[a--b]", "[a-b-c]", "[[a]]", "[[]", "\\d", "\\$", "\\/", "(", ")", "a)", "\\p{Xx}", "\\p{IsBasicLatin}", "[a-\\p{L}]", "[\\p{L}-a]", "\\", "\\p", "\\p{L", "a{1", "a{1,2", "(?:a)", "[--a]", "\ud800"]:
        assert parse(p) is None, p
    for p in ["[-]", "[--]", "[-a]", "[a-]", "[^-a]", "[a-b-]", "[\\p{L}-]", "[a\\-b]", "^", "$", "\\^", ",", "a{1,}", "[^^]", "[a^]", "[\\]]", "[\\[]", "[.]", "[|&~]"]:
        assert parse(p) is not None, p


if __name__ == "__main__":
    _selftest()
    print("iregexp selftest ok")
