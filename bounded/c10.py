"""C10 bounded tie-in: length/count/value and the function-call type conversions. Probe functions of
every signature with <= 2 parameters record what they receive; compared with the RFC conversions
(spec.rfc_filter.conv_arg) computed by the reference semantics on the same compiled query."""
import itertools

import jsonpath_rfc9535 as jp
from jsonpath_rfc9535.function_extensions import ExpressionType as T
from jsonpath_rfc9535.function_extensions import FilterFunction

from bounded import refsem
from bounded.common import Collector, chunked, main, pmap

LOG = []
TN = {T.VALUE: "v", T.LOGICAL: "l", T.NODES: "n"}


def make_probe(args, ret):
    class Probe(FilterFunction):
        arg_types = list(args)
        return_type = ret

        def __call__(self, *a):
            LOG.append((self.name, tuple(_freeze(x) for x in a)))
            if ret == T.VALUE:
                return len(a)
            if ret == T.LOGICAL:
                return True
            return jp.JSONPathNodeList(x for x in a if False) if not a or not isinstance(a[0], jp.JSONPathNodeList) else a[0]

    p = Probe()
    p.name = "p" + "".join(TN[t] for t in args) + "_" + TN[ret]
    return p


def _freeze(x):
    if isinstance(x, jp.JSONPathNodeList):
        return ("nodelist", tuple((tuple(n.location), _freeze(n.value)) for n in x))
    if isinstance(x, list):
        return ("list", tuple(_freeze(i) for i in x))
    if isinstance(x, dict):
        return ("dict", tuple((k, _freeze(v)) for k, v in x.items()))
    if x is jp.NOTHING:
        return ("nothing",)
    return (type(x).__name__, x)


def env_factory():
    env = jp.JSONPathEnvironment()
    for n in (0, 1, 2):
        for args in itertools.product([T.VALUE, T.LOGICAL, T.NODES], repeat=n):
            for ret in (T.VALUE, T.LOGICAL, T.NODES):
                p = make_probe(args, ret)
                env.function_extensions[p.name] = p
    return env


ARGS = {
    T.VALUE: ["1", "'a'", "null", "@", "@.a", "$.k", "@[0]", "length(@.a)", "value(@.*)", "pv_v(@.a)", "@.missing"],
    T.LOGICAL: ["@", "@.a", "@.*", "$.k", "@.a == 1", "@.a && @.b", "match(@.a, 'a')", "pn_n(@.*)", "pl_l(@.a)", "@.missing", "@..a"],
    T.NODES: ["@", "@.a", "@.*", "$.k", "@..a", "pn_n(@.*)", "@.missing"],
}
KIDS = [0, False, "", None, [], {}, 1, "a", "ab", "\U0001F600x", [0], [1, 2], {"a": 0}, {"a": 1, "b": 2}, {"a": "a"}, {"a": [1]}, {"a": None}]


def queries():
    qs = []
    for n in (1, 2):
        for sig in itertools.product([T.VALUE, T.LOGICAL, T.NODES], repeat=n):
            for ret in (T.VALUE, T.LOGICAL, T.NODES):
                name = "p" + "".join(TN[t] for t in sig) + "_" + TN[ret]
                pools = [ARGS[t] for t in sig]
                if n == 2:
                    pools = [p[:6] for p in pools]
                for combo in itertools.product(*pools):
                    call = f"{name}({', '.join(combo)})"
                    qs.append(f"$[?{call} == 1]" if ret == T.VALUE else f"$[?{call}]")
    for a in ["@", "@.a", "@.*", "$.k", "'ab'", "@.missing", "@[0]"]:
        if a != "@.*":  # a non-singular query is not a ValueType argument
            qs += [f"$[?length({a}) == 1]", f"$[?length({a}) == 2]"]
        qs += [f"$[?value({a}) == 1]" if not a.startswith("'") else "$[?length('ab') == 2]"]
        if not a.startswith("'"):
            qs += [f"$[?count({a}) == 1]", f"$[?count({a}) == 0]", f"$[?count({a}) == 2]"]
    qs += ["$[?length(@) == 2]", "$[?length(@.a) == length(@.b)]", "$[?count(@..*) > 2]", "$[?value(@..a) == 1]", "$[?length(value(@.*)) == 1]"]
    return sorted(set(qs))


def work(chunk):
    env = env_factory()
    col = Collector()
    evals, nontrivial = 0, set()
    samples = []
    docs = [[k] for k in KIDS] + [{"k": k, "x": [k]} for k in KIDS[:8]]
    for q in chunk:
        try:
            c = env.compile(q)
        except jp.JSONPathError as e:
            col.add("c10-well-typed-call-refused", f"{type(e).__name__}: {e}", {"query": q})
            continue
        for di, d in enumerate(docs):
            evals += 1
            del LOG[:]
            try:
                exp = refsem.expected_nodes(c, d)
            except Exception:  # noqa: BLE001
                continue
            want = list(LOG)
            del LOG[:]
            try:
                act = list(c.find(d))
            except Exception as e:  # noqa: BLE001
                col.add("c10-evaluation-raises-" + type(e).__name__, str(e), {"query": q, "document": d})
                continue
            got = list(LOG)
            if sorted(map(str, got)) != sorted(map(str, want)):  # call order is not part of the property
                w = next(((a, b) for a, b in zip(sorted(map(str, want)), sorted(map(str, got))) if a != b), (want[-1:], got[-1:]))
                kind = "c10-parameter-receives-wrong-value"
                col.add(kind, "a registered function received different arguments than RFC 9535 type conversion gives", {"query": q, "document": d}, str(w[0])[:300], str(w[1])[:300])
            elif not refsem.same(act, exp):
                col.add("c10-function-result-used-wrongly", "find() differs from the reference", {"query": q, "document": d},
                        [refsem.node_repr(n) for n in exp], [refsem.node_repr(n) for n in act])
            if want:
                nontrivial.add((q, di))
                if len(samples) < 2:
                    samples.append({"query": q, "document": d, "received": [str(x) for x in want[:2]]})
    return {"evals": evals, "nontrivial": len(nontrivial), "violations": col.list(), "samples": samples}


def run(tier, seed):
    qs = queries()
    parts = pmap(work, chunked(qs, 48))
    col = Collector()
    for p in parts:
        col.merge(p["violations"])
    return {"evaluations": sum(p["evals"] for p in parts), "distinct_nontrivial": sum(p["nontrivial"] for p in parts),
            "rule": "probe functions for every signature with 1-2 parameters over {Value,Logical,Nodes} x 3 result types, called with every "
                    "well-typed argument expression kind (literal, @, singular/non-singular queries, $, nested calls, missing member) on "
                    f"{len(KIDS)} child kinds; the arguments each probe receives and the selected nodes must equal the RFC conversions computed "
                    "by the reference semantics. Non-trivial = (query, document) pairs in which at least one function call happened.",
            "samples": [s for p in parts for s in p["samples"]][:8], "bounds": {"queries": len(qs), "child_kinds": len(KIDS)},
            "exhaustive": True, "unjudged": 0, "violations": col.list()}


if __name__ == "__main__":
    main(run)
