"""C02 bounded tie-in: filter selection (existence tests, logic, scoping, iteration) vs the reference semantics."""
import itertools

from bounded.common import main
from bounded.semrun import run_product

ATOMS = ["@", "@.a", "@.*", "@[0]", "$", "$.k", "$[0]", "@.a == 1", "@ == 'a'", "@.a < @.b", "@.a != $.k", "length(@.a) == 1",
         "count(@.*) == 1", "match(@.a, 'a')", "@[?@.a]", "@[?@ > $[0]]", "@..a", "@ == null", "@ == false", "@ == 0", "@ == ''"]
KIDS = [0, False, "", None, [], {}, 1, "a", [0], {"a": 0}, {"a": 1, "b": 2}, [[1, 2], 3], {"a": "a"}]


def exprs(tier):
    out = list(ATOMS)
    out += ["!" + a if not any(op in a for op in ("==", "<", "!=")) else "!(" + a + ")" for a in ATOMS]
    pool = ATOMS if tier == "thorough" else ATOMS[:14]
    for a, b in itertools.product(pool, repeat=2):
        out.append(f"{a} && {b}")
        out.append(f"{a} || {b}")
    small = ATOMS[:8]
    for a, b, c in itertools.product(small[:5] if tier == "quick" else small, repeat=3):
        out.append(f"{a} && {b} || {c}")
        out.append(f"{a} || {b} && {c}")
        out.append(f"({a} || {b}) && {c}")
        out.append(f"!({a} && {b}) || {c}")
    return out


def queries(tier):
    qs = []
    for e in exprs(tier):
        qs.append(f"$[?{e}]")
    for e in ATOMS:
        qs.append(f"$.*[?{e}]")
        qs.append(f"$..[?{e}]")
        qs.append(f"$[?{e}, ?{e}]")
    return qs


def documents():
    ds = []
    for k in KIDS:
        ds.append([k])
        ds.append({"k": k})
        ds.append(k)
    for a, b in itertools.product(KIDS[:9], repeat=2):
        ds.append([a, b])
    ds += [[[1, 2], [7], 5], {"k": 1, "x": [{"a": 1}, {"a": 2, "b": 3}]}, [{"a": 1, "b": 2}, {"a": 2, "b": 1}, {"a": "a"}]]
    return ds


def classify(q, doc, what):
    if what.startswith("compile"):
        return "c02-valid-filter-query-refused"
    if what.startswith(("raises", "crash")):
        return "c02-evaluation-raises-" + what.split(":")[1]
    import re
    if re.search(r"\[\?[^\]]*\$", q) and re.search(r"@\[\?[^\]]*\$", q):
        return "c02-root-rebound-in-nested-filter"
    return "c02-filter-result-wrong"


def run(tier, seed):
    return run_product(queries(tier), documents(), classify,
                       rule="every logical expression with <= 2 (some 3) operators from && || ! () over 21 atoms (existence tests on @/$ queries, "
                            "comparisons, function calls, nested filters), as child/descendant/multi-selector filters, x documents whose "
                            "children are of every kind incl. 0, false, '', null, [], {}; oracle = spec.rfc_filter.eval_expr run natively.")


if __name__ == "__main__":
    main(run)
