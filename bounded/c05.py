"""C05 bounded tie-in: compile succeeds iff the query is well-typed (RFC 9535 2.4.3) for the registry in
use and its index/slice integers are within the environment's range. Queries are generated as small ASTs
whose typing is judged by a separate, direct implementation of the rules in the property statement."""
import itertools

import jsonpath_rfc9535 as jp
from jsonpath_rfc9535.function_extensions import ExpressionType as T

from bounded import c10
from bounded.common import Collector, chunked, main, pmap

V, L, N = "V", "L", "N"
BUILTIN = {"length": ([V], V), "count": ([N], V), "match": ([V, V], L), "search": ([V, V], L), "value": ([N], V)}
TMAP = {"v": V, "l": L, "n": N}


def registry():
    r = dict(BUILTIN)
    for n in (0, 1, 2):
        for sig in itertools.product("vln", repeat=n):
            for ret in "vln":
                r["p" + "".join(sig) + "_" + ret] = ([TMAP[c] for c in sig], TMAP[ret])
    return r


REG = registry()

# expression AST: ("lit", text) ("sq", text) ("q", text) ("call", name, [args]) ("cmp", a, op, b) ("not", e) ("and"/"or", a, b) ("par", e)


def text(e):
    k = e[0]
    if k in ("lit", "sq", "q"):
        return e[1]
    if k == "call":
        return f"{e[1]}({', '.join(text(a) for a in e[2])})"
    if k == "cmp":
        return f"{text(e[1])} {e[2]} {text(e[3])}"
    if k == "not":
        return "!" + text(e[1])
    if k in ("and", "or"):
        return f"{text(e[1])} {'&&' if k == 'and' else '||'} {text(e[2])}"
    return "(" + text(e[1]) + ")"


def ret_type(e):
    return REG[e[1]][1] if e[0] == "call" and e[1] in REG else None


def ok_call(e):
    if e[1] not in REG:
        return False
    params, _ = REG[e[1]]
    if len(params) != len(e[2]):
        return False
    return all(ok_arg(p, a) for p, a in zip(params, e[2]))


def is_logical_expr(e):
    return e[0] in ("cmp", "not", "and", "or", "par")


def ok_arg(p, a):
    if p == V:
        return a[0] in ("lit", "sq") or (a[0] == "call" and ok_call(a) and ret_type(a) == V)
    if p == N:
        return a[0] in ("sq", "q") or (a[0] == "call" and ok_call(a) and ret_type(a) == N)
    # LogicalType: any logical expression, a query, or a Logical/NodesType call
    if a[0] in ("sq", "q"):
        return True
    if a[0] == "call":
        return ok_call(a) and ret_type(a) in (L, N)
    return is_logical_expr(a) and ok_test(a)


def ok_test(e):
    k = e[0]
    if k in ("sq", "q"):
        return True
    if k == "lit":
        return False
    if k == "call":
        return ok_call(e) and ret_type(e) in (L, N)
    if k == "cmp":
        return ok_operand(e[1]) and ok_operand(e[3])
    if k == "not":
        return e[1][0] in ("sq", "q", "call", "par") and ok_test(e[1])
    if k in ("and", "or"):
        return ok_test(e[1]) and ok_test(e[2])
    return ok_test(e[1])  # parenthesised


def ok_operand(e):
    return e[0] in ("lit", "sq") or (e[0] == "call" and ok_call(e) and ret_type(e) == V)


def grammatical(e, top=True):
    """positions the RFC grammar allows (so that only typing decides): `!` applies to queries, calls and
    parenthesised expressions; comparison operands are literals, singular queries or calls"""
    k = e[0]
    if k == "cmp":
        return all(x[0] in ("lit", "sq", "call") and (x[0] != "call" or all(grammatical(a) for a in x[2])) for x in (e[1], e[3]))
    if k == "not":
        return e[1][0] in ("sq", "q", "call", "par") and grammatical(e[1])
    if k in ("and", "or"):
        return grammatical(e[1]) and grammatical(e[2]) and e[1][0] != "lit" and e[2][0] != "lit"
    if k == "par":
        return grammatical(e[1]) and e[1][0] != "lit"
    if k == "call":
        return all(grammatical(a) for a in e[2])
    return True


ATOMS = [("lit", "1"), ("lit", "'a'"), ("sq", "@.a"), ("sq", "$.k[0]"), ("q", "@.*"), ("q", "@..a")]


def arg_exprs():
    out = list(ATOMS)
    out += [("call", "length", [("sq", "@.a")]), ("call", "count", [("q", "@.*")]), ("call", "match", [("sq", "@.a"), ("lit", "'a'")]),
            ("call", "pn_n", [("q", "@.*")]), ("call", "pv_l", [("lit", "1")]), ("call", "value", [("q", "@.*")])]
    out += [("cmp", ("sq", "@.a"), "==", ("lit", "1")), ("and", ("sq", "@.a"), ("q", "@.*")), ("not", ("sq", "@.a")),
            ("par", ("cmp", ("sq", "@.a"), "<", ("lit", "2")))]
    return out


def expressions(tier):
    args = arg_exprs()
    calls = []
    names = sorted(REG)
    for name in names:
        params, _ = REG[name]
        ns = {len(params)} | ({len(params) + 1, max(len(params) - 1, 0)} if name in BUILTIN or name.endswith("_v") else set())
        for n in ns:
            pool = args if n <= 1 else args[:10]
            if n == 2 and tier == "quick":
                pool = [a for a in args if a[0] in ("lit", "sq", "q")] + args[6:8] + args[12:14]
            for combo in itertools.product(pool, repeat=n):
                calls.append(("call", name, list(combo)))
    calls.append(("call", "nosuch", [("sq", "@.a")]))
    calls.append(("call", "nosuch", []))
    out = []
    sample = calls if tier == "thorough" else calls[:: max(1, len(calls) // 2500)]
    for c in sample:
        out.append(c)  # as a test
        out.append(("cmp", c, "==", ("lit", "1")))
        out.append(("cmp", ("lit", "1"), "<", c))
        out.append(("not", c))
        out.append(("and", c, ("sq", "@.b")))
        out.append(("or", ("sq", "@.b"), c))
        out.append(("par", c))
        out.append(("not", ("par", ("cmp", c, "!=", ("sq", "@.b")))))
    for a, b in itertools.product(ATOMS, repeat=2):
        for op in ("==", "<"):
            out.append(("cmp", a, op, b))
    out += [a for a in ATOMS]
    return [e for e in out if grammatical(e)]


def work(chunk):
    env = c10.env_factory()
    col = Collector()
    n = 0
    nontrivial = set()
    for e in chunk:
        q = f"$[?{text(e)}]"
        n += 1
        want = ok_test(e)
        try:
            env.compile(q)
            got = True
            err = None
        except jp.JSONPathError as ex:
            got, err = False, f"{type(ex).__name__}: {ex}"
        except Exception as ex:  # noqa: BLE001
            col.add("c05-compile-raises-" + type(ex).__name__, str(ex), {"query": q})
            continue
        nontrivial.add((q, want))
        if got and not want:
            col.add(classify_accept(e), "ill-typed query accepted", {"query": q}, "JSONPathError", "compiled")
        elif want and not got:
            col.add(classify_refuse(e, q), "well-typed query refused: " + str(err), {"query": q}, "compiles", err)
    return {"n": n, "nontrivial": len(nontrivial), "violations": col.list()}


def has_arg_starting(e, kinds):
    if e[0] == "call":
        return any(a[0] in kinds or has_arg_starting(a, kinds) for a in e[2])
    return any(has_arg_starting(x, kinds) for x in e[1:] if isinstance(x, tuple))


def classify_refuse(e, q):
    if has_arg_starting(e, ("par",)):
        return "c05-refuses-parenthesis-opening-a-function-argument"
    return "c05-well-typed-refused"


def classify_accept(e):
    def find(e, pred):
        if pred(e):
            return True
        return any(find(x, pred) for x in e[1:] if isinstance(x, tuple)) or (e[0] == "call" and any(find(a, pred) for a in e[2]))
    if find(e, lambda x: x[0] == "not" and x[1][0] == "call" and ret_type(x[1]) == V):
        return "c05-accepts-negated-value-function"
    if find(e, lambda x: x[0] in ("and", "or") and any(y[0] == "call" and ret_type(y) == V for y in x[1:3])):
        return "c05-accepts-value-function-as-operand-of-logical-operator"
    if find(e, lambda x: x[0] == "par" and x[1][0] == "call" and ret_type(x[1]) == V):
        return "c05-accepts-parenthesised-value-function-as-test"
    if find(e, lambda x: x[0] == "call" and x[1] not in REG):
        return "c05-accepts-unknown-function"
    if find(e, lambda x: x[0] == "call" and x[1] in REG and len(x[2]) != len(REG[x[1]][0])):
        return "c05-accepts-wrong-arity"
    return "c05-ill-typed-accepted"


def int_range_cases():
    col = Collector()
    n = 0
    big = 2 ** 53

    class Small(jp.JSONPathEnvironment):
        max_int_index = 10
        min_int_index = -10

    class NonNeg(jp.JSONPathEnvironment):
        min_int_index = 0
        max_int_index = 5

    class NonPos(jp.JSONPathEnvironment):
        min_int_index = -5
        max_int_index = 0

    for env, lo, hi in ((jp.JSONPathEnvironment(), -big + 1, big - 1), (Small(), -10, 10), (NonNeg(), 0, 5), (NonPos(), -5, 0)):
        for x in (lo - 1, lo, lo + 1, -1, 0, 1, hi - 1, hi, hi + 1):
            for q in (f"$[{x}]", f"$[{x}:]", f"$[:{x}]", f"$[::{x}]", f"$[0,{x}]", f"$..[{x}]", f"$[?@[{x}]]"):
                n += 1
                want = lo <= x <= hi
                try:
                    env.compile(q)
                    got = True
                except jp.JSONPathError:
                    got = False
                except Exception as ex:  # noqa: BLE001
                    col.add("c05-compile-raises-" + type(ex).__name__, str(ex), {"query": q})
                    continue
                if got != want:
                    col.add("c05-integer-range-wrong", "index/slice integer range", {"query": q, "range": [lo, hi]}, want, got)
    return n, col.list()


def slice_pair_cases():
    """every integer of a slice is range-checked, also when the slice has unit length or an explicit step"""
    col = Collector()
    n = 0
    big = 2 ** 53

    class Small(jp.JSONPathEnvironment):
        max_int_index = 10
        min_int_index = -10

    for env, lo, hi in ((jp.JSONPathEnvironment(), -big + 1, big - 1), (Small(), -10, 10)):
        for x in (lo - 1, lo, lo + 1, 0, hi - 1, hi):
            for q, ints in ((f"$[{x}:{x + 1}]", (x, x + 1)), (f"$[{x}:{x + 1}:1]", (x, x + 1, 1)), (f"$[{x - 1}:{x}]", (x - 1, x)),
                            (f"$[?@[{x}:{x + 1}]]", (x, x + 1)), (f"$[{x}:{x + 1}:{x}]", (x, x + 1, x))):
                n += 1
                want = all(lo <= v <= hi for v in ints)
                try:
                    env.compile(q)
                    got = True
                except jp.JSONPathError:
                    got = False
                except Exception as ex:  # noqa: BLE001
                    col.add("c05-compile-raises-" + type(ex).__name__, str(ex), {"query": q})
                    continue
                if got != want:
                    col.add("c05-slice-integer-range-wrong", "slice integer range", {"query": q, "range": [lo, hi]}, want, got)
    return n, col.list()


def nonsingular_comparand_cases():
    """only singular queries are compared: a query with a slice, a wildcard, a descendant segment, several selectors or a filter is
    refused as a comparison operand and as a ValueType argument, whatever its slice bounds are"""
    col = Collector()
    n = 0
    env = c10.env_factory()
    nonsing = ["@.*", "@..a", "@[0:1]", "@[1:2:1]", "$.k[3:4]", "$.k[0:1:1]", "@[0,1]", "@['a','b']", "@[:]", "@[?@.x]", "@.a[0:1]", "@[0:1].a"]
    sing = ["@.a", "@[0]", "$.k[1]", "@['a'][0]", "@"]
    shapes = ["$[?{q} == 1]", "$[?1 == {q}]", "$[?{q} < @.b]", "$[?length({q}) == 1]", "$[?!({q} == 1)]", "$[?@.c && {q} != 'x']", "$[?pv_v({q}) == 1]"]
    for q in nonsing + sing:
        for sh in shapes:
            n += 1
            query = sh.format(q=q)
            want = q in sing
            try:
                env.compile(query)
                got = True
            except jp.JSONPathError:
                got = False
            except Exception as ex:  # noqa: BLE001
                col.add("c05-compile-raises-" + type(ex).__name__, str(ex), {"query": query})
                continue
            if got != want:
                col.add("c05-non-singular-query-compared" if got else "c05-singular-comparison-refused",
                        "only singular queries are compared", {"query": query}, want, got)
    return n, col.list()


def second_registry_cases():
    """the same function NAMES registered with other result types on a second environment, after the first was used:
    typing must follow the registry of the environment that compiles (any set of registered functions)"""
    from jsonpath_rfc9535.function_extensions import ExpressionType as T
    col = Collector()
    n = 0
    env1 = c10.env_factory()
    rot = {T.VALUE: T.LOGICAL, T.LOGICAL: T.NODES, T.NODES: T.VALUE}
    env2 = jp.JSONPathEnvironment()
    reg2 = dict(BUILTIN)
    tname = {T.VALUE: V, T.LOGICAL: L, T.NODES: N}
    for name, f in env1.function_extensions.items():
        if name.startswith("p"):
            g = c10.make_probe(f.arg_types, rot[f.return_type])
            env2.function_extensions[name] = g
            reg2[name] = ([tname[t] for t in f.arg_types], tname[rot[f.return_type]])
    names = [nm for nm in sorted(reg2) if nm.startswith("pv_") or nm.startswith("p_")]
    global REG
    saved = REG
    try:
        for nm in names:
            arg = [("sq", "@.a")] if nm.startswith("pv_") else []
            call = ("call", nm, arg)
            for e in (call, ("cmp", call, "==", ("lit", "1")), ("not", call), ("and", call, ("sq", "@.b")), ("par", call)):
                q = f"$[?{text(e)}]"
                for env, reg in ((env1, saved), (env2, reg2), (env1, saved)):
                    REG = reg
                    n += 1
                    want = ok_test(e)
                    try:
                        env.compile(q)
                        got = True
                    except jp.JSONPathError:
                        got = False
                    if got != want:
                        col.add("c05-typing-depends-on-another-registry", "typing judged with another environment's function signatures",
                                {"query": q, "registry": "second" if reg is reg2 else "first"}, want, got)
    finally:
        REG = saved
    return n, col.list()


def run(tier, seed):
    es = expressions(tier)
    parts = pmap(work, chunked(es, 48))
    col = Collector()
    for p in parts:
        col.merge(p["violations"])
    n2, v2 = int_range_cases()
    col.merge(v2)
    n3, v3 = second_registry_cases()
    col.merge(v3)
    n2 += n3
    n4, v4 = slice_pair_cases()
    col.merge(v4)
    n5, v5 = nonsingular_comparand_cases()
    col.merge(v5)
    n2 += n4 + n5
    return {"evaluations": sum(p["n"] for p in parts) + n2, "distinct_nontrivial": sum(p["nontrivial"] for p in parts),
            "rule": f"function calls of {len(REG)} registered signatures (built-ins + every signature with <= 2 parameters x 3 result types, plus an unknown "
                    "name and wrong arities) with every argument kind (literals, singular / non-singular queries, calls of each result type, comparison, &&, !, "
                    "parentheses), placed as test, comparison operand, under !, beside && / ||, in parentheses, nested; plus index/slice integers around "
                    "the bounds of the default and of a re-configured environment (also in unit-length and stepped slices); non-singular queries (slices of every shape, "
                    "wildcards, descendants, lists, filters) against singular ones as comparison operands and ValueType arguments. compile() must succeed iff the "
                    "typing rules of the property hold. "
                    "Distinct = distinct query texts.",
            "samples": [f"$[?{text(e)}]" for e in es[:: max(1, len(es) // 8)]][:8], "bounds": {"expressions": len(es), "registry": len(REG)},
            "exhaustive": tier == "thorough", "unjudged": 0, "violations": col.list()}


if __name__ == "__main__":
    main(run)
