"""C11 bounded runner: match()/search() against a derivative-based I-Regexp oracle.

Checks exactly the property statement: for every enumerated I-Regexp pattern p and
every subject string s, ``Match()(s, p) == matches(p, s)`` and
``Search()(s, p) == contains(p, s)`` (oracle: bounded/iregexp.py); non-string
arguments and invalid I-Regexps give False; nothing raises.  Patterns containing
``^``/``$`` outside the negation marker of a class are not judged.
"""

from __future__ import annotations

import functools
import itertools
import json
import multiprocessing as mp
import random
import re as _stdre
import sys
import time
import unicodedata
import warnings
from typing import Dict
from typing import List
from typing import Tuple

from bounded import iregexp

LF = "\n"
CR = "\r"
LS = " "
EMO = "\U0001f600"

SUBJECT_ALPHABET = ["a", "b", "1", LF, CR, LS, "|", "&", "~", "-", "[", ".", EMO, "\\"]

# one-node atoms: literals of the alphabet that are NormalChar, escaped metacharacters
# (those of the alphabet first), and "."
LEAVES_FULL = (
    ["a", "b", "1", LF, CR, LS, "&", "~", "-", EMO]
    + ["\\" + c for c in "|[.-nr()*+?\\]{}t"]
    + ["."]
)
LEAVES_REDUCED = ["a", LF, EMO, "&", "\\|", "\\.", "."]
LEAVES_TINY = ["a", LF, "&", "\\.", "."]
# class items; "-" is added by the generator in first/last position only
ITEMS_FULL = ["a", "b", "1", "|", "&", "~", ".", EMO, LF, LS, "\\[", "\\]", "\\n", "a-b", "1-a", "\\p{L}", "\\P{Nd}"]
ITEMS_REDUCED = ["a", "|", "&", "a-b", "\\p{L}", "\\P{Nd}"]
ITEMS_TINY = ["a", "&", "|", "\\P{Nd}"]
QUANTS_FULL = ["?", "*", "+", "{2}", "{1,2}", "{2,}"]
QUANTS_REDUCED = ["?", "*", "{2}", "{1,2}"]
QUANTS_TINY = ["*", "{1,2}"]
# fixed class shapes beyond two items (the property's own example is [a||b])
EXTRA_ATOMS = ["[a&&b]", "[a||b]", "[a~~b]", "[^a&&b]", "[a&&]", "[a||]", "[a~~]"]

UNJUDGED_PATTERNS = ["^", "$", "^a", "a$", "^a$", "a^b", "[$]", "[a^]", "(^a|b$)", "\\^"]

NON_STRINGS = [None, True, False, 0, 1, -1, 1.5, [], ["a"], {}, {"a": "a"}]

INVALID_FIXED = [
    "a**", "a*?", "a+?", "a??", "a++", "a*+", "[", "]", "(", ")", "a)", "(a", "{", "}", "a{", "a{1", "a{1,2",
    "a{,2}", "a{2}{3}", "[]", "[^]", "[a", "[a--b]", "[a-b-c]", "[[a]]", "[[]", "[a[]", "[[:alpha:]]",
    "[a-\\p{L}]", "[\\p{L}-a]", "[--a]", "\\d", "\\w", "\\s", "\\D", "\\W", "\\S", "\\b", "\\B", "\\A", "\\Z",
    "\\1", "(a)\\1", "\\$", "\\/", "\\x61", "\\u0061", "\\a", "\\e", "\\0", "\\", "a\\", "\\p", "\\p{", "\\p{L",
    "\\p{Xx}", "\\p{IsBasicLatin}", "\\p{Latin}", "\\pL", "\\p{^L}", "(?:a)", "(?i)a", "(?=a)", "(?!a)", "(?<=a)a",
    "(?P<n>a)", "(?#c)a", "a{e<=1}", "(a){e<=1}", "(?|a)", "\\N{DIGIT ONE}", "\\Qa\\E", "\\G", "\\K", "\\X",
    "[a&&[b]]", "[\\d]", "[\\w]", "*", "+", "?", "*a", "|*", "(*)", "a|*",
]
INVALID_SUBJECTS = ["", "a", "aa", "1", "a1", "d", "w", " ", "\\", "[", "]", "(", ")", "{", "}", "*", "a*", "L", "pL", "&", "b", "ab", "e"]
INVALID_ALPHABET = list("ab1[](){}*+?,\\-|.dp")


# ------------------------------------------------------------------ enumeration


def _classes(n: int, items: List[str]) -> List[str]:
    k = n - 1  # the class itself is one node, each item one more
    out: List[str] = []
    if k < 1:
        return out
    pool = items + ["-"]
    for t in itertools.product(pool, repeat=k):
        if any(x == "-" for x in t[1:-1]):
            continue
        body = "".join(t)
        out.append("[" + body + "]")
        out.append("[^" + body + "]")
    return out


def make_enumerator(leaves: List[str], items: List[str], quants: List[str], extra: List[str]):  # noqa: ANN201
    """regexp(n): all pattern strings whose AST has exactly n nodes.

    Node count: leaf 1; class 1 + items (<= 2 items); group 1 + body; quantifier 1 + atom;
    a branch of k pieces k-1 extra; an alternation of k branches k-1 extra; the empty
    branch 0.
    """

    @functools.lru_cache(None)
    def atoms(n: int) -> Tuple[str, ...]:
        out: List[str] = []
        if n == 1:
            out += leaves
            out += extra
        if 2 <= n <= 3:
            out += _classes(n, items)
        if n >= 1:
            out += ["(" + r + ")" for r in regexp(n - 1)]
        return tuple(out)

    @functools.lru_cache(None)
    def pieces(n: int) -> Tuple[str, ...]:
        out = list(atoms(n))
        if n >= 2:
            out += [a + q for a in atoms(n - 1) for q in quants]
        return tuple(out)

    @functools.lru_cache(None)
    def branch(n: int) -> Tuple[str, ...]:
        if n == 0:
            return ("",)
        out = list(pieces(n))
        for k in range(1, n - 1):
            out += [p + r for p in pieces(k) for r in branch(n - 1 - k)]
        return tuple(out)

    @functools.lru_cache(None)
    def regexp(n: int) -> Tuple[str, ...]:
        out = list(branch(n))
        for k in range(n):
            out += [b + "|" + r for b in branch(k) for r in regexp(n - 1 - k)]
        return tuple(out)

    return regexp


def _describe(leaves: List[str], items: List[str], quants: List[str]) -> str:
    return "%d leaves %r, %d class items %r, quantifiers %r" % (len(leaves), leaves, len(items) + 1, items + ["-"], quants)


def enumerate_patterns(tier: str) -> Tuple[List[str], dict]:
    """Patterns in order of node count (so a run cut short by the time budget has done the small ones)."""
    full = make_enumerator(LEAVES_FULL, ITEMS_FULL, QUANTS_FULL, EXTRA_ATOMS)
    seen: Dict[str, None] = {}
    if tier == "quick":
        for n in range(4):
            for p in full(n):
                seen.setdefault(p)
        tiny = make_enumerator(LEAVES_TINY, ITEMS_TINY, QUANTS_TINY, [])
        for n in (4, 5):
            for p in tiny(n):
                seen.setdefault(p)
        bounds = {
            "max_nodes": 5,
            "leaf_sets": {
                "<= 3 nodes": "full: " + _describe(LEAVES_FULL, ITEMS_FULL, QUANTS_FULL) + ", extra atoms %r" % EXTRA_ATOMS,
                "4 and 5 nodes": "tiny: " + _describe(LEAVES_TINY, ITEMS_TINY, QUANTS_TINY),
            },
        }
    else:
        for n in range(5):
            for p in full(n):
                seen.setdefault(p)
        red = make_enumerator(LEAVES_REDUCED, ITEMS_REDUCED, QUANTS_REDUCED, ["[a&&b]"])
        for p in red(5):
            seen.setdefault(p)
        bounds = {
            "max_nodes": 5,
            "leaf_sets": {
                "<= 4 nodes": "full: " + _describe(LEAVES_FULL, ITEMS_FULL, QUANTS_FULL) + ", extra atoms %r" % EXTRA_ATOMS,
                "5 nodes": "reduced: " + _describe(LEAVES_REDUCED, ITEMS_REDUCED, QUANTS_REDUCED),
            },
        }
    return list(seen), bounds


def enumerate_subjects(max_len: int) -> List[str]:
    out = [""]
    for n in range(1, max_len + 1):
        out += ["".join(t) for t in itertools.product(SUBJECT_ALPHABET, repeat=n)]
    return out


def jsonpath_literal(s: str) -> str:
    out = ["'"]
    for ch in s:
        if ch == "\\":
            out.append("\\\\")
        elif ch == "'":
            out.append("\\'")
        elif ch == "\n":
            out.append("\\n")
        elif ch == "\r":
            out.append("\\r")
        elif ch == "\t":
            out.append("\\t")
        elif ord(ch) < 0x20:
            out.append("\\u%04x" % ord(ch))
        else:
            out.append(ch)
    out.append("'")
    return "".join(out)


# ------------------------------------------------------------------ classification

_DOUBLED = _stdre.compile(r"\[[^\]]*?(&&|\|\||~~)")
_OPNAME = {"&&": "ampersand", "||": "pipe", "~~": "tilde"}


def _alternation_of_negated_single_literal_classes(ast) -> bool:  # noqa: ANN001
    """Some alternation has two or more branches that are each exactly [^c], c one literal character."""
    tag = ast[0]
    if tag == "alt":
        n = 0
        for br in ast[1]:
            pieces = br[1]
            if len(pieces) == 1 and pieces[0][0] == "set" and pieces[0][1] and len(pieces[0][2]) == 1 and pieces[0][2][0][0] == "c":
                n += 1
        if n >= 2:
            return True
        return any(_alternation_of_negated_single_literal_classes(br) for br in ast[1])
    if tag == "cat":
        return any(_alternation_of_negated_single_literal_classes(p) for p in ast[1])
    if tag == "rep" or tag == "group":
        return _alternation_of_negated_single_literal_classes(ast[1])
    return False


def _dot_outside_class(p: str) -> bool:
    in_class = False
    esc = False
    for ch in p:
        if esc:
            esc = False
        elif ch == "\\":
            esc = True
        elif ch == "[":
            in_class = True
        elif ch == "]":
            in_class = False
        elif ch == "." and not in_class:
            return True
    return False


def classify(p: str, s: str, m_ref: bool, m_obs: bool, s_ref: bool, s_obs: bool) -> str:
    m_ok = m_ref == m_obs
    s_ok = s_ref == s_obs
    dm = _DOUBLED.search(p)
    if dm:
        op = _OPNAME[dm.group(1)]
        if m_ok != s_ok:
            return "c11-search-match-disagree-on-class-with-" + op
        return "c11-both-wrong-on-class-with-" + op
    ast = iregexp.parse(p)
    if ast is not None and _alternation_of_negated_single_literal_classes(ast):
        return "c11-alternation-of-negated-single-char-classes"
    has_nl = LF in s or CR in s
    too_many = (m_obs and not m_ref) or (s_obs and not s_ref)
    if has_nl and _dot_outside_class(p) and too_many:
        return "c11-dot-matches-newline"
    if has_nl and "[^" in p and not too_many:
        return "c11-negated-class-misses-newline"
    if "\\p{" in p or "\\P{" in p:
        return "c11-category-escape-wrong"
    if EMO in p or EMO in s:
        return "c11-astral-character-wrong"
    if LS in p or LS in s:
        return "c11-line-separator-wrong"
    if "{" in p.replace("\\{", ""):
        return "c11-range-quantifier-wrong"
    if "[" in p.replace("\\[", ""):
        return "c11-class-wrong"
    return "c11-unclassified"


# ------------------------------------------------------------------ worker

_G: dict = {}


def _init_worker() -> None:
    warnings.simplefilter("ignore")
    from jsonpath_rfc9535 import JSONPathEnvironment
    from jsonpath_rfc9535.function_extensions import Match
    from jsonpath_rfc9535.function_extensions import Search

    _G["match"] = Match()
    _G["search"] = Search()
    _G["env"] = JSONPathEnvironment()


def _ref_tables(p: str, subjects: List[str], max_len: int) -> Tuple[List[bool], List[bool]]:
    """Reference verdicts for all subjects, sharing derivative work along the trie."""
    c = iregexp.compile_pattern(p)
    assert c is not None, "generator produced a non-I-Regexp: %r" % (p,)
    m_tab: Dict[str, bool] = {}
    s_tab: Dict[str, bool] = {}
    null = iregexp.NULL

    def walk(prefix: str, mstate, sstate, depth: int) -> None:  # noqa: ANN001
        m_tab[prefix] = mstate.nullable
        s_tab[prefix] = sstate.nullable
        if depth == max_len:
            return
        for ch in SUBJECT_ALPHABET:
            ms = iregexp.step(mstate, ch) if mstate is not null else null
            ss = iregexp.step(sstate, ch)
            walk(prefix + ch, ms, ss, depth + 1)

    walk("", c[0], c[1], 0)
    return [m_tab[s] for s in subjects], [s_tab[s] for s in subjects]


def _run_chunk(args):  # noqa: ANN001, ANN201
    patterns, max_len, find_every, deadline, unjudged_chars = args
    if "match" not in _G:
        _init_worker()
    match, search, env = _G["match"], _G["search"], _G["env"]
    subjects = _G.get(("subjects", max_len))
    if subjects is None:
        subjects = enumerate_subjects(max_len)
        _G[("subjects", max_len)] = subjects
    res = {"evaluations": 0, "nontrivial": 0, "unjudged": 0, "violations": [], "done": 0, "find_runs": 0, "positives": 0}
    viol = res["violations"]
    for idx, p in patterns:
        if time.time() > deadline:
            break
        res["done"] += 1
        iregexp.clear_cache()
        m_ref, s_ref = _ref_tables(p, subjects, max_len)
        has_cat = "\\p{" in p or "\\P{" in p
        m_obs: List[object] = []
        s_obs: List[object] = []
        for s in subjects:
            try:
                m_obs.append(match(s, p))
            except BaseException as e:  # noqa: BLE001
                m_obs.append(e)
            try:
                s_obs.append(search(s, p))
            except BaseException as e:  # noqa: BLE001
                s_obs.append(e)
        for i, s in enumerate(subjects):
            if has_cat and unjudged_chars and any(ch in unjudged_chars for ch in s):
                res["unjudged"] += 1
                continue
            res["evaluations"] += 2
            if s_ref[i]:
                res["positives"] += 1
            if s_ref[i] or LF in s or CR in s:
                res["nontrivial"] += 1
            mo, so = m_obs[i], s_obs[i]
            for fn, o in (("match", mo), ("search", so)):
                if isinstance(o, BaseException):
                    viol.append({
                        "kind": "c11-raises-" + type(o).__name__,
                        "what": "%s(%r, %r) raised %s" % (fn, s, p, type(o).__name__),
                        "input": {"pattern": p, "subject": s, "function": fn, "via": "direct"},
                        "expected": m_ref[i] if fn == "match" else s_ref[i],
                        "observed": repr(o)[:200],
                    })
            if isinstance(mo, BaseException) or isinstance(so, BaseException):
                continue
            if mo is not m_ref[i] or so is not s_ref[i]:
                if type(mo) is not bool or type(so) is not bool:
                    kind = "c11-result-not-bool"
                else:
                    kind = classify(p, s, m_ref[i], mo, s_ref[i], so)
                viol.append({
                    "kind": kind,
                    "what": "pattern %r subject %r: match=%r (oracle %r), search=%r (oracle %r)" % (p, s, mo, m_ref[i], so, s_ref[i]),
                    "input": {"pattern": p, "subject": s, "via": "direct"},
                    "expected": {"match": m_ref[i], "search": s_ref[i]},
                    "observed": {"match": mo, "search": so},
                })
        if find_every and idx % find_every == 0:
            lit = jsonpath_literal(p)
            for fn, ref in (("match", m_ref), ("search", s_ref)):
                q = "$[?%s(@, %s)]" % (fn, lit)
                res["find_runs"] += 1
                try:
                    nodes = env.find(q, subjects)
                    got = {n.location[0] for n in nodes}
                    bad = None
                except BaseException as e:  # noqa: BLE001
                    bad = e
                    got = set()
                if bad is not None:
                    viol.append({
                        "kind": "c11-raises-" + type(bad).__name__,
                        "what": "find(%r, subjects) raised %s" % (q, type(bad).__name__),
                        "input": {"pattern": p, "query": q, "function": fn, "via": "find"},
                        "expected": "no exception",
                        "observed": repr(bad)[:200],
                    })
                    continue
                res["evaluations"] += len(subjects)
                direct = m_obs if fn == "match" else s_obs
                for i, s in enumerate(subjects):
                    g = i in got
                    if g is not ref[i]:
                        d = direct[i]
                        if d is g:
                            continue  # same verdict as the direct call: already reported above
                        viol.append({
                            "kind": "c11-find-differs-from-direct-call",
                            "what": "find(%r, [%r]) selects=%r, direct call %r, oracle %r" % (q, s, g, d, ref[i]),
                            "input": {"pattern": p, "subject": s, "query": q, "function": fn, "via": "find"},
                            "expected": ref[i],
                            "observed": g,
                        })
        # bound the size of what travels back
        if len(viol) > 4000:
            res["violations"] = viol = _dedupe(viol, 60)
    res["violations"] = _dedupe(viol, 60)
    return res


def _vkey(v: dict) -> Tuple[int, int, str, str]:
    i = v["input"]
    p = i.get("pattern")
    s = i.get("subject")
    ps = p if isinstance(p, str) else json.dumps(p, default=repr)
    ss = s if isinstance(s, str) else json.dumps(s, default=repr)
    return (len(ps) + len(ss), len(ps), ps, ss)


def _dedupe(viol: List[dict], cap: int) -> List[dict]:
    by_kind: Dict[str, Dict[str, dict]] = {}
    for v in viol:
        k = json.dumps(v["input"], sort_keys=True, default=repr)
        by_kind.setdefault(v["kind"], {}).setdefault(k, v)
    out: List[dict] = []
    for kind in sorted(by_kind):
        vs = sorted(by_kind[kind].values(), key=_vkey)
        out += vs[:cap]
    return out


# ------------------------------------------------------------------ small fixed parts


def _category_unjudged_chars() -> List[str]:
    """Alphabet characters whose general category differs between unicodedata and regex."""
    import regex

    out = []
    cats = ["L", "Nd"]
    for ch in SUBJECT_ALPHABET:
        cat = unicodedata.category(ch)
        for c in cats:
            ours = cat == c if len(c) == 2 else cat[0] == c
            theirs = bool(regex.fullmatch(r"\p{%s}" % c, ch))
            if ours != theirs:
                out.append(ch)
                break
    return out


def _check_false(viol: List[dict], kind: str, fn_name: str, fn, subject, pattern, via: str = "direct") -> None:  # noqa: ANN001
    try:
        got = fn(subject, pattern)
    except BaseException as e:  # noqa: BLE001
        viol.append({
            "kind": "c11-raises-" + type(e).__name__,
            "what": "%s(%r, %r) raised" % (fn_name, subject, pattern),
            "input": {"pattern": pattern, "subject": subject, "function": fn_name, "via": via},
            "expected": False,
            "observed": repr(e)[:200],
        })
        return
    if got is not False:
        viol.append({
            "kind": kind,
            "what": "%s(%r, %r) returned %r" % (fn_name, subject, pattern, got),
            "input": {"pattern": pattern, "subject": subject, "function": fn_name, "via": via},
            "expected": False,
            "observed": got,
        })


def _fixed_parts(subjects_small: List[str]) -> dict:
    _init_worker()
    match, search, env = _G["match"], _G["search"], _G["env"]
    from jsonpath_rfc9535 import NOTHING

    viol: List[dict] = []
    evals = 0
    unjudged = 0
    fns = (("match", match), ("search", search))
    # 1. non-string arguments (every JSON kind, plus Nothing)
    nonstr = NON_STRINGS + [NOTHING]
    for x in nonstr:
        for name, fn in fns:
            for p in ["a", ".*", "", "1", "[^a]"]:
                _check_false(viol, "c11-nonstring-subject-not-false", name, fn, x, p)
                evals += 1
            for s in ["", "a", "1", "None", "true", "[]"]:
                _check_false(viol, "c11-nonstring-pattern-not-false", name, fn, s, x)
                evals += 1
            for y in nonstr:
                _check_false(viol, "c11-nonstring-arguments-not-false", name, fn, x, y)
                evals += 1
    # through find
    doc = [None, True, False, 0, 1, 1.5, [], ["a"], {}, {"a": "a"}, "a", ""]
    for name in ("match", "search"):
        cases = [
            ("$[?%s(@, 'a')]" % name, doc, ["a"]),
            ("$[?%s(@, '.*')]" % name, doc, ["a", ""]),
            ("$[?%s('a', @)]" % name, doc, ["a", ""] if name == "search" else ["a"]),
            ("$[?%s(@.x, 'a')]" % name, [{}, {"x": 1}, {"x": "a"}, {"x": None}, {"x": ["a"]}], [{"x": "a"}]),
            ("$[?%s(@, @.x)]" % name, [{}, {"x": "a"}, "a"], []),
            ("$[?%s(@.x, @.y)]" % name, [{"x": "a", "y": "a"}, {"x": "a", "y": 1}, {"x": 1, "y": "a"}, {"x": "a"}, {"y": "a"}, {"x": "a", "y": "a**"}], [{"x": "a", "y": "a"}]),
            ("$[?%s(@, 1)]" % name, doc + ["1"], []),
            ("$[?%s(@, true)]" % name, doc + ["true"], []),
            ("$[?%s(@, null)]" % name, doc + ["null"], []),
            ("$[?%s(1, 'a')]" % name, ["a"], []),
        ]
        for q, d, want in cases:
            evals += 1
            try:
                got = env.find(q, d).values()
            except BaseException as e:  # noqa: BLE001
                viol.append({"kind": "c11-raises-" + type(e).__name__, "what": "find(%r) raised" % q, "input": {"query": q, "document": d, "via": "find"}, "expected": want, "observed": repr(e)[:200]})
                continue
            if got != want:
                viol.append({"kind": "c11-nonstring-argument-not-false", "what": "find(%r, %r)" % (q, d), "input": {"query": q, "document": d, "via": "find"}, "expected": want, "observed": got})
    # 2. invalid I-Regexps
    invalid: Dict[str, None] = {}
    for p in INVALID_FIXED:
        invalid.setdefault(p)
    for n in range(1, 4):
        for t in itertools.product(INVALID_ALPHABET, repeat=n):
            p = "".join(t)
            if iregexp.parse(p) is None:
                invalid.setdefault(p)
    n_invalid = 0
    for p in invalid:
        if iregexp.parse(p) is not None:
            raise AssertionError("INVALID_FIXED entry is a valid I-Regexp: %r" % p)
        n_invalid += 1
        for s in INVALID_SUBJECTS:
            for name, fn in fns:
                _check_false(viol, "c11-invalid-iregexp-not-false", name, fn, s, p)
                evals += 1
    for p in INVALID_FIXED:
        for name in ("match", "search"):
            q = "$[?%s(@, %s)]" % (name, jsonpath_literal(p))
            evals += 1
            try:
                got = env.find(q, INVALID_SUBJECTS).values()
            except BaseException as e:  # noqa: BLE001
                viol.append({"kind": "c11-raises-" + type(e).__name__, "what": "find(%r) raised" % q, "input": {"pattern": p, "query": q, "via": "find"}, "expected": [], "observed": repr(e)[:200]})
                continue
            if got != []:
                viol.append({"kind": "c11-invalid-iregexp-not-false", "what": "find(%r) selected %r" % (q, got), "input": {"pattern": p, "query": q, "via": "find"}, "expected": [], "observed": got})
    # 3. patterns with ^ / $: truth value unjudged, but they must not raise
    for p in UNJUDGED_PATTERNS:
        for s in subjects_small:
            for name, fn in fns:
                unjudged += 1
                try:
                    fn(s, p)
                except BaseException as e:  # noqa: BLE001
                    viol.append({"kind": "c11-raises-" + type(e).__name__, "what": "%s(%r, %r) raised" % (name, s, p), "input": {"pattern": p, "subject": s, "function": name, "via": "direct"}, "expected": "no exception", "observed": repr(e)[:200]})
    return {"evaluations": evals, "unjudged": unjudged, "violations": viol, "invalid_patterns": n_invalid}


# ------------------------------------------------------------------ entry point


def run(tier: str, seed: int) -> dict:
    t0 = time.time()
    iregexp._selftest()
    iregexp.clear_cache()
    rng = random.Random(seed)
    quick = tier == "quick"
    max_len = 2 if quick else 3
    budget = 50.0 if quick else 14 * 60.0
    deadline = t0 + budget
    patterns, pbounds = enumerate_patterns(tier)
    for p in patterns:
        if "$" in p or "^" in p.replace("[^", "["):
            raise AssertionError("generator produced ^/$: %r" % p)
    unjudged_chars = _category_unjudged_chars()
    subjects = enumerate_subjects(max_len)
    find_every = 2 if quick else 5
    indexed = list(enumerate(patterns))
    # consecutive slices in enumeration (= node count) order, handed out in that order
    size = max(1, min(100, len(indexed) // 64))
    chunks = [indexed[i : i + size] for i in range(0, len(indexed), size)]
    jobs = [(c, max_len, find_every, deadline, unjudged_chars) for c in chunks if c]
    ctx = mp.get_context("fork")
    with ctx.Pool(16) as pool:
        parts = pool.map(_run_chunk, jobs, chunksize=1)
    fixed = _fixed_parts(enumerate_subjects(1))
    evaluations = fixed["evaluations"]
    unjudged = fixed["unjudged"]
    nontrivial = 0
    done = 0
    find_runs = 0
    positives = 0
    viol = list(fixed["violations"])
    for r in parts:
        evaluations += r["evaluations"]
        unjudged += r["unjudged"]
        nontrivial += r["nontrivial"]
        done += r["done"]
        find_runs += r["find_runs"]
        positives += r["positives"]
        viol += r["violations"]
    viol = _dedupe(viol, 40)
    sample_patterns = rng.sample(patterns, min(8, len(patterns)))
    samples = []
    for p in sample_patterns:
        s = rng.choice(subjects)
        samples.append({"pattern": p, "subject": s, "oracle_match": iregexp.matches(p, s), "oracle_search": iregexp.contains(p, s)})
    return {
        "evaluations": evaluations,
        "distinct_nontrivial": nontrivial,
        "rule": (
            "every pattern string of the grammar-directed enumeration (i-regexp/branch/piece/atom of RFC 9485; node count: leaf 1, "
            "class 1+items, group/quantifier +1, k pieces or k branches k-1) x every subject string over the 13-character alphabet up to "
            "the length bound; each (pattern, subject) pair is evaluated once per function directly and (for 1 pattern in %d) once per "
            "function through find('$[?fn(@, <literal>)]', all_subjects). A pair counts as non-trivial when the oracle says search is "
            "true (a positive) or the subject contains LF/CR (dot / negated-class discrimination). Fixed extras: non-string arguments "
            "of every JSON kind and Nothing; %d non-I-Regexp patterns (fixed list + all strings <= 3 over %r rejected by the grammar)."
            % (find_every, fixed["invalid_patterns"], "".join(INVALID_ALPHABET))
        ),
        "samples": samples,
        "bounds": dict(
            pbounds,
            patterns=len(patterns),
            patterns_done=done,
            subjects=len(subjects),
            max_subject_length=max_len,
            subject_alphabet=SUBJECT_ALPHABET,
            find_queries=find_runs,
            oracle_positive_pairs=positives,
            category_unjudged_characters=unjudged_chars,
            wall_seconds=round(time.time() - t0, 1),
        ),
        "exhaustive": done == len(patterns),
        "unjudged": unjudged,
        "violations": viol,
    }


def main() -> None:
    import argparse

    ap = argparse.ArgumentParser()
    ap.add_argument("--tier", default="quick", choices=["quick", "thorough"])
    ap.add_argument("--seed", type=int, default=0)
    a = ap.parse_args()
    json.dump(run(a.tier, a.seed), sys.stdout, indent=1, ensure_ascii=False, default=repr)
    sys.stdout.write("\n")


if __name__ == "__main__":
    main()
