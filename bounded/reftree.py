"""Layer-P tie-in: the object tree compile() builds must be structurally equal to the reference reading of
the query text. The reference reading is the derivation tree of the generic ABNF engine over
rfc9535.abnf (no hand-written JSONPath parser), folded into a small structure; the compiled objects are
folded into the same structure. Grouping parentheses are transparent and chains of the same logical
operator are flattened on both sides (the compiled tree does not record grouping)."""
from fractions import Fraction

import jsonpath_rfc9535 as jp
from jsonpath_rfc9535 import filter_expressions as fe
from jsonpath_rfc9535 import segments as sg
from jsonpath_rfc9535 import selectors as sl

from bounded import rfcvalid, strlit


# ---------------- reference side ----------------
def ref_query(q):
    t = rfcvalid.parse_tree(q)
    if t is None:
        return None
    return _segments(t.child("segments"))


def _segments(t):
    return [_segment(s) for s in (t.kids if t is not None else []) if s.name == "segment"]


def _first(t, *names):
    for k in t.walk():
        if k is not t and k.name in names:
            return k
    return None


def _segment(t):
    k = t.kids[0]
    desc = k.name == "descendant-segment"
    body = k
    bs = next((x for x in body.kids if x.name == "bracketed-selection"), None)
    if bs is not None:
        sels = [_selector(s) for s in bs.kids if s.name == "selector"]
    else:
        w = next((x for x in body.kids if x.name == "wildcard-selector"), None)
        if w is not None:
            sels = [("wild",)]
        else:
            m = next(x for x in body.kids if x.name == "member-name-shorthand")
            sels = [("name", m.text)]
    return ("desc" if desc else "child", sels)


def _int(t):
    return int(t.text)


def _selector(t):
    k = t.kids[0]
    if k.name == "name-selector":
        return ("name", strlit.decode_literal(k.text))
    if k.name == "wildcard-selector":
        return ("wild",)
    if k.name == "index-selector":
        return ("index", _int(k))
    if k.name == "slice-selector":
        parts = {x.name: _int(x) for x in k.kids if x.name in ("start", "end", "step")}
        return ("slice", parts.get("start"), parts.get("end"), parts.get("step"))
    if k.name == "filter-selector":
        return ("filter", _logical(next(x for x in k.kids if x.name == "logical-expr")))
    raise ValueError(k.name)


def _flat(op, items):
    out = []
    for i in items:
        if isinstance(i, tuple) and i and i[0] == op:
            out.extend(i[1])
        else:
            out.append(i)
    return (op, out) if len(out) > 1 else out[0]


def _logical(t):
    o = t.kids[0]  # logical-or-expr
    ands = [x for x in o.kids if x.name == "logical-and-expr"]
    return _flat("or", [_flat("and", [_basic(b) for b in a.kids if b.name == "basic-expr"]) for a in ands])


def _basic(t):
    k = t.kids[0]
    if k.name == "paren-expr":
        neg = any(x.name == "logical-not-op" for x in k.kids)
        inner = _logical(next(x for x in k.kids if x.name == "logical-expr"))
        return ("not", inner) if neg else inner
    if k.name == "comparison-expr":
        cs = [x for x in k.kids if x.name == "comparable"]
        op = next(x for x in k.kids if x.name == "comparison-op").text
        return ("cmp", _comparable(cs[0]), op, _comparable(cs[1]))
    if k.name == "test-expr":
        neg = any(x.name == "logical-not-op" for x in k.kids)
        body = next(x for x in k.kids if x.name in ("filter-query", "function-expr"))
        v = _fquery(body) if body.name == "filter-query" else _call(body)
        return ("not", v) if neg else v
    raise ValueError(k.name)


def _fquery(t):
    k = t.kids[0]
    if k.name == "rel-query":
        return ("rel", _segments(k.child("segments")))
    return ("root", _segments(k.child("segments")))


def _singular(t):
    k = t.kids[0]
    segs = []
    sq = next(x for x in k.kids if x.name == "singular-query-segments")
    for s in sq.kids:
        if s.name == "name-segment":
            ns = next((x for x in s.kids if x.name == "name-selector"), None)
            if ns is not None:
                segs.append(("child", [("name", strlit.decode_literal(ns.text))]))
            else:
                segs.append(("child", [("name", next(x for x in s.kids if x.name == "member-name-shorthand").text)]))
        elif s.name == "index-segment":
            segs.append(("child", [("index", _int(next(x for x in s.kids if x.name == "index-selector")))]))
    return ("rel" if k.name == "rel-singular-query" else "root", segs)


def _literal(t):
    k = t.kids[0]
    if k.name == "number":
        return ("num", Fraction(k.text.replace("E", "e")) if "e" not in k.text.lower() else Fraction(float(k.text)) if abs(float(k.text)) < 1e308 else ("huge", k.text))
    if k.name == "string-literal":
        return ("str", strlit.decode_literal(k.text))
    return (k.name,)  # true / false / null


def _comparable(t):
    k = t.kids[0]
    if k.name == "literal":
        return _literal(k)
    if k.name == "singular-query":
        return _singular(k)
    return _call(k)


def _call(t):
    name = next(x for x in t.kids if x.name == "function-name").text
    args = []
    for a in t.kids:
        if a.name != "function-argument":
            continue
        k = a.kids[0]
        if k.name == "literal":
            args.append(_literal(k))
        elif k.name == "filter-query":
            args.append(_fquery(k))
        elif k.name == "function-expr":
            args.append(_call(k))
        else:
            args.append(_logical(k))
    return ("call", name, args)


# ---------------- implementation side ----------------
def impl_query(c):
    return [_i_segment(s) for s in c.segments]


def _i_segment(s):
    return ("desc" if isinstance(s, sg.JSONPathRecursiveDescentSegment) else "child", [_i_selector(x) for x in s.selectors])


def _i_selector(x):
    if isinstance(x, sl.NameSelector):
        return ("name", x.name)
    if isinstance(x, sl.WildcardSelector):
        return ("wild",)
    if isinstance(x, sl.IndexSelector):
        return ("index", x.index)
    if isinstance(x, sl.SliceSelector):
        return ("slice", x.slice.start, x.slice.stop, x.slice.step)
    if isinstance(x, sl.FilterSelector):
        return ("filter", _i_expr(x.expression))
    return ("?", type(x).__name__)


def _i_expr(e):
    if isinstance(e, fe.FilterExpression):
        return _i_expr(e.expression)
    if isinstance(e, fe.LogicalExpression):
        op = "and" if e.operator == "&&" else "or"
        return _flat(op, [_i_expr(e.left), _i_expr(e.right)])
    if isinstance(e, fe.PrefixExpression):
        return ("not", _i_expr(e.right))
    if isinstance(e, fe.ComparisonExpression):
        return ("cmp", _i_expr(e.left), e.operator, _i_expr(e.right))
    if isinstance(e, fe.RelativeFilterQuery):
        return ("rel", impl_query(e.query))
    if isinstance(e, fe.RootFilterQuery):
        return ("root", impl_query(e.query))
    if isinstance(e, fe.FunctionExtension):
        return ("call", e.name, [_i_expr(a) for a in e.args])
    if isinstance(e, fe.BooleanLiteral):
        return ("true",) if e.value else ("false",)
    if isinstance(e, fe.NullLiteral):
        return ("null",)
    if isinstance(e, fe.StringLiteral):
        return ("str", e.value)
    if isinstance(e, (fe.IntegerLiteral, fe.FloatLiteral)):
        try:
            return ("num", Fraction(e.value))
        except (OverflowError, ValueError):
            return ("num", ("huge", repr(e.value)))
    return ("?", type(e).__name__)


def norm(x):
    """float literals are compared as the double they denote"""
    if isinstance(x, tuple):
        if len(x) == 2 and x[0] == "num" and isinstance(x[1], Fraction):
            return ("num", float(x[1]))
        if len(x) == 2 and x[0] == "num":
            return ("num", "huge")
        return tuple(norm(i) for i in x)
    if isinstance(x, list):
        return [norm(i) for i in x]
    return x


def compare(q, compiled):
    """None if the oracle does not read q; else (equal, ref, impl)"""
    try:
        r = ref_query(q)
    except Exception:  # noqa: BLE001
        return None
    if r is None:
        return None
    i = impl_query(compiled)
    return (norm(r) == norm(i), r, i)
