"""A generic ABNF engine (RFC 5234 + RFC 7405).

* `Grammar.load(path)` / `Grammar.from_text(text)` parse the ABNF notation itself: rules, incremental
  alternatives `=/`, alternation `/`, concatenation, repetition (`*e`, `n*m e`, `n*e`, `*m e`, `n e`),
  optional `[..]`, groups `(..)`, char-val (`".."` and `%i".."` case-insensitive, `%s".."` case-sensitive),
  num-val (`%x41`, `%x41-5A`, `%x41.42.43`, also `%d`/`%b`), comments.  prose-val is not supported.
* `g.matches(rule, text)` is a complete recogniser: a memoised "set of end positions" interpreter of the
  ABNF operators.  It is complete for any grammar without left recursion (checked at load time).  Works on
  code points, so the full range U+0000..U+10FFFF is handled.  The memo lives for one call only.
* `g.parse(rule, text)` returns one derivation tree (`Tree`) or None: the first alternative (in the order
  written) that can complete is taken at every choice.
* `g.extended(extra_abnf_text)` returns a new grammar: `name = ...` replaces a rule, `name =/ ...` adds
  alternatives, new names are added.  Used to express named relaxations / restrictions of a grammar.
* `g.expand(rule, budget, terminals, limits)` is a bounded expander: all token sequences of at most
  `budget` tokens derivable from `rule`, where the rules named in `terminals` are replaced by the given
  token lists (one representative per lexical class).

Nothing here knows anything about JSONPath.
"""

from __future__ import annotations

import re
from typing import Dict, Iterable, Iterator, List, Optional, Sequence, Tuple

__all__ = ["Grammar", "Tree", "ABNFError"]


class ABNFError(Exception):
    pass


# --------------------------------------------------------------------------------------------------
# syntax tree of the ABNF notation (plain tuples)
#   ("alt", [n..]) ("cat", [n..]) ("rep", lo, hi|None, n) ("ref", name)
#   ("str", (cp..), case_insensitive) ("cls", ((lo, hi)..))
# --------------------------------------------------------------------------------------------------

_RULENAME = re.compile(r"[A-Za-z][A-Za-z0-9-]*")
_REPEAT = re.compile(r"(\d*)\*(\d*)|(\d+)")
_NUMVAL = re.compile(r"%([xXdDbB])([0-9A-Fa-f]+)((?:\.[0-9A-Fa-f]+)+|-[0-9A-Fa-f]+)?")


def _strip_comment(line: str) -> str:
    out = []
    in_q = False
    in_p = False
    for ch in line:
        if in_q:
            out.append(ch)
            if ch == '"':
                in_q = False
        elif in_p:
            out.append(ch)
            if ch == ">":
                in_p = False
        elif ch == '"':
            in_q = True
            out.append(ch)
        elif ch == "<":
            in_p = True
            out.append(ch)
        elif ch == ";":
            break
        else:
            out.append(ch)
    return "".join(out).rstrip()


def _logical_rules(text: str) -> List[str]:
    rules: List[str] = []
    for raw in text.splitlines():
        line = _strip_comment(raw)
        if not line.strip():
            continue
        if line[0] in " \t":
            if not rules:
                raise ABNFError("continuation line before any rule: %r" % raw)
            rules[-1] += " " + line.strip()
        else:
            rules.append(line)
    return rules


class _ElemParser:
    def __init__(self, src: str) -> None:
        self.s = src
        self.i = 0

    def ws(self) -> None:
        while self.i < len(self.s) and self.s[self.i] in " \t":
            self.i += 1

    def alternation(self):
        alts = [self.concatenation()]
        while True:
            self.ws()
            if self.i < len(self.s) and self.s[self.i] == "/":
                self.i += 1
                alts.append(self.concatenation())
            else:
                break
        return alts[0] if len(alts) == 1 else ("alt", alts)

    def concatenation(self):
        parts = []
        while True:
            self.ws()
            if self.i >= len(self.s) or self.s[self.i] in "/)]":
                break
            parts.append(self.repetition())
        if not parts:
            raise ABNFError("empty concatenation at %d in %r" % (self.i, self.s))
        return parts[0] if len(parts) == 1 else ("cat", parts)

    def repetition(self):
        m = _REPEAT.match(self.s, self.i)
        lo, hi, has = 1, 1, False
        if m and m.group(0):
            has = True
            self.i = m.end()
            if m.group(3) is not None:
                lo = hi = int(m.group(3))
            else:
                lo = int(m.group(1)) if m.group(1) else 0
                hi = int(m.group(2)) if m.group(2) else None
        el = self.element()
        if not has:
            return el
        return ("rep", lo, hi, el)

    def element(self):
        s = self.s
        if self.i >= len(s):
            raise ABNFError("element expected at end of %r" % s)
        ch = s[self.i]
        if ch == "(":
            self.i += 1
            n = self.alternation()
            self.ws()
            if self.i >= len(s) or s[self.i] != ")":
                raise ABNFError("')' expected at %d in %r" % (self.i, s))
            self.i += 1
            return n
        if ch == "[":
            self.i += 1
            n = self.alternation()
            self.ws()
            if self.i >= len(s) or s[self.i] != "]":
                raise ABNFError("']' expected at %d in %r" % (self.i, s))
            self.i += 1
            return ("rep", 0, 1, n)
        if ch == '"':
            j = s.index('"', self.i + 1)
            lit = s[self.i + 1 : j]
            self.i = j + 1
            return ("str", tuple(ord(c) for c in lit), True)
        if ch == "%" and self.i + 2 < len(s) and s[self.i + 1] in "sSiI" and s[self.i + 2] == '"':
            ci = s[self.i + 1] in "iI"
            j = s.index('"', self.i + 3)
            lit = s[self.i + 3 : j]
            self.i = j + 1
            return ("str", tuple(ord(c) for c in lit), ci)
        if ch == "%":
            m = _NUMVAL.match(s, self.i)
            if not m:
                raise ABNFError("bad num-val at %d in %r" % (self.i, s))
            self.i = m.end()
            base = {"x": 16, "d": 10, "b": 2}[m.group(1).lower()]
            first = int(m.group(2), base)
            tail = m.group(3)
            if not tail:
                return ("cls", ((first, first),))
            if tail[0] == "-":
                return ("cls", ((first, int(tail[1:], base)),))
            return ("str", (first,) + tuple(int(x, base) for x in tail[1:].split(".")), False)
        if ch == "<":
            raise ABNFError("prose-val is not supported: %r" % s)
        m = _RULENAME.match(s, self.i)
        if not m:
            raise ABNFError("unexpected %r at %d in %r" % (ch, self.i, s))
        self.i = m.end()
        return ("ref", m.group(0).lower())


def _parse_rules(text: str) -> List[Tuple[str, bool, tuple]]:
    """-> [(lower-case name, incremental?, node)]"""
    out = []
    for line in _logical_rules(text):
        m = re.match(r"([A-Za-z][A-Za-z0-9-]*)\s*(=/|=)\s*", line)
        if not m:
            raise ABNFError("not a rule: %r" % line)
        p = _ElemParser(line[m.end() :])
        node = p.alternation()
        p.ws()
        if p.i != len(p.s):
            raise ABNFError("trailing text at %d in rule %r" % (p.i, line))
        out.append((m.group(1).lower(), m.group(2) == "=/", node, m.group(1)))
    return out


# --------------------------------------------------------------------------------------------------
# character classes
# --------------------------------------------------------------------------------------------------


def _merge_ranges(ranges: Iterable[Tuple[int, int]]) -> Tuple[Tuple[int, int], ...]:
    rs = sorted(ranges)
    out: List[List[int]] = []
    for lo, hi in rs:
        if out and lo <= out[-1][1] + 1:
            out[-1][1] = max(out[-1][1], hi)
        else:
            out.append([lo, hi])
    return tuple((a, b) for a, b in out)


def _ci_ranges(cp: int) -> Tuple[Tuple[int, int], ...]:
    c = chr(cp)
    if c.isascii() and c.isalpha():
        return _merge_ranges([(ord(c.lower()),) * 2, (ord(c.upper()),) * 2])
    return ((cp, cp),)


class _Cls:
    """A set of code points: 128-entry table for ASCII, range list above."""

    __slots__ = ("ranges", "ascii", "high")

    def __init__(self, ranges) -> None:
        self.ranges = _merge_ranges(ranges)
        self.ascii = [False] * 128
        hi_r = []
        for lo, hi in self.ranges:
            for c in range(lo, min(hi, 127) + 1):
                self.ascii[c] = True
            if hi >= 128:
                hi_r.append((max(lo, 128), hi))
        self.high = tuple(hi_r)

    def has(self, c: int) -> bool:
        if c < 128:
            return c >= 0 and self.ascii[c]
        for lo, hi in self.high:
            if lo <= c <= hi:
                return True
        return False


# --------------------------------------------------------------------------------------------------
# compiled nodes
# --------------------------------------------------------------------------------------------------


class _N:
    __slots__ = ("kind", "kids", "lo", "hi", "name", "cps", "ci", "cls", "fn", "nullable", "first", "src")

    def __init__(self, kind: str) -> None:
        self.kind = kind
        self.kids: List["_N"] = []
        self.lo = 0
        self.hi: Optional[int] = None
        self.name = ""
        self.cps: Tuple[int, ...] = ()
        self.ci = False
        self.cls: Optional[_Cls] = None
        self.fn = None
        self.nullable = False
        self.first: Optional[_Cls] = None
        self.src = None


class Tree:
    """Derivation tree node: one per rule reference (anonymous groups are flattened)."""

    __slots__ = ("name", "start", "end", "kids", "_text")

    def __init__(self, name: str, start: int, end: int, kids: List["Tree"], text: str) -> None:
        self.name = name
        self.start = start
        self.end = end
        self.kids = kids
        self._text = text

    @property
    def text(self) -> str:
        return self._text[self.start : self.end]

    def walk(self) -> Iterator["Tree"]:
        stack = [self]
        while stack:
            t = stack.pop()
            yield t
            stack.extend(reversed(t.kids))

    def find_all(self, name: str) -> List["Tree"]:
        return [t for t in self.walk() if t.name == name]

    def child(self, name: str) -> Optional["Tree"]:
        for k in self.kids:
            if k.name == name:
                return k
        return None

    def sexpr(self) -> str:
        if not self.kids:
            return "(%s %r)" % (self.name, self.text)
        return "(%s %s)" % (self.name, " ".join(k.sexpr() for k in self.kids))

    def __repr__(self) -> str:
        return "Tree(%s,%d,%d)" % (self.name, self.start, self.end)


_EMPTY: Tuple[int, ...] = ()


class _deep_recursion:
    """The interpreter recurses once per grammar operator per nesting level of the input (about 30
    frames per bracket level of a JSONPath query): lift Python's limit for the duration of a call."""

    LIMIT = 200000

    def __enter__(self):
        import sys

        self.old = sys.getrecursionlimit()
        if self.old < self.LIMIT:
            sys.setrecursionlimit(self.LIMIT)
        return self

    def __exit__(self, *exc):
        import sys

        sys.setrecursionlimit(self.old)
        return False


class Grammar:
    def __init__(self, ruledefs: "Dict[str, tuple]", display: "Dict[str, str]", order: List[str]) -> None:
        self._defs = ruledefs  # name -> syntax node
        self._display = display
        self._order = order
        self._rules: Dict[str, _N] = {}
        self._rule_index: Dict[str, int] = {}
        self._build()

    # ---------------------------------------------------------------- construction
    @classmethod
    def from_text(cls, text: str) -> "Grammar":
        defs: Dict[str, tuple] = {}
        display: Dict[str, str] = {}
        order: List[str] = []
        cls._merge(defs, display, order, text, allow_replace=False)
        return cls(defs, display, order)

    @classmethod
    def load(cls, path: str) -> "Grammar":
        with open(path, encoding="utf-8") as fh:
            return cls.from_text(fh.read())

    @staticmethod
    def _merge(defs, display, order, text: str, allow_replace: bool) -> None:
        seen_here = set()
        for name, incremental, node, shown in _parse_rules(text):
            if incremental:
                if name not in defs:
                    raise ABNFError("=/ for undefined rule %s" % shown)
                old = defs[name]
                alts = list(old[1]) if old[0] == "alt" else [old]
                alts.extend(node[1] if node[0] == "alt" else [node])
                defs[name] = ("alt", alts)
            else:
                if name in defs and (not allow_replace or name in seen_here):
                    raise ABNFError("rule %s defined twice" % shown)
                if name not in defs:
                    order.append(name)
                defs[name] = node
                display[name] = shown
            seen_here.add(name)

    def extended(self, extra_abnf_text: str) -> "Grammar":
        """New grammar: `name = ..` replaces/adds a rule, `name =/ ..` adds alternatives."""
        defs = dict(self._defs)
        display = dict(self._display)
        order = list(self._order)
        self._merge(defs, display, order, extra_abnf_text, allow_replace=True)
        return Grammar(defs, display, order)

    def rule_names(self) -> List[str]:
        return [self._display[n] for n in self._order]

    # ---------------------------------------------------------------- build
    def _build(self) -> None:
        for i, name in enumerate(self._order):
            self._rule_index[name] = i
        # undefined references
        for name, node in self._defs.items():
            for ref in self._refs(node):
                if ref not in self._defs:
                    raise ABNFError("rule %s refers to undefined rule %s" % (name, ref))
        # rules that are pure character classes are inlined
        self._pure: Dict[str, _Cls] = {}
        changed = True
        while changed:
            changed = False
            for name, node in self._defs.items():
                if name in self._pure:
                    continue
                r = self._as_ranges(node)
                if r is not None:
                    self._pure[name] = _Cls(r)
                    changed = True
        for name in self._order:
            n = _N("rule")
            n.name = name
            self._rules[name] = n
        self._bodies: Dict[str, _N] = {}
        for name in self._order:
            self._bodies[name] = self._conv(self._defs[name])
        self._analyse()
        for name in self._order:
            self._compile(self._bodies[name])
        self._rule_fns = {}
        for name in self._order:
            self._rule_fns[name] = self._make_rule_fn(name)

    def _refs(self, node) -> Iterator[str]:
        k = node[0]
        if k == "ref":
            yield node[1]
        elif k in ("alt", "cat"):
            for c in node[1]:
                yield from self._refs(c)
        elif k == "rep":
            yield from self._refs(node[3])

    def _as_ranges(self, node):
        k = node[0]
        if k == "cls":
            return list(node[1])
        if k == "str" and len(node[1]) == 1:
            return list(_ci_ranges(node[1][0])) if node[2] else [(node[1][0], node[1][0])]
        if k == "ref":
            c = self._pure.get(node[1])
            return list(c.ranges) if c is not None else None
        if k == "alt":
            out = []
            for a in node[1]:
                r = self._as_ranges(a)
                if r is None:
                    return None
                out.extend(r)
            return out
        return None

    def _conv(self, node, inline_ref: bool = False) -> _N:
        # a bare reference stays a reference (so that it shows up in derivation trees) unless it is the
        # body of a repetition; single-character alternatives / literals become one character class
        r = self._as_ranges(node) if (node[0] != "ref" or inline_ref) else None
        if r is not None:
            n = _N("cls")
            n.cls = _Cls(r)
            n.src = node
            return n
        k = node[0]
        if k == "str":
            n = _N("str")
            n.cps = node[1]
            n.ci = node[2] and any(chr(c).isascii() and chr(c).isalpha() for c in node[1])
            if n.ci:
                n.cps = tuple(ord(chr(c).lower()) if chr(c).isascii() else c for c in node[1])
            n.src = node
            return n
        if k == "ref":
            n = _N("ref")
            n.name = node[1]
            return n
        if k == "alt":
            # merge neighbouring single-character alternatives into one class, keep order otherwise
            kids: List[_N] = []
            pending: List[Tuple[int, int]] = []
            for a in node[1]:
                ra = self._as_ranges(a)
                if ra is not None:
                    pending.extend(ra)
                    continue
                if pending:
                    c = _N("cls")
                    c.cls = _Cls(pending)
                    kids.append(c)
                    pending = []
                kids.append(self._conv(a))
            if pending:
                c = _N("cls")
                c.cls = _Cls(pending)
                kids.append(c)
            n = _N("alt")
            n.kids = kids
            return n
        if k == "cat":
            n = _N("cat")
            n.kids = [self._conv(c) for c in node[1]]
            return n
        if k == "rep":
            n = _N("rep")
            n.lo, n.hi = node[1], node[2]
            n.kids = [self._conv(node[3], inline_ref=True)]
            return n
        raise ABNFError("bad node %r" % (node,))

    # nullable / FIRST sets / left-recursion check ------------------------------------------------
    def _analyse(self) -> None:
        nullable: Dict[str, bool] = {n: False for n in self._order}
        first: Dict[str, List[Tuple[int, int]]] = {n: [] for n in self._order}

        def nn(n: _N) -> bool:
            k = n.kind
            if k == "cls":
                return False
            if k == "str":
                return len(n.cps) == 0
            if k == "ref":
                return nullable[n.name]
            if k == "alt":
                return any(nn(c) for c in n.kids)
            if k == "cat":
                return all(nn(c) for c in n.kids)
            if k == "rep":
                return n.lo == 0 or nn(n.kids[0])
            raise AssertionError(k)

        def ff(n: _N) -> List[Tuple[int, int]]:
            k = n.kind
            if k == "cls":
                return list(n.cls.ranges)
            if k == "str":
                if not n.cps:
                    return []
                return list(_ci_ranges(n.cps[0])) if n.ci else [(n.cps[0], n.cps[0])]
            if k == "ref":
                return list(first[n.name])
            if k == "alt":
                out: List[Tuple[int, int]] = []
                for c in n.kids:
                    out.extend(ff(c))
                return out
            if k == "cat":
                out = []
                for c in n.kids:
                    out.extend(ff(c))
                    if not nn(c):
                        break
                return out
            if k == "rep":
                return ff(n.kids[0]) if (n.hi is None or n.hi > 0) else []
            raise AssertionError(k)

        changed = True
        while changed:
            changed = False
            for name in self._order:
                b = self._bodies[name]
                v = nn(b)
                if v != nullable[name]:
                    nullable[name] = v
                    changed = True
                f = list(_merge_ranges(ff(b)))
                if f != first[name]:
                    first[name] = f
                    changed = True

        # left recursion: rule A can begin (after nullable prefixes) with A
        def left_refs(n: _N) -> List[str]:
            k = n.kind
            if k == "ref":
                return [n.name]
            if k == "alt":
                return [r for c in n.kids for r in left_refs(c)]
            if k == "cat":
                out = []
                for c in n.kids:
                    out.extend(left_refs(c))
                    if not nn(c):
                        break
                return out
            if k == "rep":
                return left_refs(n.kids[0])
            return []

        edges = {name: set(left_refs(self._bodies[name])) for name in self._order}
        for name in self._order:
            seen = set()
            stack = list(edges[name])
            while stack:
                x = stack.pop()
                if x == name:
                    raise ABNFError("left recursion through rule %s" % self._display[name])
                if x in seen:
                    continue
                seen.add(x)
                stack.extend(edges[x])

        def annotate(n: _N) -> None:
            for c in n.kids:
                annotate(c)
            n.nullable = nn(n)
            n.first = _Cls(ff(n))

        for name in self._order:
            annotate(self._bodies[name])
            r = self._rules[name]
            r.nullable = nullable[name]
            r.first = _Cls(first[name])

    # compilation to closures: fn(cs, pos, memo) -> iterable of end positions (no duplicates) -------
    def _compile(self, n: _N):
        for c in n.kids:
            self._compile(c)
        k = n.kind
        if k == "cls":
            asc = n.cls.ascii
            high = n.cls.high
            if not high:

                def f_cls(cs, pos, memo, asc=asc):
                    c = cs[pos]
                    if 0 <= c < 128 and asc[c]:
                        return (pos + 1,)
                    return _EMPTY

            else:

                def f_cls(cs, pos, memo, asc=asc, high=high):
                    c = cs[pos]
                    if c < 128:
                        if c >= 0 and asc[c]:
                            return (pos + 1,)
                        return _EMPTY
                    for lo, hi in high:
                        if lo <= c <= hi:
                            return (pos + 1,)
                    return _EMPTY

            n.fn = f_cls
        elif k == "str":
            cps = list(n.cps)
            ln = len(cps)
            if n.ci:

                def f_str(cs, pos, memo, cps=cps, ln=ln):
                    seg = cs[pos : pos + ln]
                    if len(seg) != ln:
                        return _EMPTY
                    for a, b in zip(seg, cps):
                        if a != b and not (65 <= a <= 90 and a + 32 == b):
                            return _EMPTY
                    return (pos + ln,)

            else:

                def f_str(cs, pos, memo, cps=cps, ln=ln):
                    if cs[pos : pos + ln] == cps:
                        return (pos + ln,)
                    return _EMPTY

            n.fn = f_str
        elif k == "ref":
            name = n.name
            gram = self  # late binding: rule functions are created after all bodies are compiled

            def f_ref(cs, pos, memo, name=name, gram=gram):
                return gram._rule_fns[name](cs, pos, memo)

            n.fn = f_ref
        elif k == "alt":
            kids = n.kids
            # dispatch on the next code point: ASCII table of applicable alternatives
            table = []
            for c in range(128):
                table.append(tuple(a.fn for a in kids if a.nullable or a.first.has(c)))
            eof = tuple(a.fn for a in kids if a.nullable)
            highs = tuple((a.fn, a.nullable, a.first) for a in kids if a.nullable or a.first.high)

            def f_alt(cs, pos, memo, table=table, eof=eof, highs=highs):
                c = cs[pos]
                if c < 0:
                    fns = eof
                elif c < 128:
                    fns = table[c]
                else:
                    fns = [fn for fn, nl, fs in highs if nl or fs.has(c)]
                if not fns:
                    return _EMPTY
                if len(fns) == 1:
                    return fns[0](cs, pos, memo)
                out = None
                owned = False
                for fn in fns:
                    r = fn(cs, pos, memo)
                    if r:
                        if out is None:
                            out = r
                        else:
                            if not owned:  # never mutate a (possibly memoised) result of a child
                                out = set(out)
                                owned = True
                            out.update(r)
                return out if out is not None else _EMPTY

            n.fn = f_alt
        elif k == "cat":
            fns = [c.fn for c in n.kids]

            def f_cat(cs, pos, memo, fns=fns):
                cur = (pos,)
                for fn in fns:
                    if len(cur) == 1:
                        for p in cur:
                            cur = fn(cs, p, memo)
                    else:
                        nxt = set()
                        for p in cur:
                            nxt.update(fn(cs, p, memo))
                        cur = nxt
                    if not cur:
                        return _EMPTY
                return cur

            n.fn = f_cat
        elif k == "rep":
            lo, hi = n.lo, n.hi
            body = n.kids[0]
            if body.kind == "cls":
                cl = body.cls

                def f_rep_cls(cs, pos, memo, lo=lo, hi=hi, has=cl.has, asc=cl.ascii, high=cl.high):
                    p = pos
                    lim = (pos + hi) if hi is not None else len(cs)
                    while p < lim:
                        c = cs[p]
                        if c < 128:
                            if c < 0 or not asc[c]:
                                break
                        elif not has(c):
                            break
                        p += 1
                    if p - pos < lo:
                        return _EMPTY
                    if p == pos + lo:
                        return (p,)
                    return range(pos + lo, p + 1)

                n.fn = f_rep_cls
            else:
                fn = body.fn

                def f_rep(cs, pos, memo, lo=lo, hi=hi, fn=fn):
                    out = set()
                    if lo == 0:
                        out.add(pos)
                    cur = {pos}
                    seen_all = {pos}
                    count = 0
                    while cur and (hi is None or count < hi):
                        nxt = set()
                        for p in cur:
                            nxt.update(fn(cs, p, memo))
                        count += 1
                        if count >= lo:
                            new = nxt - out
                            out |= nxt
                            if not new and count > lo:
                                break
                            cur = new if count > lo else nxt
                        else:
                            cur = nxt
                    if len(out) == 1:
                        return tuple(out)
                    return out

                n.fn = f_rep
        else:
            raise AssertionError(k)

    def _make_rule_fn(self, name: str):
        body_fn = self._bodies[name].fn
        idx = self._rule_index[name]
        r = self._rules[name]
        nullable = r.nullable
        asc = r.first.ascii
        has = r.first.has
        shift = 8  # memo key = pos << 8 | rule index  (grammars here have < 256 rules)
        if len(self._order) >= 256:
            shift = 16

        def f_rule(cs, pos, memo, body_fn=body_fn, idx=idx, nullable=nullable, asc=asc, has=has, shift=shift):
            if not nullable:
                c = cs[pos]
                if c < 128:
                    if c < 0 or not asc[c]:
                        return _EMPTY
                elif not has(c):
                    return _EMPTY
            key = (pos << shift) | idx
            r = memo.get(key)
            if r is None:
                r = body_fn(cs, pos, memo)
                memo[key] = r
            return r

        return f_rule

    # ---------------------------------------------------------------- recognise
    @staticmethod
    def _codes(text: str) -> List[int]:
        cs = [ord(c) for c in text]
        cs.append(-1)
        return cs

    def _rule(self, rule: str) -> str:
        name = rule.lower()
        if name not in self._rules:
            raise ABNFError("no such rule: %s" % rule)
        return name

    def ends(self, rule: str, text: str, pos: int = 0) -> List[int]:
        """All end positions e such that text[pos:e] derives from `rule`."""
        name = self._rule(rule)
        cs = self._codes(text)
        with _deep_recursion():
            return sorted(self._rule_fns[name](cs, pos, {}))

    def matches(self, rule: str, text: str) -> bool:
        name = self._rule(rule)
        cs = self._codes(text)
        n = len(text)
        with _deep_recursion():
            r = self._rule_fns[name](cs, 0, {})
        return n in r

    class Session:
        """Several questions about one text, sharing the memo."""

        def __init__(self, g: "Grammar", text: str) -> None:
            self.g = g
            self.text = text
            self.cs = g._codes(text)
            self.memo: dict = {}

        def span_matches(self, rule: str, i: int, j: int) -> bool:
            """text[i:j] derives from rule (ABNF is context-free: the end positions of a rule at i do
            not depend on what follows, so the shared memo can be used for any span)."""
            name = self.g._rule(rule)
            with _deep_recursion():
                return j in self.g._rule_fns[name](self.cs, i, self.memo)

        def matches(self, rule: str) -> bool:
            return self.span_matches(rule, 0, len(self.text))

        def parse(self, rule: str) -> Optional[Tree]:
            return self.g._parse(self, rule)

    def session(self, text: str) -> "Grammar.Session":
        return Grammar.Session(self, text)

    # ---------------------------------------------------------------- derivation trees
    def parse(self, rule: str, text: str) -> Optional[Tree]:
        return self._parse(self.session(text), rule)

    def _parse(self, ses: "Grammar.Session", rule: str) -> Optional[Tree]:
        name = self._rule(rule)
        n = len(ses.text)
        with _deep_recursion():
            if n not in self._rule_fns[name](ses.cs, 0, ses.memo):
                return None
            kids = self._derive(self._bodies[name], 0, n, ses)
        return Tree(self._display[name], 0, n, kids, ses.text)

    def _derive(self, node: _N, i: int, j: int, ses: "Grammar.Session") -> List[Tree]:
        """node derives text[i:j] (precondition: j in node.fn(i)); returns the rule-level children."""
        k = node.kind
        cs, memo = ses.cs, ses.memo
        if k in ("cls", "str"):
            return []
        if k == "ref":
            body = self._bodies[node.name]
            return [Tree(self._display[node.name], i, j, self._derive(body, i, j, ses), ses.text)]
        if k == "alt":
            for a in node.kids:
                if j in a.fn(cs, i, memo):
                    return self._derive(a, i, j, ses)
            raise ABNFError("internal: no alternative derives the span")
        if k == "cat":
            parts = node.kids
            fwd = [{i}]
            for p in parts[:-1]:
                nxt = set()
                for s in fwd[-1]:
                    nxt.update(p.fn(cs, s, memo))
                fwd.append(nxt)
            cuts = [j]
            t = j
            for idx in range(len(parts) - 1, -1, -1):
                found = None
                for s in sorted(fwd[idx]):
                    if t in parts[idx].fn(cs, s, memo):
                        found = s
                        break
                if found is None:
                    raise ABNFError("internal: concatenation cannot be split")
                cuts.append(found)
                t = found
            cuts.reverse()
            out: List[Tree] = []
            for idx, p in enumerate(parts):
                out.extend(self._derive(p, cuts[idx], cuts[idx + 1], ses))
            return out
        if k == "rep":
            body = node.kids[0]
            if body.kind in ("cls", "str"):
                return []
            if i == j and node.lo == 0:
                return []
            levels = [{i}]
            hit = None
            while True:
                cnt = len(levels)  # number of iterations after computing next level
                if node.hi is not None and cnt > node.hi:
                    break
                nxt = set()
                for s in levels[-1]:
                    nxt.update(body.fn(cs, s, memo))
                if not nxt:
                    break
                levels.append(nxt)
                if cnt >= node.lo and j in nxt:
                    hit = cnt
                    break
                if len(levels) > len(cs) + node.lo + 2:
                    break
            if hit is None:
                raise ABNFError("internal: repetition cannot be split")
            cuts = [j]
            t = j
            for lv in range(hit - 1, -1, -1):
                found = None
                for s in sorted(levels[lv]):
                    if t in body.fn(cs, s, memo):
                        found = s
                        break
                if found is None:
                    raise ABNFError("internal: repetition cannot be split (back)")
                cuts.append(found)
                t = found
            cuts.reverse()
            out = []
            for a, b in zip(cuts, cuts[1:]):
                out.extend(self._derive(body, a, b, ses))
            return out
        raise AssertionError(k)

    # ---------------------------------------------------------------- bounded expander
    def expand(
        self,
        rule: str,
        budget: int,
        terminals: "Dict[str, Sequence[object]]",
        limits: "Optional[Dict[str, int]]" = None,
        weight=None,
    ) -> "set":
        """All token tuples derivable from `rule` whose total weight is <= budget.

        `terminals` maps rule names to lists of tokens standing for the whole rule (lexical classes);
        literal text of the grammar becomes `str` tokens.  `weight(token)` defaults to 1 (return 0 for
        markers such as optional blank space).  `limits` bounds how many times a rule may be open at
        once on the derivation path (nesting).  Character classes outside `terminals` contribute the
        first code point of each range.
        """
        terms = {k.lower(): tuple(v) for k, v in terminals.items()}
        limits = {k.lower(): v for k, v in (limits or {}).items()}
        lim_names = sorted(limits)
        if weight is None:
            weight = lambda tok: 1  # noqa: E731
        memo: Dict[tuple, frozenset] = {}
        EMPTYSEQ = frozenset([((), 0)])

        def w_of(seq) -> int:
            return sum(weight(t) for t in seq)

        def ex(node: _N, b: int, depth: tuple) -> frozenset:
            """frozenset of (token tuple, weight) with weight <= b"""
            key = (id(node), b, depth)
            r = memo.get(key)
            if r is not None:
                return r
            k = node.kind
            if k == "cls":
                out = set()
                for lo, _hi in node.cls.ranges:
                    tok = chr(lo)
                    w = weight(tok)
                    if w <= b:
                        out.add(((tok,), w))
                r = frozenset(out)
            elif k == "str":
                src = node.src
                tok = "".join(chr(c) for c in (src[1] if src is not None else node.cps))
                w = weight(tok)
                r = frozenset([((tok,), w)]) if w <= b else frozenset()
            elif k == "ref":
                name = node.name
                if name in terms:
                    out = set()
                    for tok in terms[name]:
                        w = weight(tok)
                        if w <= b:
                            out.add(((tok,), w))
                    r = frozenset(out)
                else:
                    d2 = depth
                    if name in limits:
                        ix = lim_names.index(name)
                        if depth[ix] >= limits[name]:
                            memo[key] = frozenset()
                            return memo[key]
                        d2 = depth[:ix] + (depth[ix] + 1,) + depth[ix + 1 :]
                    if name in self._pure:
                        out = set()
                        for lo, _hi in self._pure[name].ranges:
                            tok = chr(lo)
                            w = weight(tok)
                            if w <= b:
                                out.add(((tok,), w))
                        r = frozenset(out)
                    else:
                        r = ex(self._bodies[name], b, d2)
            elif k == "alt":
                out = set()
                for a in node.kids:
                    out |= ex(a, b, depth)
                r = frozenset(out)
            elif k == "cat":
                cur = EMPTYSEQ
                for part in node.kids:
                    nxt = set()
                    for seq, w in cur:
                        for s2, w2 in ex(part, b - w, depth):
                            nxt.add((seq + s2, w + w2))
                    cur = nxt
                    if not cur:
                        break
                r = frozenset(cur)
            elif k == "rep":
                body = node.kids[0]
                out = set()
                cur = set(EMPTYSEQ)
                count = 0
                if node.lo == 0:
                    out |= cur
                while cur and (node.hi is None or count < node.hi):
                    nxt = set()
                    for seq, w in cur:
                        for s2, w2 in ex(body, b - w, depth):
                            if w2 == 0 and count >= node.lo and not s2:
                                continue
                            nxt.add((seq + s2, w + w2))
                    count += 1
                    if count >= node.lo:
                        new = nxt - out
                        out |= nxt
                        # only sequences that gained weight can usefully be extended further
                        cur = {x for x in new}
                        if count > budget + node.lo + 1:
                            break
                    else:
                        cur = nxt
                r = frozenset(out)
            else:
                raise AssertionError(k)
            memo[key] = r
            return r

        name = self._rule(rule)
        start = _N("ref")
        start.name = name
        res = ex(start, budget, tuple(0 for _ in lim_names))
        return {seq for seq, _w in res}


if __name__ == "__main__":
    import os
    import sys
    import time

    here = os.path.dirname(os.path.abspath(__file__))
    g = Grammar.load(os.path.join(here, "rfc9535.abnf"))
    for q in sys.argv[1:] or ["$.a", "$[?@.a==1]", "$.a-b"]:
        t = time.time()
        ok = g.matches("jsonpath-query", q)
        print(q, ok, "%.2f ms" % ((time.time() - t) * 1e3))
