"""Reference semantics of RFC 9535 string literals and normalized paths.

Written from the ABNF transcribed in /verif/DESIGN.md Appendix D only; nothing in here
imports or imitates the implementation under test.

    string-literal = %x22 *double-quoted %x22 / %x27 *single-quoted %x27
    double-quoted  = unescaped / %x27 / ESC %x22 / ESC escapable
    single-quoted  = unescaped / %x22 / ESC %x27 / ESC escapable
    ESC            = %x5C
    unescaped      = %x20-21 / %x23-26 / %x28-5B / %x5D-D7FF / %xE000-10FFFF
    escapable      = %x62 / %x66 / %x6E / %x72 / %x74 / "/" / "\" / (%x75 hexchar)
    hexchar        = non-surrogate / (high-surrogate "\" %x75 low-surrogate)
    non-surrogate  = ((DIGIT / "A"/"B"/"C" / "E"/"F") 3HEXDIG) / ("D" %x30-37 2HEXDIG)
    high-surrogate = "D" ("8"/"9"/"A"/"B") 2HEXDIG
    low-surrogate  = "D" ("C"/"D"/"E"/"F") 2HEXDIG
    HEXDIG         = DIGIT / "A" / "B" / "C" / "D" / "E" / "F"     (RFC 7405: case-insensitive)

    normalized-path      = root-identifier *(normal-index-segment)
    normal-index-segment = "[" normal-selector "]"
    normal-selector      = normal-name-selector / normal-index-selector
    normal-name-selector = %x27 *normal-single-quoted %x27
    normal-single-quoted = normal-unescaped / ESC normal-escapable
    normal-unescaped     = %x20-26 / %x28-5B / %x5D-D7FF / %xE000-10FFFF
    normal-escapable     = %x62 / %x66 / %x6E / %x72 / %x74 / "'" / "\" / (%x75 normal-hexchar)
    normal-hexchar       = "0" "0" ( ("0" %x30-37) / ("0" %x62) / ("0" %x65-66) / ("1" normal-HEXDIG) )
    normal-HEXDIG        = DIGIT / %x61-66
    normal-index-selector = "0" / (DIGIT1 *DIGIT)
"""

from __future__ import annotations

from typing import Iterator
from typing import List
from typing import Optional
from typing import Tuple

HEXDIGITS = "0123456789abcdefABCDEF"

# escapable, the one-letter forms (case-sensitive: they are %x.. in the ABNF)
NAMED = {
    "b": "\x08",
    "f": "\x0c",
    "n": "\x0a",
    "r": "\x0d",
    "t": "\x09",
    "/": "/",
    "\\": "\\",
}
NAMED_OF_CP = {0x08: "b", 0x0C: "f", 0x0A: "n", 0x0D: "r", 0x09: "t", 0x2F: "/", 0x5C: "\\"}


def is_unescaped(cp: int) -> bool:
    """`unescaped` of the ABNF (neither quote, not backslash, no control, no surrogate)."""
    return (
        0x20 <= cp <= 0x21
        or 0x23 <= cp <= 0x26
        or 0x28 <= cp <= 0x5B
        or 0x5D <= cp <= 0xD7FF
        or 0xE000 <= cp <= 0x10FFFF
    )


def _hex4(s: str, i: int) -> Optional[int]:
    """Value of 4HEXDIG at s[i:i+4], or None."""
    part = s[i : i + 4]
    if len(part) != 4 or any(c not in HEXDIGITS for c in part):
        return None
    return int(part, 16)


def parse_literal(text: str) -> Tuple[Optional[str], Optional[str]]:
    """Return (value, None) for a valid string literal or (None, cause) otherwise.

    `text` includes the delimiting quotes.  `cause` is a short stable label of the first
    reason, scanning left to right, why `text` is not derivable from `string-literal`.
    """
    if len(text) < 2 or text[0] not in "'\"":
        return None, "not-quoted"
    quote = text[0]
    other = '"' if quote == "'" else "'"
    if text[-1] != quote:
        return None, "unclosed"
    body = text[1:-1]
    out: List[str] = []
    i, n = 0, len(body)
    while i < n:
        c = body[i]
        cp = ord(c)
        if c == "\\":
            if i + 1 >= n:
                # the backslash escapes the closing quote: no closing quote is left
                return None, "unclosed-trailing-backslash"
            e = body[i + 1]
            if e == quote:
                out.append(quote)
                i += 2
            elif e in NAMED:
                out.append(NAMED[e])
                i += 2
            elif e == "u":
                v = _hex4(body, i + 2)
                if v is None:
                    return None, "truncated-or-non-hex-u-escape"
                if 0xDC00 <= v <= 0xDFFF:
                    return None, "lone-low-surrogate"
                if 0xD800 <= v <= 0xDBFF:
                    if body[i + 6 : i + 8] != "\\u":
                        return None, "high-surrogate-not-followed-by-escape"
                    w = _hex4(body, i + 8)
                    if w is None:
                        return None, "high-surrogate-followed-by-truncated-escape"
                    if not 0xDC00 <= w <= 0xDFFF:
                        return None, "high-surrogate-followed-by-non-low"
                    out.append(chr(0x10000 + ((v - 0xD800) << 10) + (w - 0xDC00)))
                    i += 12
                else:
                    out.append(chr(v))
                    i += 6
            elif e == other:
                return None, "other-quote-escaped"
            else:
                return None, "unknown-escape"
        elif c == quote:
            return None, "own-quote-unescaped"
        elif c == other or is_unescaped(cp):
            out.append(c)
            i += 1
        elif cp < 0x20:
            return None, "raw-control-character"
        elif 0xD800 <= cp <= 0xDFFF:
            return None, "raw-surrogate-code-point"
        else:  # pragma: no cover - the classes above are exhaustive
            return None, "raw-other"
    return "".join(out), None


def decode_literal(text_including_quotes: str) -> Optional[str]:
    """The string a valid RFC 9535 string literal stands for; None when not a literal."""
    return parse_literal(text_including_quotes)[0]


def invalid_cause(text_including_quotes: str) -> Optional[str]:
    return parse_literal(text_including_quotes)[1]


# --------------------------------------------------------------------------------------
# Encoder: every spelling of one code point inside a literal of a given quote style.


def _case_variants(hex4: str) -> List[Tuple[str, str]]:
    """(label, digits) for upper, lower and a mixed-case spelling; deduplicated."""
    up = hex4.upper()
    lo = hex4.lower()
    mixed = "".join(
        (ch.lower() if k % 2 == 0 else ch.upper()) for k, ch in enumerate(hex4)
    )
    mixed2 = "".join(
        (ch.upper() if k % 2 == 0 else ch.lower()) for k, ch in enumerate(hex4)
    )
    seen = {}
    for label, d in (("upper", up), ("lower", lo), ("mixed", mixed), ("mixed2", mixed2)):
        if d not in seen.values():
            seen[label] = d
    return list(seen.items())


def spellings(cp: int, quote: str) -> List[Tuple[str, str]]:
    """All *valid* body spellings of code point `cp` in a `quote`-delimited literal.

    Returns (label, body-text) pairs.  Surrogate code points have no valid spelling.
    """
    other = '"' if quote == "'" else "'"
    out: List[Tuple[str, str]] = []
    if 0xD800 <= cp <= 0xDFFF:
        return out
    ch = chr(cp)
    if is_unescaped(cp) or ch == other:
        out.append(("raw", ch))
    if ch == quote:
        out.append(("escaped-own-quote", "\\" + quote))
    if cp in NAMED_OF_CP:
        out.append(("named-" + NAMED_OF_CP[cp].replace("\\", "backslash").replace("/", "solidus"), "\\" + NAMED_OF_CP[cp]))
    if cp <= 0xFFFF:
        for label, d in _case_variants("%04x" % cp):
            out.append(("u-" + label, "\\u" + d))
    else:
        v = cp - 0x10000
        hi = 0xD800 + (v >> 10)
        lo = 0xDC00 + (v & 0x3FF)
        hv = dict(_case_variants("%04x" % hi))
        lv = dict(_case_variants("%04x" % lo))
        for label in ("upper", "lower", "mixed"):
            out.append(
                ("pair-" + label, "\\u" + hv.get(label, hv["upper"]) + "\\u" + lv.get(label, lv["upper"]))
            )
        out.append(("pair-upper-lower", "\\u" + hv["upper"] + "\\u" + lv["lower"]))
    return out


def invalid_spellings(cp: int, quote: str) -> List[Tuple[str, str]]:
    """Body texts built from `cp` that are NOT valid (to be rejected)."""
    out: List[Tuple[str, str]] = []
    if 0xD800 <= cp <= 0xDFFF:
        for label, d in _case_variants("%04x" % cp):
            out.append(("lone-surrogate-u-" + label, "\\u" + d))
        return out
    ch = chr(cp)
    if cp < 0x20:
        out.append(("raw-control", ch))
    if ch == quote:
        out.append(("raw-own-quote", ch))
    if ch == "\\":
        out.append(("raw-backslash", ch))
    return out


def encode_literal(s: str, quote: str = "'", style: str = "minimal") -> str:
    """A valid literal (with quotes) for `s`.

    style "minimal": raw wherever the grammar allows, named escape else, \\uXXXX else.
    style "u-upper"/"u-lower": every character as \\u escape (pairs for astral).
    """
    parts: List[str] = []
    for ch in s:
        cp = ord(ch)
        if 0xD800 <= cp <= 0xDFFF:
            raise ValueError("surrogate code point has no literal spelling")
        sp = dict(spellings(cp, quote))
        if style == "minimal":
            for key in ("raw", "escaped-own-quote"):
                if key in sp:
                    parts.append(sp[key])
                    break
            else:
                named = [v for k, v in sp.items() if k.startswith("named-")]
                parts.append(named[0] if named else sp["u-lower"] if "u-lower" in sp else sp["u-upper"])
        elif style == "u-upper":
            parts.append(sp.get("u-upper") or sp.get("pair-upper") or sp.get("u-lower"))
        elif style == "u-lower":
            parts.append(sp.get("u-lower") or sp.get("pair-lower") or sp.get("u-upper"))
        else:
            raise ValueError(style)
    return quote + "".join(parts) + quote


# --------------------------------------------------------------------------------------
# Normalized paths (RFC 9535 section 2.7)

_NORMAL_NAMED = {0x08: "b", 0x0C: "f", 0x0A: "n", 0x0D: "r", 0x09: "t", 0x27: "'", 0x5C: "\\"}


def normal_name(name: str) -> str:
    """The normal-name-selector for `name` (with its single quotes)."""
    parts: List[str] = ["'"]
    for ch in name:
        cp = ord(ch)
        if cp in _NORMAL_NAMED:
            parts.append("\\" + _NORMAL_NAMED[cp])
        elif cp < 0x20:
            parts.append("\\u%04x" % cp)  # lower-case hex, always 00xx
        else:
            parts.append(ch)  # incl. '"', '/', DEL, U+2028, non-BMP: raw
    parts.append("'")
    return "".join(parts)


def normalized_path(location: tuple) -> str:
    """The unique normalized path of a location (tuple of member names and indices)."""
    parts = ["$"]
    for key in location:
        if isinstance(key, bool) or not isinstance(key, (int, str)):
            raise TypeError("location element %r" % (key,))
        if isinstance(key, str):
            parts.append("[" + normal_name(key) + "]")
        else:
            if key < 0:
                raise ValueError("negative index in a location")
            parts.append("[%d]" % key)
    return "".join(parts)


def _normal_unescaped(cp: int) -> bool:
    return (
        0x20 <= cp <= 0x26
        or 0x28 <= cp <= 0x5B
        or 0x5D <= cp <= 0xD7FF
        or 0xE000 <= cp <= 0x10FFFF
    )


def _normal_hexchar(d: str) -> bool:
    """normal-hexchar = "0" "0" ( ("0" %x30-37) / ("0" %x62) / ("0" %x65-66) / ("1" normal-HEXDIG) )"""
    if len(d) != 4 or d[0] != "0" or d[1] != "0":
        return False
    if d[2] == "0":
        return d[3] in "01234567" or d[3] == "b" or d[3] in "ef"
    if d[2] == "1":
        return d[3] in "0123456789abcdef"
    return False


def scan_normal_name(s: str, i: int) -> Optional[int]:
    """If a normal-name-selector starts at s[i], return the index just after it."""
    n = len(s)
    if i >= n or s[i] != "'":
        return None
    i += 1
    while i < n:
        c = s[i]
        if c == "'":
            return i + 1
        if c == "\\":
            if i + 1 >= n:
                return None
            e = s[i + 1]
            if e in "bfnrt'\\":
                i += 2
            elif e == "u":
                if not _normal_hexchar(s[i + 2 : i + 6]):
                    return None
                i += 6
            else:
                return None
        elif _normal_unescaped(ord(c)):
            i += 1
        else:
            return None
    return None


def is_normal_name(s: str) -> bool:
    return scan_normal_name(s, 0) == len(s)


def is_normalized_path(s: str) -> bool:
    """Recogniser for `normalized-path`."""
    if not s or s[0] != "$":
        return False
    i, n = 1, len(s)
    while i < n:
        if s[i] != "[":
            return False
        i += 1
        if i < n and s[i] == "'":
            j = scan_normal_name(s, i)
            if j is None:
                return False
            i = j
        else:
            j = i
            while j < n and s[j] in "0123456789":
                j += 1
            digits = s[i:j]
            if not digits or (len(digits) > 1 and digits[0] == "0"):
                return False
            i = j
        if i >= n or s[i] != "]":
            return False
        i += 1
    return True


def parse_normalized_path(s: str) -> Optional[tuple]:
    """Location denoted by a normalized path (None when `s` is not one)."""
    if not is_normalized_path(s):
        return None
    loc: List[object] = []
    i, n = 1, len(s)
    while i < n:
        i += 1  # "["
        if s[i] == "'":
            j = scan_normal_name(s, i)
            assert j is not None
            v = decode_literal(s[i:j])
            assert v is not None
            loc.append(v)
            i = j
        else:
            j = i
            while s[j] != "]":
                j += 1
            loc.append(int(s[i:j]))
            i = j
        i += 1  # "]"
    return tuple(loc)


# --------------------------------------------------------------------------------------
# Self-test of the oracle against itself (encoder vs decoder vs normal form).


def boundary_code_points() -> List[int]:
    """One code point per block of the partition induced by all range endpoints."""
    ends = [
        0x00, 0x07, 0x08, 0x09, 0x0A, 0x0B, 0x0C, 0x0D, 0x0E, 0x0F, 0x10, 0x17, 0x18,
        0x1F, 0x20, 0x21, 0x22, 0x23, 0x26, 0x27, 0x28, 0x2F, 0x30, 0x37, 0x39, 0x41,
        0x46, 0x5A, 0x5B, 0x5C, 0x5D, 0x61, 0x62, 0x66, 0x6E, 0x72, 0x74, 0x75, 0x7A,
        0x7E, 0x7F, 0x80, 0x9F, 0xA0, 0xFF, 0x100, 0x7FF, 0x800, 0xFFF, 0x1000, 0x2028,
        0x2029, 0xCFFF, 0xD000, 0xD7FF, 0xD800, 0xDBFF, 0xDC00, 0xDFFF, 0xE000, 0xEFFF,
        0xF000, 0xFEFF, 0xFFFD, 0xFFFE, 0xFFFF, 0x10000, 0x10001, 0x103FF, 0x10400,
        0x1F600, 0x1FFFF, 0x20000, 0xFFFFF, 0x100000, 0x10FC00, 0x10FFFE, 0x10FFFF,
    ]
    out = set()
    for e in ends:
        for d in (-1, 0, 1):
            if 0 <= e + d <= 0x10FFFF:
                out.add(e + d)
    return sorted(out)


def _selftest() -> Iterator[str]:
    for cp in boundary_code_points():
        for q in "'\"":
            for label, body in spellings(cp, q):
                got = decode_literal(q + body + q)
                if got != chr(cp):
                    yield "spelling %s of U+%04X in %s decodes to %r" % (label, cp, q, got)
            for label, body in invalid_spellings(cp, q):
                if decode_literal(q + body + q) is not None:
                    yield "invalid spelling %s of U+%04X in %s accepted" % (label, cp, q)
        if not 0xD800 <= cp <= 0xDFFF:
            nm = normal_name("x" + chr(cp) + "y")
            if not is_normal_name(nm):
                yield "normal_name of U+%04X not recognised: %r" % (cp, nm)
            if decode_literal(nm) != "x" + chr(cp) + "y":
                yield "normal_name of U+%04X does not decode back: %r" % (cp, nm)
            if parse_normalized_path(normalized_path((chr(cp), 3, ""))) != (chr(cp), 3, ""):
                yield "normalized_path round trip U+%04X" % cp
            # uniqueness: every other valid single-quoted spelling is NOT normal
            for label, body in spellings(cp, "'"):
                lit = "'" + body + "'"
                if lit != normal_name(chr(cp)) and is_normal_name(lit):
                    yield "two normal spellings for U+%04X: %r" % (cp, lit)
    for bad in ("$[01]", "$[-1]", "$['a", "$.a", "$[\"a\"]", "$['\\u000A']", "$['\\u000a']",
                "$['\\/']", "$['\\u0041']", "$['\\u007f']", "$[ 1]", "$['a'] ", "", "$['\x01']"):
        if is_normalized_path(bad):
            yield "is_normalized_path accepts %r" % bad
    for good in ("$", "$[0]", "$[10]['a']", "$['\\u000b']", "$['\\u001f']", "$['\\\\']", "$['\\'']",
                 "$['\"']", "$['/']", "$['\x7f']", "$['\u2028']", "$['\U0001F600']", "$['']"):
        if not is_normalized_path(good):
            yield "is_normalized_path rejects %r" % good


if __name__ == "__main__":
    problems = list(_selftest())
    for p in problems:
        print(p)
    print("strlit selftest:", "FAIL" if problems else "ok")
