"""C01 bounded tie-in: filter-free queries x documents, find() == RFC 9535 reference semantics."""
import itertools

from bounded.common import docs, main
from bounded.semrun import run_product

SEL = ["'a'", '"b"', "''", "0", "1", "-1", "-2", "*", ":", "1:", ":1", "::2", "::-1", "1:3", "-2:", "2:0:-1", "::0"]
SHORT = [".a", ".b", ".*", "..a", "..*", ".e\u0301", "..e\u0301", ".\u00e9", "..\u00e9", ".\u1100\u1161", ".\uac00"]
# names that differ only by Unicode normalisation form: RFC 9535 compares names without normalisation


def queries(tier):
    qs = ["$"]
    lists = [[s] for s in SEL] + [list(p) for p in itertools.product(SEL[:9], repeat=2)]
    if tier == "thorough":
        lists += [list(p) for p in itertools.product(SEL[:6], repeat=3)]
    segs = []
    for l in lists:
        segs.append("[" + ",".join(l) + "]")
        segs.append("..[" + ",".join(l) + "]")
    segs += SHORT
    qs += ["$" + s for s in segs]
    small = [s for s in segs if s.count(",") == 0]
    for a, b in itertools.product(small, repeat=2):
        qs.append("$" + a + b)
    if tier == "thorough":
        core = SHORT + ["[*]", "[0]", "['a']", "[1:]", "..[0]", "..['a']", "[0,'a']"]
        for t in itertools.product(core, repeat=3):
            qs.append("$" + "".join(t))
    return qs


def classify(q, doc, what):
    if what.startswith("compile"):
        return "c01-valid-query-refused"
    if what.startswith(("raises", "crash")):
        return "c01-evaluation-raises-" + what.split(":")[1]
    if ".." in q:
        return "c01-descendant-segment-wrong"
    return "c01-child-segment-wrong"


def run(tier, seed):
    n = 4 if tier == "quick" else 5
    ds = docs(n, leaves=[None, 1, "a"], keys=["a", "b"])
    ds += [{"e\u0301": 1, "\u00e9": 2}, {"\u00e9": 2, "x": {"e\u0301": 1}}, {"\u1100\u1161": 1, "\uac00": 2}, [{"\uac00": [1]}, {"e\u0301": {"\u00e9": 3}}]]
    return run_product(queries(tier), ds, classify,
                       rule=f"all filter-free queries from selector lists <= {2 if tier == 'quick' else 3} over 17 representative selectors, child and "
                            f"descendant, segment sequences <= {2 if tier == 'quick' else 3}, x all JSON documents with <= {n} nodes over leaves "
                            "{null,1,'a'} and keys {a,b}; oracle = spec.rfc_select.query_nodes run natively on the compiled object tree.")


if __name__ == "__main__":
    main(run)
