"""C18 bounded runner: the descendant traversal is bounded by max_recursion_depth.

For an environment with ``max_recursion_depth = L``: ``find('$..*', doc)`` (also
``$..[0]``, ``$..a``) completes with the full result iff the container nesting of doc
(scalars 0, [] or {} 1, [[]] 2) is <= L, otherwise it raises JSONPathRecursionError -
in deterministic and in nondeterministic mode.  Cyclic data always raises
JSONPathRecursionError within 5 s.  Limits above the interpreter's own recursion limit
must still behave like that (never an interpreter RecursionError).
"""

from __future__ import annotations

import json
import multiprocessing as mp
import random
import signal
import sys
import time
from typing import Dict
from typing import List
from typing import Optional
from typing import Tuple

QUERIES = ["$..*", "$..[0]", "$..a"]
KINDS = ["arrays", "objects", "alt-array-first", "alt-object-first"]
POSITIONS = ["only", "first", "middle", "last"]
BOTTOMS = ["empty", "scalar"]
ND_SEEDS = 20
CYCLIC_TIMEOUT = 5


class _Timeout(BaseException):
    pass


def _on_alarm(signum, frame):  # noqa: ANN001, ANN202
    raise _Timeout


# ------------------------------------------------------------------ documents (built without recursion)


def build_doc(d: int, kind: str, pos: str, bottom: str) -> object:
    """A value of container nesting exactly d.  Level 1 is the outermost container.
    The innermost container is empty or holds one scalar; every other container holds
    the next level alone, or first / in the middle / last among three siblings (the two
    others are scalars).  In objects the deep branch is the member "a"."""
    if d == 0:
        return 1

    def is_array(level: int) -> bool:
        if kind == "arrays":
            return True
        if kind == "objects":
            return False
        if kind == "alt-array-first":
            return level % 2 == 1
        return level % 2 == 0

    if is_array(d):
        cur: object = [] if bottom == "empty" else [1]
    else:
        cur = {} if bottom == "empty" else {"a": 1}
    for level in range(d - 1, 0, -1):
        if is_array(level):
            cur = {"only": [cur], "first": [cur, 1, 1], "middle": [1, cur, 1], "last": [1, 1, cur]}[pos]
        elif pos == "only":
            cur = {"a": cur}
        elif pos == "first":
            cur = {"a": cur, "b": 1, "c": 1}
        elif pos == "middle":
            cur = {"b": 1, "a": cur, "c": 1}
        else:
            cur = {"b": 1, "c": 1, "a": cur}
    return cur


def nesting(doc: object) -> int:
    """Container nesting, iteratively (only for acyclic values)."""
    best = 0
    stack = [(doc, 1)]
    while stack:
        v, lv = stack.pop()
        if isinstance(v, list):
            best = max(best, lv)
            stack += [(x, lv + 1) for x in v]
        elif isinstance(v, dict):
            best = max(best, lv)
            stack += [(x, lv + 1) for x in v.values()]
    return best


def reference(query: str, doc: object) -> List[Tuple[tuple, object]]:
    """RFC 9535 descendant segment in document (pre-)order, iteratively: visit the node
    and then its descendants; at each visited node apply the selector."""
    out: List[Tuple[tuple, object]] = []
    stack: List[Tuple[tuple, object]] = [((), doc)]
    while stack:
        loc, v = stack.pop()
        if isinstance(v, list):
            if query == "$..*":
                out += [(loc + (i,), x) for i, x in enumerate(v)]
            elif query == "$..[0]" and v:
                out.append((loc + (0,), v[0]))
            stack += [(loc + (i,), x) for i, x in reversed(list(enumerate(v))) if isinstance(x, (list, dict))]
        elif isinstance(v, dict):
            if query == "$..*":
                out += [(loc + (k,), x) for k, x in v.items()]
            elif query == "$..a" and "a" in v:
                out.append((loc + ("a",), v["a"]))
            stack += [(loc + (k,), x) for k, x in reversed(list(v.items())) if isinstance(x, (list, dict))]
    return out


# ------------------------------------------------------------------ running one find


_ENVS: Dict[Tuple[int, bool], object] = {}


def env_for(limit: int, nd: bool):  # noqa: ANN201
    key = (limit, nd)
    if key not in _ENVS:
        from jsonpath_rfc9535 import JSONPathEnvironment

        cls = type("Env_%d_%s" % (limit, "nd" if nd else "det"), (JSONPathEnvironment,), {"max_recursion_depth": limit, "nondeterministic": nd})
        _ENVS[key] = cls()
    return _ENVS[key]


def outcome(env, query: str, doc: object, chooser: Optional[str] = None, seed: Optional[int] = None):  # noqa: ANN001, ANN201
    """("ok", [(location, value), ...]) or (exception class name, message)."""
    saved = random.choice
    if seed is not None:
        random.seed(seed)
    if chooser == "now":
        random.choice = lambda seq: seq[0]  # type: ignore[assignment]  # [True, False] -> visit now
    elif chooser == "later":
        random.choice = lambda seq: seq[-1]  # type: ignore[assignment]
    try:
        nodes = env.find(query, doc)
        return "ok", [(tuple(n.location), n.value) for n in nodes]
    except _Timeout:
        raise
    except BaseException as e:  # noqa: BLE001
        return type(e).__name__, str(e)[:120]
    finally:
        random.choice = saved


def judge(expect_ok: bool, mode: str, got: Tuple[str, object], ref: Optional[list], large: bool = False) -> Optional[Tuple[str, str]]:
    """None if fine, else (kind, observed-summary)."""
    status = got[0]
    if status == "RecursionError":
        return ("c18-interpreter-recursionerror-large-limit" if large else "c18-interpreter-recursionerror", "RecursionError")
    if status == "MemoryError":
        return ("c18-memoryerror", "MemoryError")
    if status not in ("ok", "JSONPathRecursionError"):
        return ("c18-raises-" + status, "%s: %s" % got)
    if expect_ok:
        if status != "ok":
            return ("c18-%s-wrong-boundary" % mode, "JSONPathRecursionError although nesting <= limit")
        res = got[1]
        assert ref is not None
        if mode == "det":
            same = len(res) == len(ref) and all(a[0] == b[0] and a[1] is b[1] for a, b in zip(res, ref))
        else:
            key = lambda it: (repr(it[0]), id(it[1]))  # noqa: E731
            same = sorted(map(key, res)) == sorted(map(key, ref))
        if not same:
            got_locs = {repr(l) for l, _ in res}
            missing = [l for l, _ in ref if repr(l) not in got_locs]
            if missing or len(res) < len(ref):
                return ("c18-incomplete-result", "%d of %d nodes, first missing %r" % (len(res), len(ref), missing[:1]))
            return ("c18-wrong-result", "%d nodes, expected %d (or different order/values)" % (len(res), len(ref)))
        return None
    if status == "ok":
        return ("c18-%s-accepts-beyond-limit" % mode, "completed with %d nodes although nesting > limit" % len(got[1]))  # type: ignore[arg-type]
    return None


# ------------------------------------------------------------------ part 1: limits x depths x shapes


def run_limit(args):  # noqa: ANN001, ANN201
    limit, seed = args
    res = {"evaluations": 0, "cases": 0, "violations": [], "boundary_cases": 0}
    seen_docs = set()
    for d in range(max(0, limit - 2), limit + 3):
        for kind in KINDS:
            for pos in POSITIONS:
                for bottom in BOTTOMS:
                    doc = build_doc(d, kind, pos, bottom)
                    text = json.dumps(doc, separators=(",", ":"))
                    if text in seen_docs:
                        continue
                    seen_docs.add(text)
                    assert nesting(doc) == d
                    expect_ok = d <= limit
                    shape = {"limit": limit, "nesting": d, "kind": kind, "deep_branch": pos, "bottom": bottom}
                    for q in QUERIES:
                        ref = reference(q, doc) if expect_ok else None
                        res["cases"] += 1
                        if d in (limit, limit + 1):
                            res["boundary_cases"] += 1
                        # deterministic
                        got = outcome(env_for(limit, False), q, doc)
                        res["evaluations"] += 1
                        bad = judge(expect_ok, "det", got, ref)
                        if bad:
                            res["violations"].append(_violation(bad[0], shape, q, "deterministic", doc, expect_ok, bad[1]))
                        # nondeterministic: seeded runs + the two extreme choosers
                        nd_env = env_for(limit, True)
                        bads: Dict[str, List[str]] = {}
                        summary: Dict[str, int] = {}
                        runs = [("seed", seed * 1000 + i) for i in range(ND_SEEDS)] + [("now", None), ("later", None)]
                        for how, s in runs:
                            if how == "seed":
                                got = outcome(nd_env, q, doc, seed=s)
                                label = "seed=%d" % s
                            else:
                                got = outcome(nd_env, q, doc, chooser=how, seed=seed)
                                label = "always-" + how
                            res["evaluations"] += 1
                            summary[got[0]] = summary.get(got[0], 0) + 1
                            bad = judge(expect_ok, "nd", got, ref)
                            if bad:
                                bads.setdefault(bad[0], []).append(label)
                        for k, labels in bads.items():
                            v = _violation(k, shape, q, "nondeterministic", doc, expect_ok, {"outcomes over %d runs" % len(runs): summary, "failing runs": labels[:4] + (["..."] if len(labels) > 4 else [])})
                            res["violations"].append(v)
    return res


def _violation(kind: str, shape: dict, query: str, mode: str, doc: object, expect_ok: bool, observed: object) -> dict:
    inp = dict(shape, query=query, mode=mode)
    try:
        text = json.dumps(doc, separators=(",", ":"))
        if len(text) <= 120:
            inp["document"] = doc
    except (RecursionError, ValueError):
        pass
    return {
        "kind": kind,
        "what": "limit %s, nesting %s (%s, deep branch %s, %s bottom), %s, %s" % (shape.get("limit"), shape.get("nesting"), shape.get("kind"), shape.get("deep_branch"), shape.get("bottom"), query, mode),
        "input": inp,
        "expected": "complete result" if expect_ok else "JSONPathRecursionError",
        "observed": observed,
    }


# ------------------------------------------------------------------ part 2: cyclic data


def cyclic_values() -> List[Tuple[str, object, bool]]:
    """(description, value, has_more_than_one_back_reference_per_container)"""
    out: List[Tuple[str, object, bool]] = []
    a: list = []
    a.append(a)
    out.append(("a=[a]", a, False))
    o: dict = {}
    o["a"] = o
    out.append(("o={'a':o}", o, False))
    a = [1, "x"]
    a.insert(1, a)
    out.append(("a=[1,a,'x']", a, False))
    o = {"b": 1}
    o["a"] = o
    out.append(("o={'b':1,'a':o}", o, False))
    a = []
    out.append(("[1,a=[a]] (cycle below the root)", [1, a], False))
    a.append(a)
    o = {}
    o["a"] = o
    out.append(("{'b':o={'a':o}} (cycle below the root)", {"b": o}, False))
    # 2-cycles
    a = []
    o = {"a": a}
    a.append(o)
    out.append(("2-cycle a=[o], o={'a':a}, root a", a, False))
    out.append(("2-cycle a=[o], o={'a':a}, root o", o, False))
    a = []
    b = [a]
    a.append(b)
    out.append(("2-cycle a=[b], b=[a]", a, False))
    o = {}
    p = {"a": o}
    o["a"] = p
    out.append(("2-cycle o={'a':p}, p={'a':o}", o, False))
    # 3-cycles
    a = []
    o = {"a": a}
    b = [o]
    a.append(b)
    out.append(("3-cycle a=[b], b=[o], o={'a':a}", a, False))
    o = {}
    p = {"a": o}
    a = [1, p]
    o["a"] = a
    out.append(("3-cycle o={'a':a}, a=[1,p], p={'a':o}", o, False))
    a = []
    b = [a]
    c = [b]
    a.append(c)
    out.append(("3-cycle a=[c], c=[b], b=[a]", a, False))
    # containers that refer to themselves (or to the cycle) more than once
    a = []
    a.append(a)
    a.append(a)
    out.append(("a=[a,a]", a, True))
    o = {}
    o["a"] = o
    o["b"] = o
    out.append(("o={'a':o,'b':o}", o, True))
    a = []
    o = {"a": a, "b": a}
    a.append(o)
    out.append(("2-cycle a=[o], o={'a':a,'b':a}", a, True))
    return out


def cyclic_runs(seed: int, n_seeds: int) -> List[Tuple[str, bool, Optional[str], Optional[int]]]:
    runs: List[Tuple[str, bool, Optional[str], Optional[int]]] = [("deterministic", False, None, None)]
    runs += [("nondeterministic seed=%d" % (seed * 1000 + i), True, None, seed * 1000 + i) for i in range(n_seeds)]
    runs += [("nondeterministic always-now", True, "now", seed), ("nondeterministic always-later", True, "later", seed)]
    return runs


def run_cyclic(args):  # noqa: ANN001, ANN201
    """args: (index of the cyclic value, limit, seed, queries, run indices or None, n_seeds)"""
    index, limit, seed, queries, only_runs, n_seeds = args
    desc, value, multi = cyclic_values()[index]
    res = {"evaluations": 0, "cases": 0, "violations": []}
    signal.signal(signal.SIGALRM, _on_alarm)
    try:
        import resource

        resource.setrlimit(resource.RLIMIT_AS, (6 << 30, 6 << 30))
    except (ImportError, ValueError, OSError):
        pass
    for q in queries:
        runs = cyclic_runs(seed, n_seeds)
        if only_runs is not None:
            runs = [runs[i] for i in only_runs]
        res["cases"] += 1
        for label, nd, chooser, s in runs:
            res["evaluations"] += 1
            t0 = time.time()
            signal.alarm(CYCLIC_TIMEOUT)
            try:
                got = outcome(env_for(limit, nd), q, value, chooser=chooser, seed=s)
            except _Timeout:
                got = ("timeout", "no result after %d s" % CYCLIC_TIMEOUT)
            finally:
                signal.alarm(0)
            if got[0] == "JSONPathRecursionError":
                continue
            if got[0] == "ok":
                obs = "completed with %d nodes" % len(got[1])  # type: ignore[arg-type]
            else:
                obs = "%s after %.1f s" % (got[0], time.time() - t0)
            mode = "nd" if nd else "det"
            if got[0] == "RecursionError":
                kind = "c18-cyclic-interpreter-recursionerror"
            elif multi:
                kind = "c18-cyclic-not-bounded-%s-multiple-back-references" % mode
            else:
                kind = "c18-cyclic-not-bounded"
            res["violations"].append({
                "kind": kind,
                "what": "cyclic value %s, limit %d, %s, %s: %s" % (desc, limit, q, label, obs),
                "input": {"cyclic_value": desc, "limit": limit, "query": q, "mode": label},
                "expected": "JSONPathRecursionError within %d s" % CYCLIC_TIMEOUT,
                "observed": obs,
            })
    return res


# ------------------------------------------------------------------ part 3: limits above the interpreter's recursion limit


def run_large(args):  # noqa: ANN001, ANN201
    limit, delta, kind, nd, seed = args
    d = limit + delta
    res = {"evaluations": 1, "cases": 1, "violations": []}
    doc = build_doc(d, kind, "only", "scalar")
    expect_ok = d <= limit
    q = "$..*"
    shape = {"limit": limit, "nesting": d, "kind": kind, "deep_branch": "only", "bottom": "scalar", "interpreter_recursion_limit": sys.getrecursionlimit()}
    signal.signal(signal.SIGALRM, _on_alarm)
    signal.alarm(120)
    try:
        got = outcome(env_for(limit, nd), q, doc, seed=seed if nd else None)
    except _Timeout:
        got = ("timeout", "")
    finally:
        signal.alarm(0)
    ref = reference(q, doc) if expect_ok and got[0] == "ok" else None
    bad = judge(expect_ok, "nd" if nd else "det", got, ref, large=True) if got[0] != "timeout" else ("c18-large-limit-timeout", "timeout")
    if bad:
        res["violations"].append(_violation(bad[0], shape, q, "nondeterministic seed=%d" % seed if nd else "deterministic", None, expect_ok, bad[1]))
    # let the deep structures go without recursion trouble
    del doc, ref, got
    return res


def _dispatch(job):  # noqa: ANN001, ANN201
    what, args = job
    if what == "limit":
        return what, run_limit(args)
    if what == "cyclic":
        return what, run_cyclic(args)
    return what, run_large(args)


def _vsize(v: dict) -> Tuple[int, int, str]:
    i = v["input"]
    return (int(i.get("limit", 0)), int(i.get("nesting", 0)), json.dumps(i, sort_keys=True, default=repr))


def run(tier: str, seed: int) -> dict:
    t0 = time.time()
    quick = tier == "quick"
    limits = list(range(1, 9)) + [16, 32, 64] if quick else list(range(1, 65))
    cyc_limits = [1, 2, 3, 5, 10, 100] if quick else [1, 2, 3, 4, 5, 8, 10, 20, 50, 100, 300]
    large_limits = [200, 500, 1000, 5000]
    n_cyc = len(cyclic_values())
    jobs: List[Tuple[str, tuple]] = []
    # cyclic ones can take 5 s per run: schedule first, spread over workers
    # A container that refers to the cycle more than once makes the nondeterministic
    # (queue based) traversal take time exponential in the limit: every such run costs
    # the full timeout, so these get one job per run; the quick tier runs fewer of them.
    cvals = cyclic_values()
    n_seeds = 5
    n_runs = n_seeds + 3
    for limit in sorted(cyc_limits, reverse=True):
        for i in reversed(range(n_cyc)):
            multi = cvals[i][2]
            if not multi or limit <= 10:
                jobs.append(("cyclic", (i, limit, seed, QUERIES, None, n_seeds)))
            elif quick:
                for r in (0, 1, n_runs - 2, n_runs - 1):
                    jobs.append(("cyclic", (i, limit, seed, ["$..*"], [r], n_seeds)))
            else:
                for q in QUERIES:
                    for r in range(n_runs):
                        jobs.append(("cyclic", (i, limit, seed, [q], [r], n_seeds)))
    for limit in large_limits:
        for delta in (-1, 1):
            for nd in (False, True):
                for kind in (["arrays"] if quick else ["arrays", "objects", "alt-array-first"]):
                    jobs.append(("large", (limit, delta, kind, nd, seed)))
    for limit in sorted(limits, reverse=True):
        jobs.append(("limit", (limit, seed)))
    results = _run_jobs(jobs, 16)
    evaluations = 0
    cases = 0
    boundary = 0
    viol: List[dict] = []
    per_part: Dict[str, int] = {}
    for what, r in results:
        evaluations += r["evaluations"]
        cases += r["cases"]
        boundary += r.get("boundary_cases", 0)
        per_part[what] = per_part.get(what, 0) + r["evaluations"]
        viol += r["violations"]
    by_kind: Dict[str, Dict[str, dict]] = {}
    for v in viol:
        by_kind.setdefault(v["kind"], {}).setdefault(json.dumps(v["input"], sort_keys=True, default=repr), v)
    out_viol: List[dict] = []
    for k in sorted(by_kind):
        out_viol += sorted(by_kind[k].values(), key=_vsize)[:40]
    rng = random.Random(seed)
    samples = []
    for _ in range(6):
        L = rng.choice(limits)
        d = max(0, L + rng.choice([-2, -1, 0, 1, 2]))
        kind, pos, bottom = rng.choice(KINDS), rng.choice(POSITIONS), rng.choice(BOTTOMS)
        doc = build_doc(d, kind, pos, bottom)
        samples.append({"limit": L, "nesting": d, "kind": kind, "deep_branch": pos, "bottom": bottom, "document": doc if d <= 6 else "(nesting %d)" % d, "expected": "complete" if d <= L else "JSONPathRecursionError"})
    samples.append({"cyclic_value": cyclic_values()[6][0], "limit": 100, "expected": "JSONPathRecursionError within 5 s"})
    samples.append({"limit": 1000, "nesting": 999, "kind": "arrays", "expected": "complete"})
    return {
        "evaluations": evaluations,
        "distinct_nontrivial": boundary,
        "rule": (
            "one case = (limit L, nesting d in L-2..L+2, shape, query); shapes = {all arrays, all objects, alternating x2} x deep branch "
            "{only child, first, middle, last of 3} x bottom {empty container, scalar}, duplicates by JSON text removed; each case is one "
            "deterministic find plus %d nondeterministic finds (%d seeded + always-visit-now + always-later); plus cyclic values x limits x "
            "queries x 8 runs, plus limits %r with nesting L-1 and L+1 under the default interpreter recursion limit. A case counts as "
            "non-trivial when d is L or L+1 (the two sides of the boundary)." % (ND_SEEDS + 2, ND_SEEDS, large_limits)
        ),
        "samples": samples,
        "bounds": {
            "limits": limits,
            "depth_window": "L-2..L+2",
            "queries": QUERIES,
            "shapes": len(KINDS) * len(POSITIONS) * len(BOTTOMS),
            "nd_runs_per_case": ND_SEEDS + 2,
            "cyclic_values": [c[0] for c in cyclic_values()],
            "cyclic_limits": cyc_limits,
            "cyclic_timeout_s": CYCLIC_TIMEOUT,
            "large_limits": large_limits,
            "interpreter_recursion_limit": sys.getrecursionlimit(),
            "cases": cases,
            "evaluations_per_part": per_part,
            "wall_seconds": round(time.time() - t0, 1),
        },
        "exhaustive": True,
        "unjudged": 0,
        "violations": out_viol,
    }


def _child_main(job, conn) -> None:  # noqa: ANN001
    try:
        conn.send(_dispatch(job))
    except BaseException as e:  # noqa: BLE001
        conn.send(("error", repr(e)))
    finally:
        conn.close()


def _run_jobs(jobs: List[Tuple[str, tuple]], procs: int, job_timeout: float = 400.0) -> List[Tuple[str, dict]]:
    """Every job in a forked child of its own (alarms, rlimits and crashes stay there);
    at most _procs_ at a time; results in job order."""
    from multiprocessing.connection import wait

    ctx = mp.get_context("fork")
    results: Dict[int, Tuple[str, dict]] = {}
    running: Dict[object, Tuple[int, object, float]] = {}
    nxt = 0
    while nxt < len(jobs) or running:
        while nxt < len(jobs) and len(running) < procs:
            parent, child = ctx.Pipe(duplex=False)
            p = ctx.Process(target=_child_main, args=(jobs[nxt], child))
            p.start()
            child.close()
            running[parent] = (nxt, p, time.time())
            nxt += 1
        ready = wait(list(running), timeout=5.0)
        now = time.time()
        for conn in list(running):
            idx, p, started = running[conn]
            out = None
            if conn in ready:
                try:
                    out = conn.recv()
                except EOFError:
                    out = ("error", "child died without a verdict")
            elif now - started > job_timeout:
                p.kill()  # type: ignore[attr-defined]
                out = ("error", "no verdict after %d s" % job_timeout)
            if out is None:
                continue
            p.join(10)  # type: ignore[attr-defined]
            del running[conn]
            conn.close()  # type: ignore[attr-defined]
            what, args = jobs[idx]
            if out[0] == "error":
                kind = "c18-large-limit-crash" if what == "large" else "c18-harness-error"
                out = (what, {"evaluations": 0, "cases": 0, "violations": [{
                    "kind": kind,
                    "what": "job %s %r: %s (exit code %r)" % (what, args, out[1], p.exitcode),  # type: ignore[attr-defined]
                    "input": {"job": what, "args": list(args)},
                    "expected": "a verdict",
                    "observed": out[1],
                }]})
            results[idx] = out
    return [results[i] for i in range(len(jobs))]


def main() -> None:
    import argparse

    ap = argparse.ArgumentParser()
    ap.add_argument("--tier", default="quick", choices=["quick", "thorough"])
    ap.add_argument("--seed", type=int, default=0)
    a = ap.parse_args()
    json.dump(run(a.tier, a.seed), sys.stdout, indent=1, ensure_ascii=False, default=repr)
    sys.stdout.write("\n")


if __name__ == "__main__":
    main()
