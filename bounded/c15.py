"""C15 bounded cross-check: the 11 public entry points agree, on valid and invalid queries."""
import jsonpath_rfc9535 as jp

from bounded import refsem
from bounded.common import Collector, docs, main

QUERIES = ["$", "$.a", "$..a", "$[*]", "$..*", "$[0,0]", "$[1:]", "$[?@.a]", "$[?@.a == 1]", "$[?count(@.*) > 1]", "$.a.b.c", "$..[?@ == 1]",
           "$[?match(@.a, 'a.*')]", "$[?@[?@ > $[0]]]", "$[?length(@) == 1]", "$['a','b']", "$[::-1]", "$.*.*",
           # invalid ones: every entry point must raise the same class
           "", "$.", "$[", "$[?@.a ==]", "$[?foo(@)]", "$[?count(@.a) ]", "$[?length(@.*) == 1]", "$[9007199254740992]", "$..", "a", "$[?@.a == 1e400]", "$[01]", "$['\\q']"]


def outcome(f):
    try:
        r = f()
        return ("ok", r)
    except Exception as e:  # noqa: BLE001
        return ("raise", type(e).__name__)


def nodes_repr(ns):
    return [(tuple(n.location), n.value) for n in ns]


def run(tier, seed):
    ds = docs(3 if tier == "quick" else 4, leaves=[None, 1, "a"], keys=["a", "b"]) + [[[1, 2], [7], 5], {"a": {"b": {"c": 1}}}, [{"a": "ab"}, {"a": 1}, "x"]]
    col = Collector()
    evals = 0
    nontrivial = set()
    samples = []
    env = jp.JSONPathEnvironment()
    for q in QUERIES:
        comp = outcome(lambda: env.compile(q))
        for di, d in enumerate(ds):
            evals += 1
            eps = {
                "module.find": outcome(lambda: nodes_repr(jp.find(q, d))),
                "module.finditer": outcome(lambda: nodes_repr(list(jp.finditer(q, d)))),
                "module.find_one": outcome(lambda: jp.find_one(q, d)),
                "module.compile.find": outcome(lambda: nodes_repr(jp.compile(q).find(d))),
                "env.find": outcome(lambda: nodes_repr(env.find(q, d))),
                "env.finditer": outcome(lambda: nodes_repr(list(env.finditer(q, d)))),
                "env.find_one": outcome(lambda: env.find_one(q, d)),
            }
            if comp[0] == "ok":
                c = comp[1]
                eps["query.find"] = outcome(lambda: nodes_repr(c.find(d)))
                eps["query.apply"] = outcome(lambda: nodes_repr(c.apply(d)))
                eps["query.finditer"] = outcome(lambda: nodes_repr(list(c.finditer(d))))
                eps["query.find_one"] = outcome(lambda: c.find_one(d))
            base = eps["module.find"]
            for name, o in eps.items():
                if name.endswith("find_one"):
                    if base[0] == "ok":
                        want = base[1][0] if base[1] else None
                        got = (tuple(o[1].location), o[1].value) if o[0] == "ok" and o[1] is not None else (None if o[0] == "ok" else o)
                        if not refsem.same(list(got) if isinstance(got, tuple) and got and got[0] != "raise" else got,
                                           list(want) if isinstance(want, tuple) else want):
                            col.add("c15-find-one-is-not-first-of-find", f"{name} disagrees with find()", {"query": q, "document": d}, want, got)
                    elif o != base:
                        col.add("c15-entry-points-raise-different-classes", f"{name} vs module.find", {"query": q, "document": d}, base, o)
                else:
                    same = (o[0] == base[0]) and (o[1] == base[1] if o[0] == "raise" else refsem.same([list(x) for x in o[1]], [list(x) for x in base[1]]))
                    if not same:
                        col.add("c15-entry-points-disagree" if base[0] == "ok" and o[0] == "ok" else "c15-entry-points-raise-different-classes",
                                f"{name} disagrees with module.find", {"query": q, "document": d}, base, o)
            if base[0] == "ok" and base[1]:
                nontrivial.add((q, di))
                if len(samples) < 5:
                    samples.append({"query": q, "document": d, "find": [list(x) for x in base[1]]})
            elif base[0] == "raise":
                nontrivial.add((q, "raise"))
    # the string-taking entry points must follow the environment's CURRENT configuration exactly like compile() does
    from jsonpath_rfc9535.function_extensions import ExpressionType as T, FilterFunction

    class One(FilterFunction):
        arg_types = [T.VALUE]
        return_type = T.LOGICAL

        def __call__(self, x):
            return x == 1

    class Two(FilterFunction):
        arg_types = [T.VALUE]
        return_type = T.VALUE

        def __call__(self, x):
            return 1

    for q, doc, changes in (("$[?f(@.a)]", [{"a": 1}, {"a": 2}], ["register", "replace", "remove"]), ("$[5]", list(range(9)), ["limit"]), ("$[?f(@.a) == 1]", [{"a": 1}], ["register2", "remove"])):
        e2 = jp.JSONPathEnvironment()
        for ch in ["none"] + changes:
            if ch == "register":
                e2.function_extensions["f"] = One()
            elif ch == "replace":
                e2.function_extensions["f"] = Two()
            elif ch == "register2":
                e2.function_extensions["f"] = Two()
            elif ch == "remove":
                e2.function_extensions.pop("f", None)
            elif ch == "limit":
                e2.max_int_index = 3
            evals += 1
            ref = outcome(lambda: nodes_repr(e2.compile(q).find(doc)))
            for name, f in (("env.find", lambda: nodes_repr(e2.find(q, doc))), ("env.finditer", lambda: nodes_repr(list(e2.finditer(q, doc)))),
                            ("env.find_one", lambda: (lambda n: [(tuple(n.location), n.value)] if n is not None else [])(e2.find_one(q, doc)))):
                o = outcome(f)
                want = ref if name != "env.find_one" or ref[0] == "raise" else ("ok", ref[1][:1])
                if o != want:
                    col.add("c15-entry-points-disagree-after-reconfiguration", f"{name} disagrees with compile().find() after the environment was changed ({ch})",
                            {"query": q, "document": doc, "change": ch}, want, o)
            nontrivial.add((q, ch))
    return {"evaluations": evals * 11, "distinct_nontrivial": len(nontrivial),
            "rule": f"{len(QUERIES)} queries (valid incl. filters/functions, and invalid of every error class) x all documents <= {3 if tier == 'quick' else 4} nodes: "
                    "the 11 entry points must give the same nodelist / first node / exception class. Non-trivial = (query, document) with a non-empty result, or an invalid query.",
            "samples": samples, "bounds": {"queries": len(QUERIES), "documents": len(ds)}, "exhaustive": True, "unjudged": 0, "violations": col.list()}


if __name__ == "__main__":
    main(run)
