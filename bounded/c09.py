"""C09 - string literals and member names decode exactly as RFC 9535 specifies.

Observed through the public API only:
    find("$[<lit>]", {name: 1, ...})          selects the member named decode_literal(lit)
    find("$[?@ == <lit>]", [s, s + "z", 0])   selects s iff s == decode_literal(lit)
for both quote styles.  The oracle is bounded/strlit.py (written from the ABNF).
"""
from __future__ import annotations

import itertools
import json
import random
import re
import sys
from pathlib import Path

sys.path.insert(0, str(Path(__file__).resolve().parent.parent))

from bounded import strlit  # noqa: E402
from bounded.common import main as _main  # noqa: E402
from bounded.common import pmap  # noqa: E402

PER_KIND = 40

# --------------------------------------------------------------------------------------
# classification of a literal by what is visible in it


def lex_units(lit: str):
    """Split the body of a (valid) literal into lexical units: [(kind, text)]."""
    quote = lit[0]
    other = '"' if quote == "'" else "'"
    body = lit[1:-1]
    out = []
    i, n = 0, len(body)
    while i < n:
        c = body[i]
        if c == "\\" and i + 1 < n:
            e = body[i + 1]
            if e == "u":
                v = strlit._hex4(body, i + 2)
                if v is None:
                    out.append(("bad-u", body[i : i + 2]))
                    i += 2
                elif 0xD800 <= v <= 0xDBFF and body[i + 6 : i + 8] == "\\u" and strlit._hex4(body, i + 8) is not None:
                    out.append(("u-surrogate-pair", body[i : i + 12]))
                    i += 12
                elif 0xD800 <= v <= 0xDFFF:
                    out.append(("u-lone-surrogate", body[i : i + 6]))
                    i += 6
                elif v < 0x20:
                    out.append(("u-control", body[i : i + 6]))
                    i += 6
                else:
                    out.append(("u-bmp", body[i : i + 6]))
                    i += 6
            elif e == quote:
                out.append(("escaped-own-quote", body[i : i + 2]))
                i += 2
            elif e in strlit.NAMED:
                nm = {"/": "solidus", "\\": "backslash"}.get(e, e)
                out.append(("named-" + nm, body[i : i + 2]))
                i += 2
            else:
                out.append(("bad-escape", body[i : i + 2]))
                i += 2
        else:
            cp = ord(c)
            if c == other:
                out.append(("raw-other-quote", c))
            elif cp < 0x20:
                out.append(("raw-control", c))
            elif cp < 0x7F:
                out.append(("raw-ascii", c))
            elif cp == 0x7F:
                out.append(("raw-del", c))
            elif cp <= 0xFFFF:
                out.append(("raw-bmp", c))
            else:
                out.append(("raw-astral", c))
            i += 1
    return out


_PRIORITY = [
    "u-control", "u-surrogate-pair", "u-bmp", "escaped-own-quote", "raw-other-quote",
    "named-b", "named-f", "named-n", "named-r", "named-t", "named-solidus", "named-backslash",
    "raw-astral", "raw-bmp", "raw-del", "raw-ascii",
]


def feature(lit: str) -> str:
    kinds = {k for k, _ in lex_units(lit)}
    for p in _PRIORITY:
        if p in kinds:
            return p
    return "empty" if not kinds else sorted(kinds)[0]


def nontrivial(lit: str, exp) -> bool:
    """Trivial = a valid literal whose body is only raw ASCII letters/digits."""
    if exp is None:
        return True
    return not re.fullmatch(r"[A-Za-z0-9]*", lit[1:-1])


# --------------------------------------------------------------------------------------
# the check of one literal (two evaluations)


def _observed_decoding(q):
    """Best effort, for the violation report only (never used by the oracle)."""
    try:
        sel = q.segments[0].selectors[0]
        if hasattr(sel, "name"):
            return sel.name
        ex = sel.expression.expression
        return ex.right.value
    except Exception:  # noqa: BLE001
        return None


SPEC_MISMATCH = []


def spec_tie_in(lit: str, exp) -> None:
    """the decoding spec the deductive part proves the parser against (/verif/spec/text.py: dec_from, dec_bad, dec_dangling),
    run natively on the literal body, must agree with the ABNF oracle on every valid literal (a disagreement is a fault of
    the specification, not of /repo: it aborts the run)"""
    if exp is None or len(lit) < 2:
        return
    from spec import text as T

    body = lit[1:-1]
    if lit[0] == "'":
        body = body.replace('"', '\\"').replace("\\'", "'")
    try:
        bad, dang = T.dec_bad(body, 0), T.dec_dangling(body, 0)
        val = None if bad or dang else "".join(T.dec_from(body, 0))
    except RecursionError:
        return
    if bad or dang or val != exp:
        SPEC_MISMATCH.append({"literal": lit, "oracle": exp, "spec": {"bad": bad, "dangling": dang, "value": val}})


def check_literal(lit: str, out: list) -> None:
    import jsonpath_rfc9535 as jp

    exp, cause = strlit.parse_literal(lit)
    spec_tie_in(lit, exp)
    for position in ("name", "comparison"):
        if position == "name":
            query = "$[" + lit + "]"
        else:
            query = "$[?@ == " + lit + "]"
        inp = {"literal": lit, "position": position, "query": query}
        try:
            q = jp.compile(query)
        except jp.JSONPathError as e:
            if exp is not None:
                f = feature(lit)
                kind = "c09-refuses-escaped-control-char" if f == "u-control" else "c09-refuses-valid-" + f
                out.append({"kind": kind, "what": "valid string literal refused: " + type(e).__name__ + ": " + str(e)[:80],
                            "input": inp, "expected": {"decodes_to": exp}, "observed": "rejected"})
            continue
        except Exception as e:  # noqa: BLE001
            out.append({"kind": "c09-crash-%s-on-%s-literal" % (type(e).__name__, "valid" if exp is not None else "invalid"),
                        "what": "compile raised a non-JSONPathError", "input": inp,
                        "expected": {"decodes_to": exp} if exp is not None else "JSONPathError",
                        "observed": type(e).__name__ + ": " + str(e)[:80]})
            continue
        if exp is None:
            out.append({"kind": "c09-accepts-invalid-" + cause, "what": "invalid string literal accepted",
                        "input": inp, "expected": "JSONPathError (" + cause + ")",
                        "observed": {"decoded_as": _observed_decoding(q)}})
            continue
        try:
            if position == "name":
                doc = {exp: 1, exp + "z": 2}
                if exp != "":
                    doc[""] = 3
                nodes = q.find(doc)
                got = [(n.location, n.value) for n in nodes]
                want = [((exp,), 1)]
            else:
                doc = [exp, exp + "z", 0]
                nodes = q.find(doc)
                got = [(n.location, n.value) for n in nodes]
                want = [((0,), exp)]
        except Exception as e:  # noqa: BLE001
            out.append({"kind": "c09-crash-%s-on-evaluation" % type(e).__name__, "what": "find raised",
                        "input": inp, "expected": {"decodes_to": exp}, "observed": type(e).__name__ + ": " + str(e)[:80]})
            continue
        if got != want:
            out.append({"kind": "c09-wrong-decoding-" + feature(lit), "what": "literal selects/compares as a different string",
                        "input": inp, "expected": {"decodes_to": exp, "nodes": want},
                        "observed": {"decoded_as": _observed_decoding(q), "nodes": got}})


# --------------------------------------------------------------------------------------
# enumeration


def phase_i_bodies(cp: int, quote: str):
    return strlit.spellings(cp, quote) + strlit.invalid_spellings(cp, quote)


_RE_U = re.compile(r"\\u([0-9a-fA-F]{4})")
_RE_PAIR = re.compile(r"\\u([0-9a-fA-F]{4})\\u([0-9a-fA-F]{4})")


def phase_i_cp_of(lit: str):
    """The code point whose phase-(i) enumeration contains `lit`, or None."""
    quote, body = lit[0], lit[1:-1]
    cp = None
    if len(body) == 1:
        cp = ord(body)
    elif len(body) == 2 and body[0] == "\\":
        if body[1] == quote:
            cp = ord(quote)
        elif body[1] in strlit.NAMED:
            cp = ord(strlit.NAMED[body[1]])
    elif _RE_U.fullmatch(body):
        cp = int(body[2:], 16)
    elif _RE_PAIR.fullmatch(body):
        hi, lo = int(body[2:6], 16), int(body[8:12], 16)
        if 0xD800 <= hi <= 0xDBFF and 0xDC00 <= lo <= 0xDFFF:
            cp = 0x10000 + ((hi - 0xD800) << 10) + (lo - 0xDC00)
    if cp is None:
        return None
    if any(b == body for _, b in phase_i_bodies(cp, quote)):
        return cp
    return None


def unit_alphabet(quote: str, reduced: bool = False):
    other = '"' if quote == "'" else "'"
    bs = "\\"
    full = [
        # raw characters, one per class
        "a", " ", "u", "n", "0", "D", "/", "]", "\x7f", "\x80", "\u00e9", "\u2028", "\ud7ff", "\ue000",
        "\uffff", "\U00010000", "\U0001F600", "\U0010FFFF",
        other,                      # the other quote, raw (valid)
        bs + quote,                 # own quote escaped (valid)
        bs + "b", bs + "f", bs + "n", bs + "r", bs + "t", bs + "/", bs + bs,
        bs + "u0041", bs + "u00e9", bs + "u00E9", bs + "u0000", bs + "u001F", bs + "u001f", bs + "u000a",
        bs + "u0020", bs + "u007f", bs + "u2028", bs + "uD7FF", bs + "ud7ff", bs + "uE000", bs + "uFFFF",
        bs + "u0027", bs + "u0022", bs + "u005c",
        bs + "uD83D" + bs + "uDE00", bs + "ud83d" + bs + "ude00", bs + "uD800" + bs + "uDC00", bs + "uDBFF" + bs + "uDFFF",
        # lone surrogates (invalid alone; a high followed by a low unit forms a pair)
        bs + "uD83D", bs + "uDE00", bs + "uD800", bs + "uDFFF", bs + "udbff", bs + "udc00",
        # invalid units
        bs + other,                 # the OTHER quote escaped
        bs + "q", bs + "U0041", bs + "B", bs + "a", bs + "0", bs + "x41", bs + " ",
        bs,                         # lone backslash (escapes whatever follows)
        bs + "u", bs + "u1", bs + "u12", bs + "u123", bs + "u12G4", bs + "u 041", bs + "u+041",
        "\x00", "\x01", "\x1f", "\t", "\n", "\r",   # raw control characters
        quote,                      # own quote raw
    ]
    if not reduced:
        return full
    return [
        "a", "u", "\U0001F600", other, bs + quote, bs + "n", bs + bs, bs + "u0041", bs + "u0000",
        bs + "uD83D" + bs + "uDE00", bs + "uD83D", bs + "uDE00", bs + other, bs + "q", bs, bs + "u12", "\n", quote,
    ]


def unit_literals(tier: str):
    out = []
    seen = set()
    for quote in "'\"":
        full = unit_alphabet(quote)
        red = unit_alphabet(quote, reduced=True)
        maxfull = 3 if tier == "thorough" else 2
        combos = [()]  # the empty literal
        for n in range(1, maxfull + 1):
            combos = itertools.chain(combos, itertools.product(full, repeat=n))
        if tier != "thorough":
            combos = itertools.chain(combos, itertools.product(red, repeat=3))
        for units in combos:
            lit = quote + "".join(units) + quote
            if lit not in seen:
                seen.add(lit)
                out.append(lit)
    return out


def pair_literals():
    """(ii) surrogate pairs: boundary rows/columns of the 1024x1024 grid + 64x64 lattice,
    and the invalid neighbours: lone, reversed, high + non-low, truncated."""
    highs = range(0xD800, 0xDC00)
    lows = range(0xDC00, 0xE000)
    pairs = set()
    for h in (0xD800, 0xDBFF):
        for lo in lows:
            pairs.add((h, lo))
    for lo in (0xDC00, 0xDFFF):
        for h in highs:
            pairs.add((h, lo))
    for h in range(0xD800, 0xDC00, 16):
        for lo in range(0xDC00, 0xE000, 16):
            pairs.add((h, lo))
    for h in range(0xD80F, 0xDC00, 16):
        for lo in range(0xDC0F, 0xE000, 16):
            pairs.add((h, lo))
    lits = []
    fmt = [("%04X", "%04X"), ("%04x", "%04x"), ("%04X", "%04x")]
    for h, lo in sorted(pairs):
        for fh, fl in fmt:
            body = "\\u" + fh % h + "\\u" + fl % lo
            for quote in "'\"":
                lits.append(quote + body + quote)
                lits.append(quote + "x" + body + "y" + quote)
    # invalid forms
    sample_h = sorted({0xD800, 0xD801, 0xD83D, 0xDBFE, 0xDBFF} | set(range(0xD800, 0xDC00, 64)))
    sample_l = sorted({0xDC00, 0xDC01, 0xDE00, 0xDFFE, 0xDFFF} | set(range(0xDC00, 0xE000, 64)))
    for quote in "'\"":
        other = '"' if quote == "'" else "'"
        for h in sample_h:
            H = "\\u%04X" % h
            tails = ["", "a", "\\u0041", "\\u0000", "\\n", "\\\\", H, "\\uD7FF", "\\uE000", "\\uDBFF", "\\uD800",
                     "\\", "\\u", "\\uD", "\\uDC", "\\uDC0", "\\uDC0G", "\\UDC00", "uDC00", "\\\\uDC00", " \\uDC00",
                     other, "\\" + quote, "\\udc0", "\\u dc00"]
            for t in tails:
                lits.append(quote + H + t + quote)
                lits.append(quote + "x" + H + t + "y" + quote)
                lits.append(quote + H.lower() + t + quote)
        for lo in sample_l:
            L = "\\u%04X" % lo
            for t in ["", "a", "\\uD800", "\\uD83D", L, "\\u0041"]:
                lits.append(quote + L + t + quote)
                lits.append(quote + "x" + L.lower() + t + "y" + quote)
    return lits


def quick_code_points(seed: int):
    cps = set(strlit.boundary_code_points())
    rnd = random.Random(seed * 7919 + 9)
    while len(cps) < len(strlit.boundary_code_points()) + 2000:
        cps.add(rnd.randrange(0, 0x110000))
    return sorted(cps)


# --------------------------------------------------------------------------------------
# workers


def _trim(viol: list) -> list:
    by = {}
    for v in viol:
        by.setdefault(v["kind"], []).append(v)
    out = []
    for k, vs in by.items():
        vs.sort(key=lambda v: (len(v["input"]["query"]), v["input"]["query"]))
        out.extend(vs[: PER_KIND * 2])
    return out


def _work(task):
    kind = task[0]
    viol: list = []
    n_lit = 0
    n_nontrivial = 0
    per_kind_count = {}
    samples = []
    if kind == "cps":
        def gen():
            for cp in task[1]:
                for quote in "'\"":
                    for label, body in phase_i_bodies(cp, quote):
                        yield quote + body + quote
        lits = gen()
    else:
        lits = task[1]
    for lit in lits:
        before = len(viol)
        check_literal(lit, viol)
        n_lit += 1
        exp = strlit.decode_literal(lit)
        if nontrivial(lit, exp):
            n_nontrivial += 1
        for v in viol[before:]:
            per_kind_count[v["kind"]] = per_kind_count.get(v["kind"], 0) + 1
        if len(viol) > 4000:
            viol = _trim(viol)
        if n_lit % 997 == 1 and len(samples) < 3 and len(viol) == before:
            samples.append({"literal": lit, "oracle": exp if exp is not None else "INVALID: " + strlit.invalid_cause(lit),
                            "verdict": "implementation agrees in both positions"})
    mism = list(SPEC_MISMATCH[:5])
    del SPEC_MISMATCH[:]
    return n_lit, n_nontrivial, _trim(viol), per_kind_count, samples, mism


def run(tier: str, seed: int) -> dict:
    problems = list(strlit._selftest())
    if problems:
        raise RuntimeError("strlit oracle self-test failed: " + "; ".join(problems[:3]))

    tasks = []
    if tier == "thorough":
        step = 0x800
        for start in range(0, 0x110000, step):
            tasks.append(("cps", range(start, min(start + step, 0x110000))))
        n_cps = 0x110000
        covered = lambda lit: phase_i_cp_of(lit) is not None  # noqa: E731
    else:
        cps = quick_code_points(seed)
        n_cps = len(cps)
        for k in range(0, len(cps), 64):
            tasks.append(("cps", cps[k : k + 64]))
        cpset = set(cps)
        covered = lambda lit: phase_i_cp_of(lit) in cpset  # noqa: E731

    extra = []
    seen = set()
    n_pair = n_unit = 0
    for src, lits in (("pairs", pair_literals()), ("units", unit_literals(tier))):
        for lit in lits:
            if lit in seen or covered(lit):
                continue
            seen.add(lit)
            extra.append(lit)
            if src == "pairs":
                n_pair += 1
            else:
                n_unit += 1
    # self-check of the enumerator against the oracle: unit alphabet must contain both verdicts
    n_valid_extra = sum(1 for lit in extra if strlit.decode_literal(lit) is not None)
    for k in range(0, len(extra), 2000):
        tasks.append(("lits", extra[k : k + 2000]))

    # interleave for load balance, deterministic
    results = pmap(_work, tasks)
    mism = [m for r in results for m in r[5]]
    if mism:
        raise RuntimeError("decoding spec (spec/text.py) disagrees with the ABNF oracle on valid literals: " + repr(mism[:3]))
    n_lit = sum(r[0] for r in results)
    n_nt = sum(r[1] for r in results)
    viol = []
    counts = {}
    samples = []
    for r in results:
        viol.extend(r[2])
        for k, c in r[3].items():
            counts[k] = counts.get(k, 0) + c
        samples.extend(r[4])
    by = {}
    for v in viol:
        by.setdefault(v["kind"], []).append(v)
    violations = []
    for k in sorted(by):
        vs = sorted(by[k], key=lambda v: (len(v["input"]["query"]), v["input"]["query"]))
        violations.extend(vs[:PER_KIND])
    samples = samples[:8]
    samples.append({"literal": "'\\uD83D\\uDE00'", "oracle": strlit.decode_literal("'\\uD83D\\uDE00'")})
    return {
        "evaluations": 2 * n_lit,
        "distinct_nontrivial": n_nt,
        "rule": (
            "A case is one string literal text (quotes included); it is executed in name-selector position "
            "($[lit] on {v:1, v+'z':2, '':3}) and in comparison position ($[?@ == lit] on [v, v+'z', 0]) = 2 evaluations. "
            "Literals: (i) for every code point of the tier's set, in each quote style, every valid spelling (raw, named "
            "escape, escaped own quote, \\uXXXX upper/lower/2 mixed cases, surrogate pair in 4 case mixes) and every "
            "invalid single-character form (raw control, raw own quote, raw backslash, lone surrogate escape); "
            "(ii) surrogate-pair grid rows/columns/lattice (3 hex cases, bare and embedded in x..y) and invalid "
            "neighbours (lone, reversed, high+non-low, truncated at every length); (iii) all concatenations of <= k units "
            "over the unit alphabet.  All literal texts are pairwise distinct (ii/iii drop texts already in (i)).  "
            "Non-trivial = every literal the oracle calls invalid, and every valid literal whose body is not just "
            "raw [A-Za-z0-9]*.  Oracle: bounded/strlit.py parse_literal, written from the ABNF; valid -> must select "
            "exactly the member / element equal to the decoded string, invalid -> compile must raise JSONPathError."
        ),
        "samples": samples,
        "bounds": {
            "tier": tier,
            "code_points": n_cps if tier == "thorough" else "%d = partition representatives +-1 and 2000 seeded random" % n_cps,
            "pair_and_invalid_pair_literals": n_pair,
            "unit_literals": n_unit,
            "unit_alphabet_size": len(unit_alphabet("'")),
            "max_units": 3 if tier == "thorough" else "2 over the full alphabet, 3 over an 18-unit sub-alphabet",
            "valid_among_ii_iii": n_valid_extra,
            "violation_counts_by_kind": dict(sorted(counts.items())),
            "seed": seed,
        },
        "exhaustive": True,
        "unjudged": 0,
        "violations": violations,
    }


if __name__ == "__main__":
    _main(run)
