"""C14 refuter harness: purity, repeatability, isolation of environments (bounded, exhaustive).

All operation sequences of length <= 4 (quick: <= 3) over the alphabet

    compile(q)            compile q on the shared environment A
    apply(q, d)           apply the query compiled on A (compiling it first if needed) to document d
    find_env(q, d)        A.find(q, d)
    find_mod(q, d)        jsonpath_rfc9535.find(q, d)               (module-level function, DEFAULT_ENV)
    register(f)           register a user FilterFunction on A       (a new name, or a replacement of `length`)
    subclass(kind, q, d)  create a NEW JSONPathEnvironment subclass (other function / other limits),
                          instantiate it and run find(q, d) on it

Oracle (independent of the implementation's internals): the result of an operation must equal the result
of the same query on equal data obtained from a FRESH environment of the same configuration with a freshly
compiled query in a pristine process (each reference result is computed in a forked child of its own, before anything else runs), where
"configuration" = the set of functions registered so far on that very environment.  Documents are compared
with a snapshot (serialisation and identity of every container) after every operation.  After a sequence
that registered / subclassed, environment B (created before the sequence), DEFAULT_ENV, the module-level
functions and a brand-new environment must behave as the pristine default configuration.
"""
from __future__ import annotations

import argparse
import copy
import itertools
import json
import multiprocessing as mp
import os
import sys
import time
from pathlib import Path

sys.path.insert(0, str(Path(__file__).resolve().parent.parent))

import jsonpath_rfc9535  # noqa: E402
from jsonpath_rfc9535 import JSONPathEnvironment  # noqa: E402
from jsonpath_rfc9535.function_extensions import ExpressionType, FilterFunction  # noqa: E402

# ------------------------------------------------------------------------------------------------
# the bounded space
# ------------------------------------------------------------------------------------------------
DOCS = {
    "d0": [{"a": [3, 1, 2], "b": 2, "s": "ab"}, {"a": [5, [6], 0], "b": 1, "k": 1, "s": "abc"}, {"b": [4, {"b": 2}], "a": []}],
    # same shape as d0, other values under the paths the `$` sub-queries read
    "d0x": [{"a": [3, 1, 2], "b": 2, "s": "ab"}, {"a": [5, [6], 0], "b": 4, "k": 1, "s": "abc"}, {"b": [4, {"b": 2}], "a": [9]}],
    "d1": {"k": 2, "x": [{"a": [3, 1], "b": 3}, {"a": [2], "b": 2}], "b": {"b": 1}, "a": [1, 2, 3]},
    "d1x": {"k": 3, "x": [{"a": [3, 1], "b": 3}, {"a": [2], "b": 2}], "b": {"b": 1}, "a": [1, 2, 3]},
    "d2": [1, "a", None, [2], {"s": "az"}],
}
QUERIES = {
    "q_desc": "$..b",
    "q_filter": "$[?@.b > 1]",
    "q_nested_root": "$[?@.a[?@ > $[1].b]]",
    "q_length": "$[?length(@.a) == 3]",
    "q_desc_count": "$..[?count(@.a[*]) > 1]",
    "q_match": '$[?match(@.s, "a.")]',
    "q_root_cmp": "$.x[?@.b == $.k]",
    "q_user_fn": "$[?double(@.b) == 4]",
    "q_index": "$[0].a[2]",
}
FUNCTION_QUERIES = ["q_length", "q_desc_count", "q_match", "q_user_fn"]
# reduced (query, document) pairs for the long sequences; the full product is used for length <= 2 in `thorough`
PAIRS_REDUCED = [
    ("q_desc", "d0"), ("q_desc", "d1"), ("q_filter", "d0"), ("q_nested_root", "d0"), ("q_nested_root", "d0x"),
    ("q_length", "d0"), ("q_desc_count", "d1"), ("q_match", "d0"), ("q_root_cmp", "d1"), ("q_root_cmp", "d1x"),
    ("q_user_fn", "d0"), ("q_index", "d0"),
]
PAIRS_FULL = [(q, d) for q in QUERIES for d in DOCS]
# core alphabet for the longest sequences (length 4)
PAIRS_CORE = [("q_desc", "d1"), ("q_nested_root", "d0"), ("q_nested_root", "d0x"), ("q_length", "d0"), ("q_match", "d0"),
              ("q_user_fn", "d0")]
CORE_COMPILE = ["q_desc", "q_nested_root", "q_length", "q_match", "q_user_fn"]
LEAK_PROBES = [("q_length", "d0"), ("q_user_fn", "d0"), ("q_desc_count", "d1")]
REGISTRATIONS = ["double", "length_alt"]
SUBCLASS_KINDS = ["sub_func", "sub_depth", "sub_index"]
SUBCLASS_PAIRS = {"sub_func": [("q_length", "d0"), ("q_user_fn", "d0")], "sub_depth": [("q_desc", "d0")],
                  "sub_index": [("q_index", "d0")]}


class Double(FilterFunction):
    """User function: twice a number, Nothing otherwise."""
    arg_types = [ExpressionType.VALUE]
    return_type = ExpressionType.VALUE

    def __call__(self, x):
        if isinstance(x, (int, float)) and not isinstance(x, bool):
            return x * 2
        return jsonpath_rfc9535.NOTHING


class LengthAlt(FilterFunction):
    """Replacement of `length` with the same signature but a visibly different result (len + 1)."""
    arg_types = [ExpressionType.VALUE]
    return_type = ExpressionType.VALUE

    def __call__(self, x):
        try:
            return len(x) + 1
        except TypeError:
            return jsonpath_rfc9535.NOTHING


def do_register(env, name):
    if name == "double":
        env.function_extensions["double"] = Double()
    elif name == "length_alt":
        env.function_extensions["length"] = LengthAlt()
    else:  # pragma: no cover
        raise ValueError(name)


def make_subclass(kind):
    """A NEW subclass object on every call (creating the subclass is part of the operation)."""
    if kind == "sub_func":
        def setup(self):
            JSONPathEnvironment.setup_function_extensions(self)
            self.function_extensions["length"] = LengthAlt()
            self.function_extensions["double"] = Double()
        return type("SubFuncEnv", (JSONPathEnvironment,), {"setup_function_extensions": setup})
    if kind == "sub_depth":
        return type("SubDepthEnv", (JSONPathEnvironment,), {"max_recursion_depth": 2})
    if kind == "sub_index":
        return type("SubIndexEnv", (JSONPathEnvironment,), {"max_int_index": 1, "min_int_index": -1})
    raise ValueError(kind)  # pragma: no cover


def canon_nodes(nodes):
    return json.dumps([[list(n.location), n.value] for n in nodes], sort_keys=False, allow_nan=True)


def outcome(thunk):
    try:
        return canon_nodes(thunk())
    except Exception as e:  # noqa: BLE001 - the class of the exception is the observation
        return "ERR:" + type(e).__name__


def config_key(regs):
    return "A:" + ",".join(sorted(regs))


def fresh_env(config):
    if config.startswith("A:"):
        env = JSONPathEnvironment()
        for r in filter(None, config[2:].split(",")):
            do_register(env, r)
        return env
    return make_subclass(config)()


def all_configs():
    out = []
    for n in range(len(REGISTRATIONS) + 1):
        for c in itertools.combinations(REGISTRATIONS, n):
            out.append(config_key(c))
    return out + SUBCLASS_KINDS


def _reference_entry(key):
    """One reference result, computed in a process that has evaluated nothing else (maxtasksperchild=1)."""
    parts = key.split("|")
    cfg, q = parts[0], parts[1]
    env = fresh_env(cfg)
    if len(parts) == 2:
        try:
            env.compile(QUERIES[q])
            return key, "ok"
        except Exception as e:  # noqa: BLE001
            return key, "ERR:" + type(e).__name__
    doc = copy.deepcopy(DOCS[parts[2]])
    return key, outcome(lambda: env.compile(QUERIES[q]).find(doc))


def compute_reference(ctx):
    """(config|q|d) -> canonical outcome; (config|q) -> compile outcome; every entry from a pristine process."""
    keys = []
    for cfg in all_configs():
        for q in QUERIES:
            keys.append(f"{cfg}|{q}")
            keys += [f"{cfg}|{q}|{d}" for d in DOCS]
    with ctx.Pool(min(16, os.cpu_count() or 1), maxtasksperchild=1) as p:
        return dict(p.imap_unordered(_reference_entry, keys, chunksize=1))


def build_ops(pairs, compile_queries=None):
    ops = [("compile", q) for q in (compile_queries or QUERIES)]
    for kind in ("apply", "find_env", "find_mod"):
        ops += [(kind, q, d) for q, d in pairs]
    ops += [("register", r) for r in REGISTRATIONS]
    for k in SUBCLASS_KINDS:
        ops += [("subclass", k, q, d) for q, d in SUBCLASS_PAIRS[k]]
    return ops


# ------------------------------------------------------------------------------------------------
# running one sequence
# ------------------------------------------------------------------------------------------------
def container_ids(v, out):
    if isinstance(v, dict):
        out.append(id(v))
        for x in v.values():
            container_ids(x, out)
    elif isinstance(v, list):
        out.append(id(v))
        for x in v:
            container_ids(x, out)
    return out


class Run:
    def __init__(self, ref):
        self.ref = ref
        self.doc_text = {d: json.dumps(v) for d, v in DOCS.items()}

    def run(self, seq):
        """-> (violations, nontrivial: bool)"""
        ref = self.ref
        viol = []
        env_a = JSONPathEnvironment()
        env_b = JSONPathEnvironment()
        default_fx = dict(jsonpath_rfc9535.DEFAULT_ENV.function_extensions)
        b_fx = dict(env_b.function_extensions)
        docs = {d: copy.deepcopy(v) for d, v in DOCS.items()}
        ids = {d: container_ids(v, []) for d, v in docs.items()}
        regs = set()
        compiled = {}
        config_changed = False
        nonempty = False
        for step, op in enumerate(seq):
            kind = op[0]
            expected = observed = None
            cfg = config_key(regs)
            if kind == "compile":
                q = op[1]
                try:
                    compiled[q] = env_a.compile(QUERIES[q])
                    observed = "ok"
                except Exception as e:  # noqa: BLE001
                    observed = "ERR:" + type(e).__name__
                expected = ref[f"{cfg}|{q}"]
            elif kind == "apply":
                q, d = op[1], op[2]

                def thunk(q=q, d=d):
                    if q not in compiled:
                        compiled[q] = env_a.compile(QUERIES[q])
                    return compiled[q].apply(docs[d])
                observed = outcome(thunk)
                expected = ref[f"{cfg}|{q}|{d}"]
            elif kind == "find_env":
                q, d = op[1], op[2]
                observed = outcome(lambda q=q, d=d: env_a.find(QUERIES[q], docs[d]))
                expected = ref[f"{cfg}|{q}|{d}"]
            elif kind == "find_mod":
                q, d = op[1], op[2]
                observed = outcome(lambda q=q, d=d: jsonpath_rfc9535.find(QUERIES[q], docs[d]))
                expected = ref[f"A:|{q}|{d}"]
            elif kind == "register":
                do_register(env_a, op[1])
                regs.add(op[1])
                config_changed = True
            elif kind == "subclass":
                k, q, d = op[1], op[2], op[3]
                observed = outcome(lambda k=k, q=q, d=d: make_subclass(k)().find(QUERIES[q], docs[d]))
                expected = ref[f"{k}|{q}|{d}"]
                config_changed = True
            if observed is not None:
                if observed not in ("[]", "ok") and not observed.startswith("ERR:"):
                    nonempty = True
                if observed != expected:
                    if kind == "find_mod" and config_changed:
                        vk = "c14-env-leak-into-module-functions"
                    elif kind == "subclass":
                        vk = "c14-subclass-result-depends-on-history"
                    elif regs:
                        vk = "c14-result-differs-after-registration"
                    elif observed.startswith("ERR:"):
                        vk = "c14-history-raises-" + observed[4:]
                    else:
                        vk = "c14-result-depends-on-history"
                    viol.append(self.v(vk, seq, step, f"step {step} {op}: result differs from a fresh environment / fresh query",
                                       expected, observed))
            for d in docs:
                if json.dumps(docs[d]) != self.doc_text[d]:
                    viol.append(self.v("c14-document-mutated", seq, step, f"document {d} changed by step {step} {op}",
                                       self.doc_text[d], json.dumps(docs[d])))
                    docs[d] = copy.deepcopy(DOCS[d])
                    ids[d] = container_ids(docs[d], [])
                elif container_ids(docs[d], []) != ids[d]:
                    viol.append(self.v("c14-document-identity-changed", seq, step,
                                       f"containers of document {d} were replaced by step {step} {op}", "same objects", "other objects"))
                    ids[d] = container_ids(docs[d], [])
        if config_changed:
            step = len(seq)
            if sorted(env_b.function_extensions) != sorted(b_fx) or any(env_b.function_extensions[k] is not b_fx[k] for k in b_fx):
                viol.append(self.v("c14-env-leak-registry", seq, step, "function registry of environment B changed",
                                   sorted(b_fx), sorted(env_b.function_extensions)))
            dfx = jsonpath_rfc9535.DEFAULT_ENV.function_extensions
            if sorted(dfx) != sorted(default_fx) or any(dfx[k] is not default_fx[k] for k in default_fx):
                viol.append(self.v("c14-env-leak-registry", seq, step, "function registry of DEFAULT_ENV changed",
                                   sorted(default_fx), sorted(dfx)))
            fresh = JSONPathEnvironment()
            for q, d in LEAK_PROBES:
                if True:
                    exp = ref[f"A:|{q}|{d}"]
                    for who, thunk in (("environment B", lambda q=q, d=d: env_b.find(QUERIES[q], docs[d])),
                                       ("module-level find", lambda q=q, d=d: jsonpath_rfc9535.find(QUERIES[q], docs[d])),
                                       ("a new JSONPathEnvironment()", lambda q=q, d=d: fresh.find(QUERIES[q], docs[d]))):
                        obs = outcome(thunk)
                        if obs != exp:
                            viol.append(self.v("c14-env-leak", seq, step, f"{who}: {q} on {d} changed after register/subclass on A",
                                               exp, obs))
        return viol, (nonempty and len(seq) >= 2)

    @staticmethod
    def v(kind, seq, step, what, expected, observed):
        return {"kind": kind, "what": what,
                "input": {"sequence": [list(o) for o in seq], "step": step,
                          "queries": {o[-2] if o[0] != "compile" else o[1]: QUERIES[o[-2] if o[0] != "compile" else o[1]]
                                      for o in seq if o[0] not in ("register",)}},
                "expected": expected, "observed": observed}


# ------------------------------------------------------------------------------------------------
# parallel enumeration
# ------------------------------------------------------------------------------------------------
_G = {}


def _worker(task):
    length, first, pairs_name = task
    ops = _G["ops"][pairs_name]
    runner = Run(_G["ref"])
    n = nontrivial = 0
    viol = []
    samples = []
    rest = itertools.product(ops, repeat=length - 1)
    for tail in rest:
        seq = (ops[first],) + tail
        v, nt = runner.run(seq)
        n += 1
        nontrivial += nt
        if v:
            viol.extend(v[:3])
            if len(viol) > 400:
                viol = viol[:400]
        if nt and len(samples) < 1 and n % 997 == 1:
            samples.append([list(o) for o in seq])
    return n, nontrivial, viol, samples


def _isolated(seq, ref):
    """Re-run one sequence alone in a fresh fork of the pristine parent: does it still fail?"""
    r, w = os.pipe()
    pid = os.fork()
    if pid == 0:
        try:
            v, _ = Run(ref).run(tuple(tuple(o) for o in seq))
            os.write(w, b"1" if v else b"0")
        finally:
            os._exit(0)
    os.close(w)
    out = os.read(r, 1)
    os.close(r)
    os.waitpid(pid, 0)
    return out == b"1"


def run(tier: str, seed: int) -> dict:
    t0 = time.time()
    ctx = mp.get_context("fork")
    ref = compute_reference(ctx)                 # every reference result from a pristine process of its own
    _G["ref"] = ref
    _G["ops"] = {"reduced": build_ops(PAIRS_REDUCED), "full": build_ops(PAIRS_FULL),
                 "core": build_ops(PAIRS_CORE, CORE_COMPILE)}
    max_len = 3 if tier == "quick" else 4
    tasks = []
    for length in range(1, 4):
        tasks += [(length, i, "reduced") for i in range(len(_G["ops"]["reduced"]))]
    if tier != "quick":
        tasks += [(4, i, "core") for i in range(len(_G["ops"]["core"]))]
        for length in range(1, 3):
            tasks += [(length, i, "full") for i in range(len(_G["ops"]["full"]))]
    tasks.sort(key=lambda t: -t[0])
    evaluations = nontrivial = 0
    viol, samples = [], []
    with ctx.Pool(min(16, os.cpu_count() or 1)) as pool:
        for n, nt, v, s in pool.imap_unordered(_worker, tasks, chunksize=1):
            evaluations += n
            nontrivial += nt
            viol.extend(v)
            samples.extend(s)
    # deduplicate: per kind, shortest sequences first, at most 40; a worker process runs many sequences one
    # after the other, so a failure may be caused by an EARLIER sequence of the same worker: every candidate is
    # re-run alone in a fresh fork of the pristine parent, and the ones that fail there too are preferred.
    by_kind = {}
    cands = {}
    seen = set()
    for v in sorted(viol, key=lambda v: (len(v["input"]["sequence"]), json.dumps(v["input"]["sequence"]))):
        stepop = json.dumps(v["input"]["sequence"][v["input"]["step"]:v["input"]["step"] + 1])
        key = (v["kind"], v["what"].split(":")[0] if v["kind"].startswith("c14-env-leak") and v["input"]["step"] >= len(v["input"]["sequence"]) else stepop,
               json.dumps(v["input"]["sequence"]))
        if key in seen:
            continue
        seen.add(key)
        cands.setdefault(v["kind"], []).append(v)
    for kind, lst in cands.items():
        keep, weak, classes = [], [], set()
        for v in lst[:200]:
            cls = (json.dumps(v["input"]["sequence"][v["input"]["step"]:v["input"]["step"] + 1]), str(v["observed"])[:200])
            ok = _isolated(v["input"]["sequence"], ref)
            v["input"]["replays_in_fresh_process"] = ok
            if ok and cls not in classes:
                classes.add(cls)
                keep.append(v)
            elif not ok and len(weak) < 5:
                weak.append(v)
            if len(keep) >= 40:
                break
        by_kind[kind] = keep if keep else weak
    violations = [v for k in sorted(by_kind) for v in by_kind[k]]
    n_red, n_full = len(_G["ops"]["reduced"]), len(_G["ops"]["full"])
    return {
        "evaluations": evaluations,
        "distinct_nontrivial": nontrivial,
        "rule": ("every operation sequence of length 1..L over the operation alphabet (each sequence starts from two new "
                 "environments A, B and fresh deep copies of the documents); every sequence is a distinct case; it is "
                 "non-trivial when it has >= 2 operations and at least one of them returns a non-empty nodelist"),
        "samples": samples[:8],
        "bounds": {"max_sequence_length": max_len, "alphabet_for_length_le_3": n_red,
                   "alphabet_full_for_length_le_2": n_full if tier != "quick" else None,
                   "alphabet_core_for_length_4": len(_G["ops"]["core"]) if tier != "quick" else None,
                   "leak_probes": LEAK_PROBES,
                   "queries": QUERIES, "documents": list(DOCS), "registrations": REGISTRATIONS,
                   "subclass_kinds": SUBCLASS_KINDS, "reference_entries": len(ref)},
        "exhaustive": True,
        "unjudged": 0,
        "violations": violations,
        "seconds": round(time.time() - t0, 2),
    }


if __name__ == "__main__":
    ap = argparse.ArgumentParser()
    ap.add_argument("--tier", default="quick", choices=["quick", "thorough"])
    ap.add_argument("--seed", type=int, default=0)
    a = ap.parse_args()
    json.dump(run(a.tier, a.seed), sys.stdout, indent=1)
    sys.stdout.write("\n")
