"""find(query, doc) against the reference semantics (the /verif/spec functions run natively on the
compiled objects), over an exhaustive product queries x documents. Used by c01, c02, c06, c07, c10."""
import copy
import json

from bounded import refsem
from bounded.common import Collector, chunked, pmap

import jsonpath_rfc9535 as jp

_STATE = {}


def _work(chunk):
    classify, env_factory = _STATE["classify"], _STATE["env_factory"]
    docs = _STATE["docs"]
    env = env_factory() if env_factory else jp.DEFAULT_ENV
    col = Collector()
    evals = 0
    nontrivial = set()
    not_wf = 0
    samples = []
    for q in chunk:
        try:
            c = env.compile(q)
        except jp.JSONPathError as e:
            col.add(classify(q, None, "compile-refused"), f"valid query refused: {type(e).__name__}: {e}", {"query": q})
            continue
        except Exception as e:  # noqa: BLE001
            col.add(classify(q, None, "compile-crash"), f"compile raised {type(e).__name__}: {e}", {"query": q})
            continue
        try:
            from bounded import reftree

            cmp_ = reftree.compare(q, c)
        except Exception:  # noqa: BLE001
            cmp_ = None
        if cmp_ is not None and not cmp_[0]:
            col.add(classify(q, None, "wrong-tree"), "compile() built an object tree that differs from the reference reading of the query text (generic ABNF derivation)",
                    {"query": q}, str(cmp_[1])[:400], str(cmp_[2])[:400])
        try:
            wf = refsem.rfc_select.wf_query(c, env)
        except Exception:  # noqa: BLE001
            wf = False
        if not wf:
            not_wf += 1
        for di, doc in enumerate(docs):
            evals += 1
            try:
                exp = refsem.expected_nodes(c, doc)
            except RecursionError:
                continue
            except Exception as e:  # noqa: BLE001
                exp = ("spec-raises", type(e).__name__, str(e))
            try:
                act = list(c.find(doc))
            except jp.JSONPathError as e:
                act = ("raises", type(e).__name__, str(e))
            except Exception as e:  # noqa: BLE001
                act = ("crash", type(e).__name__, str(e))
            if isinstance(exp, tuple) and exp and exp[0] == "spec-raises":
                # the reference itself could not be evaluated (e.g. a user function raised): not judged
                continue
            if isinstance(act, tuple):
                col.add(classify(q, doc, act[0] + ":" + act[1]), f"find raised {act[1]}: {act[2]}", {"query": q, "document": doc},
                        [refsem.node_repr(n) for n in exp], list(act))
                continue
            if not refsem.same(act, exp):
                col.add(classify(q, doc, "wrong-result"), "find() differs from RFC 9535 semantics", {"query": q, "document": doc},
                        [refsem.node_repr(n) for n in exp], [refsem.node_repr(n) for n in act])
            if exp:
                nontrivial.add((q, di))
                if len(samples) < 3:
                    samples.append({"query": q, "document": doc, "result": [refsem.node_repr(n) for n in exp]})
        # the same compiled query applied again after the document was edited in place, and to a new document
        # (results must not depend on what the query was applied to before)
        for doc in (docs if len(docs) <= 200 else docs[:: max(1, len(docs) // 40)][:40]):
            d1 = copy.deepcopy(doc)
            try:
                list(c.find(d1))
                edited = _edit_in_place(d1)
                if not edited:
                    continue
                evals += 1
                exp = refsem.expected_nodes(c, d1)
                act = list(c.find(d1))
                if not refsem.same(act, exp):
                    col.add(classify(q, d1, "wrong-result-after-reuse"), "find() on a document edited in place after an earlier application of the same compiled query differs from RFC 9535 semantics",
                            {"query": q, "document_before": doc, "document_after_edit": d1}, [refsem.node_repr(n) for n in exp], [refsem.node_repr(n) for n in act])
            except Exception:  # noqa: BLE001
                continue
    return {"evals": evals, "nontrivial": len(nontrivial), "violations": col.list(), "not_wf": not_wf, "samples": samples}


def _edit_in_place(d):
    """change every leaf / add a member, keeping the container objects (and their ids)"""
    if isinstance(d, list):
        if not d:
            d.append(1)
            return True
        for i, x in enumerate(d):
            if isinstance(x, (list, dict)):
                _edit_in_place(x)
            else:
                d[i] = _other(x)
        return True
    if isinstance(d, dict):
        if not d:
            d["a"] = 1
            return True
        for k, x in list(d.items()):
            if isinstance(x, (list, dict)):
                _edit_in_place(x)
            else:
                d[k] = _other(x)
        return True
    return False


def _other(x):
    if isinstance(x, bool):
        return not x
    if isinstance(x, (int, float)):
        return x + 1
    if isinstance(x, str):
        return x + "a"
    return 1


def run_product(queries, docs, classify, env_factory=None, rule=""):
    queries = sorted(set(queries))
    _STATE.update(classify=classify, env_factory=env_factory, docs=docs)
    parts = pmap(_work, chunked(queries, 64))
    col = Collector()
    evals = nontriv = not_wf = 0
    samples = []
    for p in parts:
        evals += p["evals"]
        nontriv += p["nontrivial"]
        not_wf += p["not_wf"]
        col.merge(p["violations"])
        samples.extend(p["samples"])
    return {
        "evaluations": evals, "distinct_nontrivial": nontriv,
        "rule": rule + " Non-trivial = (query, document) pairs whose RFC result is a non-empty nodelist; distinct by construction (sets).",
        "samples": samples[:8], "bounds": {"queries": len(queries), "documents": len(docs)}, "exhaustive": True,
        "unjudged": 0, "violations": col.list(), "queries_not_wf": not_wf,
    }
