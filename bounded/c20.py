"""C20 bounded runner: the command-line tool (python -m jsonpath_rfc9535).

Valid query + valid document: exit status 0 and the output (stdout or the -o file)
parses as JSON equal to ``find(query, document).values()`` computed in-process
(--pretty: same value, indented).  Every error case (invalid query of each
JSONPathError class, undecodable document, evaluation-time error): non-zero exit
status, exactly one non-empty line on stderr without "Traceback" unless --debug is
given, and no partial result on stdout / in the -o file.
"""

from __future__ import annotations

import itertools
import json
import os
import random
import shutil
import subprocess
import sys
import tempfile
import time
from multiprocessing.pool import ThreadPool
from typing import Dict
from typing import List
from typing import Optional
from typing import Tuple

PYTHON = "/venv/bin/python"
DEEP = 150

# (query, label): label "ok" or the error class the query must be refused with
QUERIES_QUICK: List[Tuple[str, str]] = [
    ("$", "ok"),
    ("$.a", "ok"),
    ("$..*", "ok"),  # evaluation-time error on the deep document
    ("$..a", "ok"),  # likewise
    ("$.b[?@.a > 1]", "ok"),
    ("$..[?@.a == 2 || @ == 'ü']", "ok"),
    ("$[?match(@, '.*x')]", "ok"),
    ("$.é", "ok"),
    ("$['☺', '名前']", "ok"),
    ("$[?@ == '😀' || @ == \"ü\"]", "ok"),
    ("$.b[0:2]", "ok"),
    ("$[?length(@) > 1]", "ok"),
    ("$[", "syntax-error"),
    ("$.a b", "syntax-error"),
    ("$[?length(@.*) > 1]", "type-error"),
    ("$[?count(@.a, 1) > 1]", "type-error"),
    ("$[9007199254740992]", "index-error"),
    ("$[?foo(@)]", "name-error"),
]
QUERIES_MORE: List[Tuple[str, str]] = [
    ("$.*", "ok"),
    ("$[*]", "ok"),
    ("$.b[-1]", "ok"),
    ("$.b[::-1]", "ok"),
    ("$..[0]", "ok"),
    ("$..['a','b']", "ok"),
    ("$.b[?@.a]", "ok"),
    ("$[?count(@.*) == 3]", "ok"),
    ("$[?search(@, 'x')]", "ok"),
    ("$[?value(@..a) == 2]", "ok"),
    ("$.b[?@ == $.a]", "ok"),
    ("$[?@ == null || @ == true || @ == 1.5]", "ok"),
    ("$['\\u00e9']", "ok"),
    ("$['a', 'a']", "ok"),
    ("$.nosuch", "ok"),
    ("$[?!@.a]", "ok"),
    ("", "syntax-error"),
    ("a", "syntax-error"),
    ("$.", "syntax-error"),
    ("$['a", "syntax-error"),
    ("$[?@.a ==]", "syntax-error"),
    ("$[1.5]", "syntax-error"),
    ("$ .a ", "syntax-error"),
    ("$[?match(@.a)]", "type-error"),
    ("$[?length(@.a)]", "type-error"),
    ("$[?count(1) == 1]", "type-error"),
    ("$[-9007199254740992]", "index-error"),
    ("$[0:9007199254740992]", "index-error"),
    ("$[?bar(@.a, 1) == 1]", "name-error"),
    ("$[?@.a == nope()]", "name-error"),
]


def _deep(n: int, array: bool) -> bytes:
    if array:
        return b"[" * n + b"1" + b"]" * n
    return b'{"a":' * n + b"1" + b"}" * n


# (name, bytes, label): label "ok", "invalid-json-document" or "undecodable-document"
DOCS_QUICK: List[Tuple[str, bytes, str]] = [
    ("small", b'{"a": 1, "b": [1, 2, {"a": 2}], "c": "xx"}', "ok"),
    ("scalars", b'["ax", "b", null, true, 1.5, "x", [1, 2], {"a": 3, "b": 4, "c": 5}]', "ok"),
    ("non-ascii", '{"é": "ü", "☺": [1, "😀"], "名前": "x", "a": "ü", "b": ["😀", {"a": 2}]}'.encode("utf-8"), "ok"),
    ("escaped-non-ascii", b'{"\\u00e9": "\\u00fc", "a": "\\ud83d\\ude00", "b": ["\\u00fc"]}', "ok"),
    ("lone-surrogate-escape", b'{"a": "caf\\u00e9 \\ud83d", "b": ["\\udc00x", {"a": 2}], "\\ud800": 1}', "ok"),
    ("deep-object-150", _deep(DEEP, False), "ok"),
    ("deep-array-150", _deep(DEEP, True), "ok"),
    ("invalid-json", b'{"a": 1,}', "invalid-json-document"),
    ("invalid-utf8", b'{"a": "\xff\xfe", "b": [1]}', "undecodable-document"),
]
DOCS_MORE: List[Tuple[str, bytes, str]] = [
    ("empty-object", b"{}", "ok"),
    ("scalar-root", b'"x"', "ok"),
    ("empty-file", b"", "invalid-json-document"),
    ("truncated-json", b'{"a": [1, 2', "invalid-json-document"),
    ("truncated-utf8", '{"a": "é'.encode("utf-8")[:-1] + b'"}', "undecodable-document"),
]

# orthogonal array OA(8, 2^5), strength 2: columns b0, b1, b2, b0^b1, b0^b2
OA8 = [(r & 1, (r >> 1) & 1, (r >> 2) & 1, (r & 1) ^ ((r >> 1) & 1), (r & 1) ^ ((r >> 2) & 1)) for r in range(8)]


def in_process(query: str, doc_bytes: bytes, doc_label: str) -> Tuple[str, object]:
    """("ok", values) or (error class label, message) from the library API."""
    import jsonpath_rfc9535 as jp

    classes = [
        (jp.JSONPathSyntaxError, "syntax-error"),
        (jp.JSONPathTypeError, "type-error"),
        (jp.JSONPathIndexError, "index-error"),
        (jp.JSONPathNameError, "name-error"),
        (jp.JSONPathRecursionError, "recursion-error"),
    ]

    def label(e: BaseException) -> str:
        for cls, name in classes:
            if type(e) is cls:
                return name
        return "other-" + type(e).__name__

    try:
        compiled = jp.JSONPathEnvironment().compile(query)
    except Exception as e:  # noqa: BLE001
        return label(e), str(e)
    if doc_label != "ok":
        return doc_label, ""
    data = json.loads(doc_bytes)
    try:
        return "ok", compiled.find(data).values()
    except Exception as e:  # noqa: BLE001
        return label(e), str(e)


def run_cli(case: dict, root: str, deadline: float = float("inf")) -> Optional[dict]:
    if time.time() > deadline:
        return None  # out of budget: not run, the result says so (exhaustive: false)
    d = os.path.join(root, "run%05d" % case["id"])
    os.mkdir(d)
    argv = [PYTHON, "-m", "jsonpath_rfc9535"]
    if case["debug"]:
        argv.append("--debug")
    if case["pretty"]:
        argv.append("--pretty")
    if case["qmode"] == "-q":
        # "-q=<query>" form is not used: argparse treats a leading "-" specially only
        argv += ["-q", case["query"]]
    else:
        with open(os.path.join(d, "query.txt"), "w", encoding="utf-8") as f:
            f.write(case["query"])
        argv += ["-r", "query.txt"]
    stdin_data: Optional[bytes] = None
    if case["dmode"] == "-f":
        with open(os.path.join(d, "doc.json"), "wb") as f:
            f.write(case["doc_bytes"])
        argv += ["-f", "doc.json"]
    else:
        stdin_data = case["doc_bytes"]
    if case["omode"] == "-o":
        argv += ["-o", "out.json"]
    env = {k: v for k, v in os.environ.items() if k not in ("PYTHONIOENCODING", "PYTHONUTF8", "PYTHONWARNINGS", "LANG", "LANGUAGE") and not k.startswith("LC_")}
    env["LC_ALL"] = "C.UTF-8"
    try:
        p = subprocess.run(argv, input=stdin_data if stdin_data is not None else b"", capture_output=True, cwd=d, env=env, timeout=120, check=False)
        rc, out, err = p.returncode, p.stdout, p.stderr
    except subprocess.TimeoutExpired:
        rc, out, err = None, b"", b"(timeout after 120 s)"
    ofile: Optional[bytes] = None
    if case["omode"] == "-o":
        try:
            with open(os.path.join(d, "out.json"), "rb") as f:
                ofile = f.read()
        except FileNotFoundError:
            ofile = None
    shutil.rmtree(d, ignore_errors=True)
    return {"rc": rc, "stdout": out, "stderr": err, "ofile": ofile, "argv": argv[3:]}


def _short(b: Optional[bytes], n: int = 300) -> Optional[str]:
    if b is None:
        return None
    s = b.decode("utf-8", "replace")
    return s if len(s) <= n else s[:n] + "...(%d bytes)" % len(b)


def judge(case: dict, obs: dict) -> List[Tuple[str, str, object, object]]:
    """[(kind, what, expected, observed)]"""
    out: List[Tuple[str, str, object, object]] = []
    exp_label, exp_value = case["expected"]
    rc = obs["rc"]
    dest = obs["ofile"] if case["omode"] == "-o" else obs["stdout"]
    stderr_text = obs["stderr"].decode("utf-8", "replace")
    if rc is None:
        return [("c20-timeout", "no exit after 120 s", "an exit status", "timeout")]
    if exp_label == "ok":
        if rc != 0:
            kind = "c20-nonzero-exit-on-success"
            if "Traceback" in stderr_text:
                kind = "c20-traceback-on-success"
            out.append((kind, "valid query and document: exit status %r" % rc, 0, {"exit": rc, "stderr": _short(obs["stderr"])}))
            return out
        if dest is None:
            out.append(("c20-wrong-output", "no output file written", "the JSON array", None))
            return out
        try:
            got = json.loads(dest.decode("utf-8"))
        except (ValueError, RecursionError) as e:
            out.append(("c20-wrong-output", "output is not JSON: %s" % type(e).__name__, _short(json.dumps(exp_value).encode()), _short(dest)))
            return out
        if not isinstance(got, list) or got != exp_value:
            out.append(("c20-wrong-output", "output differs from find(query, document).values()", _short(json.dumps(exp_value).encode()), _short(dest)))
        elif case["pretty"] and exp_value and b"\n" not in dest.strip():
            out.append(("c20-pretty-not-indented", "--pretty output has no newlines", "indented JSON", _short(dest)))
        if case["omode"] == "-o" and obs["stdout"].strip():
            out.append(("c20-stdout-not-empty-with-output-file", "-o given but stdout is not empty", "", _short(obs["stdout"])))
        return out
    # error cases
    if rc == 0:
        # the tool took the run for a success: output and silence on stderr are consequences, not separate classes
        kind = "c20-zero-exit-on-error" if exp_label != "undecodable-document" else "c20-zero-exit-on-undecodable-document"
        out.append((kind, "%s (%s): exit status 0" % (exp_label, case["dmode"]), "non-zero exit status", {"exit": 0, "stderr": _short(obs["stderr"]), "output": _short(dest)}))
        return out
    partial = []
    if obs["stdout"].strip():
        partial.append("stdout")
    if obs["ofile"] is not None and obs["ofile"].strip():
        partial.append("-o file")
    if partial:
        out.append(("c20-partial-output", "%s: something was written to %s" % (exp_label, " and ".join(partial)), "nothing", _short(obs["stdout"] if obs["stdout"].strip() else obs["ofile"])))
    if not case["debug"]:
        lines = stderr_text.split("\n")
        if lines and lines[-1] == "":
            lines = lines[:-1]
        if "Traceback" in stderr_text:
            out.append(("c20-traceback-on-" + exp_label, "%s: traceback on stderr without --debug" % exp_label, "one-line diagnostic", _short(obs["stderr"][-400:])))
        elif len(lines) != 1 or not lines[0].strip():
            out.append(("c20-stderr-not-one-line-on-" + exp_label, "%s: stderr has %d lines" % (exp_label, len(lines)), "exactly one non-empty line", _short(obs["stderr"])))
    return out


def build_cases(tier: str) -> Tuple[List[dict], dict]:
    quick = tier == "quick"
    queries = list(QUERIES_QUICK) if quick else QUERIES_QUICK + QUERIES_MORE
    docs = list(DOCS_QUICK) if quick else DOCS_QUICK + DOCS_MORE
    cases: List[dict] = []
    label_mismatch: List[dict] = []
    expected: Dict[Tuple[int, int], Tuple[str, object]] = {}
    for qi, (q, qlabel) in enumerate(queries):
        for di, (dname, dbytes, dlabel) in enumerate(docs):
            got = in_process(q, dbytes, dlabel)
            if qlabel != "ok":
                # the hand label decides; the library must agree that it is this class
                if got[0] != qlabel:
                    label_mismatch.append({"query": q, "document": dname, "hand_label": qlabel, "library": got[0]})
                exp: Tuple[str, object] = (qlabel, None)
            elif dlabel != "ok":
                exp = (dlabel, None)
            else:
                exp = got  # ("ok", values) or an evaluation-time error class
                if got[0] not in ("ok", "recursion-error"):
                    label_mismatch.append({"query": q, "document": dname, "hand_label": "ok", "library": got[0]})
            expected[(qi, di)] = exp
    if quick:
        combos = []
        for qi in range(len(queries)):
            for di in range(len(docs)):
                combos.append((qi, di, OA8[(qi + di) % 8]))
        # a few full-factorial anchors so that every option combination occurs at least once
        for n, opts in enumerate(itertools.product((0, 1), repeat=5)):
            qi = [1, 17, 12, 2][n % 4]  # $.a, name error, syntax error, $..*
            di = [0, 2, 4, 7][(n // 4) % 4]
            combos.append((qi, di, opts))
    else:
        combos = [(qi, di, opts) for qi in range(len(queries)) for di in range(len(docs)) for opts in itertools.product((0, 1), repeat=5)]
    seen = set()
    unjudged = 0
    for qi, di, opts in combos:
        if (qi, di, opts) in seen:
            continue
        seen.add((qi, di, opts))
        q, qlabel = queries[qi]
        dname, dbytes, dlabel = docs[di]
        if opts[0] == 1 and q != q.strip():
            # -r: whether blank space around the text of a query file belongs to the query is
            # not decided by the property (the tool strips it); only judged with -q
            unjudged += 1
            continue
        cases.append({
            "id": len(cases),
            "query": q,
            "query_label": qlabel,
            "doc_name": dname,
            "doc_bytes": dbytes,
            "doc_label": dlabel,
            "qmode": "-r" if opts[0] else "-q",
            "dmode": "stdin" if opts[1] else "-f",
            "omode": "-o" if opts[2] else "stdout",
            "pretty": bool(opts[3]),
            "debug": bool(opts[4]),
            "expected": expected[(qi, di)],
        })
    return cases, {"queries": len(queries), "documents": len(docs), "label_mismatch": label_mismatch, "unjudged": unjudged}


def _case_input(case: dict) -> dict:
    return {
        "query": case["query"],
        "document": case["doc_name"],
        "options": [case["qmode"], case["dmode"], case["omode"]] + (["--pretty"] if case["pretty"] else []) + (["--debug"] if case["debug"] else []),
    }


def run(tier: str, seed: int) -> dict:
    t0 = time.time()
    cases, info = build_cases(tier)
    deadline = t0 + (50.0 if tier == "quick" else 13.5 * 60)
    if tier != "quick":
        # spread the option combinations evenly, so that a run cut short by the budget is still balanced
        random.Random(seed).shuffle(cases)
    root = tempfile.mkdtemp(prefix="c20-")
    try:
        with ThreadPool(16) as tp:
            observations = tp.map(lambda c: run_cli(c, root, deadline), cases, chunksize=1)
    finally:
        shutil.rmtree(root, ignore_errors=True)
    skipped = sum(1 for o in observations if o is None)
    pairs = [(c, o) for c, o in zip(cases, observations) if o is not None]
    cases = [c for c, _ in pairs]
    observations = [o for _, o in pairs]
    viol: List[dict] = []
    for m in info["label_mismatch"]:
        viol.append({
            "kind": "c20-oracle-label-mismatch",
            "what": "hand label %s but the library API says %s" % (m["hand_label"], m["library"]),
            "input": {"query": m["query"], "document": m["document"]},
            "expected": m["hand_label"],
            "observed": m["library"],
        })
    nontrivial = set()
    for case, obs in zip(cases, observations):
        nontrivial.add((case["query"], case["doc_name"]))
        for kind, what, exp, got in judge(case, obs):
            viol.append({"kind": kind, "what": what, "input": _case_input(case), "expected": exp, "observed": got})
    by_kind: Dict[str, Dict[str, dict]] = {}
    for v in viol:
        by_kind.setdefault(v["kind"], {}).setdefault(json.dumps(v["input"], sort_keys=True, ensure_ascii=False), v)
    out_viol: List[dict] = []
    for k in sorted(by_kind):
        vs = sorted(by_kind[k].values(), key=lambda v: (len(v["input"].get("options", [])), len(v["input"]["query"]), json.dumps(v["input"], sort_keys=True)))
        out_viol += vs[:40]
    rng = random.Random(seed)
    samples = []
    for i in rng.sample(range(len(cases)), min(8, len(cases))):
        c, o = cases[i], observations[i]
        samples.append({"argv": o["argv"], "document": c["doc_name"], "expected": c["expected"][0], "exit": o["rc"], "stderr": _short(o["stderr"], 120), "output": _short(o["ofile"] if c["omode"] == "-o" else o["stdout"], 120)})
    return {
        "evaluations": len(cases),
        "distinct_nontrivial": len(nontrivial),
        "rule": (
            "one evaluation = one subprocess run of `%s -m jsonpath_rfc9535` in a fresh temporary directory. Cases: every (query, document) "
            "pair of the lists below; quick tier: each pair once with the option vector OA8[(qi+di) mod 8] of a strength-2 orthogonal array "
            "over {-q|-r, -f|stdin, stdout|-o, --pretty, --debug} (so every pair of factor levels, including query x option and document x "
            "option, occurs) plus 32 anchor runs covering every option combination; thorough tier: full factorial. distinct_nontrivial = "
            "distinct (query, document) pairs. Expected values come from hand labels of the queries/documents and, for valid pairs, from "
            "find(query, json.loads(document)).values() in-process." % PYTHON
        ),
        "samples": samples,
        "bounds": {
            "queries": info["queries"],
            "documents": info["documents"],
            "deep_nesting": DEEP,
            "option_factors": ["-q|-r", "-f|stdin", "stdout|-o", "--pretty", "--debug"],
            "parallel": 16,
            "runs_skipped_for_time": skipped,
            "locale": "LC_ALL=C.UTF-8",
            "wall_seconds": round(time.time() - t0, 1),
        },
        "exhaustive": tier != "quick" and skipped == 0,
        "unjudged": info["unjudged"],
        "violations": out_viol,
    }


def main() -> None:
    import argparse

    ap = argparse.ArgumentParser()
    ap.add_argument("--tier", default="quick", choices=["quick", "thorough"])
    ap.add_argument("--seed", type=int, default=0)
    a = ap.parse_args()
    json.dump(run(a.tier, a.seed), sys.stdout, indent=1, ensure_ascii=False, default=repr)
    sys.stdout.write("\n")


if __name__ == "__main__":
    main()
