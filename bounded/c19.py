"""C19 - reported error positions are real positions in the query text.

For every query text q that compile() rejects with error e:
  * e is a JSONPathError carrying a token (the error "identifies an offset");
  * 0 <= e.token.index <= len(q);
  * str(e) ends with ", line L, column C" where (L, C) is the line/column of offset e.token.index IN q:
        L = 1 + q.count("\\n", 0, index)          (LF terminates a line)
        C = index - (q.rfind("\\n", 0, index) + 1)  (0-based column)
    - the 0-based reading is the one the two tests in /repo/tests/test_errors.py pin:
      "$[1,2" -> "unbalanced brackets, line 1, column 5" (the offset of the end of the 5-character text) and
      "$[?@.a < 1" -> "unclosed bracketed selection, line 1, column 10".
Rejected texts: hand-written inputs aimed at every `raise JSONPath*Error` / `l.error(...)` site reachable from
compile(), each with every legal blank-space position filled (one at a time, and several at once) with
" ", LF, CRLF, TAB, LF LF SP SP; plus all rejected single-character edits of multi-line valid queries.
"""
from __future__ import annotations

import ast
import itertools
import re
import sys
from pathlib import Path

sys.path.insert(0, str(Path(__file__).resolve().parent.parent))

from bounded.common import main as _main  # noqa: E402
from bounded.common import pmap  # noqa: E402

PER_KIND = 40
M = "~"  # marks a position where the grammar allows blank space (S)
FILLS = [" ", "\n", "\r\n", "\t", "\n\n  "]

# (template, site label, env) - "~" marks legal blank positions (never needed literally)
TEMPLATES = [
    # ---- lexer: l.error sites
    ("", "lex-root-empty-query", "d"),
    ("a", "lex-root-no-dollar", "d"),
    ("$~a", "lex-segment-unexpected-char", "d"),
    ("$.a b", "lex-segment-unexpected-char", "d"),
    ("$~.a\nb", "lex-segment-unexpected-char", "d"),
    ("$~[~0~]~x", "lex-segment-unexpected-char", "d"),
    ("$~.a~#", "lex-segment-unexpected-char", "d"),
    ("$~..", "lex-bald-descendant", "d"),
    ("$~.a~..", "lex-bald-descendant", "d"),
    ("$~..1", "lex-descendant-unexpected-token", "d"),
    ("$~...a", "lex-descendant-unexpected-token", "d"),
    ("$~..~", "lex-descendant-unexpected-token", "explicit-ws"),   # handled as explicit below
    ("$~.1", "lex-shorthand-unexpected", "d"),
    ("$~.-a", "lex-shorthand-unexpected", "d"),
    ("$~.[~0~]", "lex-shorthand-unexpected", "d"),
    ("$~.", "lex-backup-unexpected-end", "d"),
    ("$~.a~.", "lex-backup-unexpected-end", "d"),
    ("$~[~?~(~@.a~]", "lex-bracket-closes-open-paren", "d"),
    ("$~[~?~count(~@.a~]", "lex-bracket-closes-open-paren", "d"),
    ("$~[~1~,~2", "lex-unbalanced-brackets-at-end", "d"),
    ("$~[", "lex-unbalanced-brackets-at-end", "d"),
    ("$~[~'a'~", "lex-unbalanced-brackets-at-end", "d"),
    ("$~[~a~]", "lex-bracketed-unexpected-token", "d"),
    ("$~[~1~x~]", "lex-bracketed-unexpected-token", "d"),
    ("$~[~.~]", "lex-bracketed-unexpected-token", "d"),
    ("$~[~1~,~#~]", "lex-bracketed-unexpected-token", "d"),
    ("$~[~?~@.a~<~1", "lex-unclosed-filter-at-end", "d"),
    ("$~[~?~", "lex-unclosed-filter-at-end", "d"),
    ("$~[~?~@.a~)~]", "lex-unbalanced-close-paren", "d"),
    ("$~[~?~@.a~=~1~]", "lex-single-equals", "d"),
    ("$~[~?~@.a~&~@.b~]", "lex-filter-unexpected-token", "d"),
    ("$~[~?~@.a~==~#~]", "lex-filter-unexpected-token", "d"),
    ("$~[~?~foo~]", "lex-filter-unexpected-token", "d"),
    ("$~[~?~TRUE~]", "lex-filter-unexpected-token", "d"),
    ("$~[~?~@.a~|~@.b~]", "lex-filter-unexpected-token", "d"),
    ("$~[~'\\q'~]", "lex-invalid-escape", "d"),
    ("$~[~\"\\'\"~]", "lex-invalid-escape", "d"),
    ("$~[~?~@~==~'\\q'~]", "lex-invalid-escape", "d"),
    ("$~[~?~@~==~\"a\\'b\"~]", "lex-invalid-escape", "d"),
    ("$~[~'abc", "lex-unclosed-string", "d"),
    ("$~[~\"abc", "lex-unclosed-string", "d"),
    ("$~[~?~@~==~'abc", "lex-unclosed-string", "d"),
    ("$~[~?~(~@.a", "lex-leftover-open-paren", "d"),
    ("$~[~?~@.a", "lex-leftover-open-bracket", "d"),
    ("$~[~?~count(~@.a", "lex-leftover-open-paren", "d"),
    ("$~[~?~@~[~0~]", "lex-leftover-open-bracket", "d"),
    # ---- TokenStream
    ("$~[~1 2~]", "stream-expected-comma", "d"),
    ("$~[~1\n2~]", "stream-expected-comma", "d"),
    ("$~[~'a'~'b'~]", "stream-expected-comma", "d"),
    ("$~[~?~length(~@.a~@.b~)~==~1~]", "stream-expected-comma-in-call", "d"),
    ("$~[~1~,~]", "stream-trailing-comma", "d"),
    ("$~[~'a'~,~*~,~]", "stream-trailing-comma", "d"),
    # ---- parser
    ("$~[~01~:~2~]", "parse-slice-leading-zero", "d"),
    ("$~[~1~:~-0~]", "parse-slice-leading-zero", "d"),
    ("$~[~:~:~00~]", "parse-slice-leading-zero", "d"),
    ("$~[~01~]", "parse-index-leading-zero", "d"),
    ("$~[~-0~]", "parse-index-leading-zero", "d"),
    ("$~[~1~,~007~]", "parse-index-leading-zero", "d"),
    ("$~[~,~1~]", "parse-bracketed-unexpected-token", "d"),
    ("$~[~1~,~,~2~]", "parse-bracketed-unexpected-token", "d"),
    ("$~[~]", "parse-empty-bracketed-segment", "d"),
    ("$~.a~[~]", "parse-empty-bracketed-segment", "d"),
    ("$~[~?~length(~@.a~)~]", "parse-value-function-must-be-compared", "d"),
    ("$~[~?~count(~@.*~)~]", "parse-value-function-must-be-compared", "d"),
    ("$~[~?~true~]", "parse-literal-must-be-compared", "d"),
    ("$~[~?~'foo'~]", "parse-literal-must-be-compared", "d"),
    ("$~[~?~2.5~]", "parse-literal-must-be-compared", "d"),
    ("$~[~?~null~]", "parse-literal-must-be-compared", "d"),
    ("$~[~?~@.a~==~01~]", "parse-int-literal-leading-zero", "d"),
    ("$~[~?~@.a~==~01.5~]", "parse-float-literal-leading-zero", "d"),
    ("$~[~?~00.5e1~<~@.a~]", "parse-float-literal-leading-zero", "d"),
    ("$~[~?~true~&&~@.a~]", "parse-literal-operand-of-logical-left", "d"),
    ("$~[~?~@.a~||~1~]", "parse-literal-operand-of-logical-right", "d"),
    ("$~[~?~@.a~&&~'x'~]", "parse-literal-operand-of-logical-right", "d"),
    ("$~[~?~length(~!~@.a~)~==~1~]", "parse-function-argument-unexpected", "d"),
    ("$~[~?~count(~(~@.*~)~)~==~1~]", "parse-function-argument-unexpected", "d"),
    ("$~[~?~]", "parse-filter-unexpected-end", "d"),
    ("$~[~?~@.a~==~]", "parse-filter-unexpected-end", "d"),
    ("$~[~?~@.a~&&~]", "parse-filter-unexpected-end", "d"),
    ("$~[~?~&&~@.a~]", "parse-filter-unexpected-token", "d"),
    ("$~[~?~,~1~]", "parse-filter-unexpected-token", "d"),
    ("$~[~?~@.a~==~==~1~]", "parse-filter-unexpected-token", "d"),
    ("$~[~?~(~)~]", "parse-filter-unexpected-token", "d"),
    ("$~[~?~!~]", "parse-filter-unexpected-end", "d"),
    ("$~[~?~@.a~<~>~1~]", "parse-filter-unexpected-token", "d"),
    ("$~[~?~(~@.a 1~)~]", "parse-filter-unexpected-token", "d"),
    ("$~[~?~(~@.a\n1~)~]", "parse-filter-unexpected-token", "d"),
    ("$~[~'\\u12'~]", "parse-incomplete-u-escape", "d"),
    ("$~[~'\\u'~]", "parse-incomplete-u-escape", "d"),
    ("$~[~?~@~==~\"\\u123\"~]", "parse-incomplete-u-escape", "d"),
    ("$~[~'\\uDC00'~]", "parse-lone-low-surrogate", "d"),
    ("$~[~'\\uD800'~]", "parse-lone-high-surrogate", "d"),
    ("$~[~'\\uD800x'~]", "parse-lone-high-surrogate", "d"),
    ("$~[~'ab\\uD800\\u0041'~]", "parse-high-surrogate-then-non-low", "d"),
    ("$~[~'\\u12G4'~]", "parse-non-hex-u-escape", "d"),
    ("$~[~'a\x01b'~]", "parse-raw-control-character", "d"),
    ("$~[~?~@~==~'\x00'~]", "parse-raw-control-character", "d"),
    ("$~[~'a\nb'~]", "parse-raw-control-character-lf-inside-string", "d"),
    ("$~[~?~@.a~==~'x\n\ny'~]", "parse-raw-control-character-lf-inside-string", "d"),
    ("$~[~'\\u0000'~]", "parse-escaped-control-character-refused", "d"),
    ("$~[~?~@.*~>~2~]", "parse-non-singular-query-compared", "d"),
    ("$~[~?~$..a~==~1~]", "parse-non-singular-query-compared", "d"),
    ("$~[~?~1~==~@~[~0~,~1~]~]", "parse-non-singular-query-compared", "d"),
    ("$~[~?~match(~@.a~,~'x'~)~==~true~]", "logical-function-result-compared", "d"),
    ("$~[~?~1~!=~search(~@.a~,~'x'~)~]", "logical-function-result-compared", "d"),
    # ---- environment
    ("$~[~?~foo(~@.a~)~]", "env-undefined-function", "d"),
    ("$~[~?~@.a~&&~nope(~)~]", "env-undefined-function", "d"),
    ("$~[~?~length(~)~==~1~]", "env-wrong-argument-count", "d"),
    ("$~[~?~length(~@.a~,~@.b~)~==~1~]", "env-wrong-argument-count", "d"),
    ("$~[~?~match(~@.a~)~]", "env-wrong-argument-count", "d"),
    ("$~[~?~length(~@.*~)~==~1~]", "env-argument-not-value-type", "d"),
    ("$~[~?~match(~@..a~,~'x'~)~]", "env-argument-not-value-type", "d"),
    ("$~[~?~length(~match(@.a,'b')~)~==~1~]", "env-argument-not-value-type", "d"),
    ("$~[~?~lg(~1~)~]", "env-argument-not-logical-type", "lg"),
    ("$~[~?~@.a~&&~lg(~length(@.a)~)~]", "env-argument-not-logical-type", "lg"),
    ("$~[~?~count(~1~)~==~1~]", "env-argument-not-nodes-type", "d"),
    ("$~[~?~value(~'a'~)~==~1~]", "env-argument-not-nodes-type", "d"),
    ("$~[~?~count(~length(@.a)~)~>~0~]", "env-argument-not-nodes-type", "d"),
    # ---- selectors
    ("$~[~9007199254740992~]", "selector-index-out-of-range", "d"),
    ("$~[~-9007199254740992~]", "selector-index-out-of-range", "d"),
    ("$~.a~[~0~,~9007199254740992~]", "selector-index-out-of-range", "d"),
    ("$~[~1~:~9007199254740992~]", "selector-slice-out-of-range", "d"),
    ("$~[~:~:~-9007199254740992~]", "selector-slice-out-of-range", "d"),
    ("$~[~?~(~@.a 1\n2~)~]", "parse-filter-unexpected-token", "d"),
    # ---- rejected through an exception that is not a JSONPathError
    ("$~[~?~@.a~==~1e400~]", "crash-huge-exponent", "d"),
]

# texts where the blank space itself is (part of) the error; written out with the line terminators
EXPLICIT = [
    (" $", "lex-root-no-dollar"), ("\n$", "lex-root-no-dollar"), ("\r\n$.a", "lex-root-no-dollar"),
    ("$ ", "lex-trailing-whitespace"), ("$.a\n", "lex-trailing-whitespace"), ("$.a\n\n ", "lex-trailing-whitespace"),
    ("$\n[0]\r\n", "lex-trailing-whitespace"), ("$ .a\n .b\n\t", "lex-trailing-whitespace"),
    ("$. a", "lex-whitespace-after-dot"), ("$.\na", "lex-whitespace-after-dot"), ("$\n.a\n.\n\nb", "lex-whitespace-after-dot"),
    ("$.. a", "lex-descendant-unexpected-token"), ("$..\na", "lex-descendant-unexpected-token"),
    ("$\n\n..\n[0]", "lex-descendant-unexpected-token"),
    ("$[?length (@.a) == 1]", "lex-filter-unexpected-token"), ("$[?\nlength\n(@.a) == 1]", "lex-filter-unexpected-token"),
    ("$[?@.a = = 1]", "lex-single-equals"), ("$[?@.a =\n= 1]", "lex-single-equals"),
    ("$[?@.a & & @.b]", "lex-filter-unexpected-token"), ("$[?@.a\n&\n& @.b]", "lex-filter-unexpected-token"),
    ("$[?@.a ! = 1]", "parse-filter-unexpected-token"), ("$[?@.a !\n= 1]", "lex-single-equals"),
    ("$[1\n2]", "stream-expected-comma"), ("$[- 1]", "lex-bracketed-unexpected-token"), ("$[-\n1]", "lex-bracketed-unexpected-token"),
    ("$['a\r\nb']", "parse-raw-control-character-lf-inside-string"),
    ("$\n['a'\n,'b\nc']", "parse-raw-control-character-lf-inside-string"),
    ("$['x',\n'a\nb\nc\\q']", "lex-invalid-escape"),
    ("$[\n'ab\ncd", "lex-unclosed-string"),
]

VALID_MULTILINE = [
    "$\n.a\n.b",
    "$\n['a']\n[0]\n[*]",
    "$ [\n'a',\n\"b\",\n0 ]",
    "$[\n1 :\n2 :\n-1\n]",
    "$\n..a\n..[0]\n..*",
    "$[?\n@.a\n==\n1\n]",
    "$[?@.a == 'x'\n&& @.b < 2.5\n|| !@.c\n]",
    "$[?\nlength(\n@.a\n) >\n1]",
    "$[?match(@.a,\n'a.*')\n&&\ncount(@.*) == 2]",
    "$[?(\n@.a ||\n@.b) &&\n!(@.c == null)]",
    "$[?@[?\n@.a >\n$.b\n]]",
    "$.a[?@ == \"x\\ny\"\n, 'k', 1:2]\n.b",
    "$[?@.a == '\\uD83D\\uDE00'\n||\n@.b == \"\\u00e9\"]",
    "$\r\n.a\r\n[?@.b\r\n!= true]\r\n..c",
    "$[?value(@..a)\n== -1.5e-3]\n[0, -1]",
]
EDIT_INSERTS = ["]", "[", "'", "\"", "(", ")", "#", "0", ".", ",", "\\", "!", "=", "&", " ", "\n"]


UNREACHED_WHY = {
    "lex.py raise JSONPathLexerError (ignore_whitespace)": "every state function emits or ignores before it loops or returns; pos == start at each call",
    "parse.py 'unexpected token' after the query (parse)": "the lexer leaves filter mode exactly when the bracket that opened it closes, so after a "
    "top-level segment it only emits segment tokens or EOF",
    "parse.py 'unexpected end of query' / 'unexpected end of selector list' / 'unbalanced parentheses' (EOF inside a bracket or group)":
        "tokenize() raises first: EOF is only emitted by lex_segment and the bracket stack is checked before parsing",
    "parse.py ValueError branches of parse_integer_literal / parse_float_literal": "token text matches RE_INT / RE_FLOAT, float() cannot fail "
    "(1e400 overflows in int() with OverflowError instead)",
    "parse.py 'unknown escape sequence'": "the lexer refuses every escape outside ESCAPES + own quote before the parser sees the token",
    "tokens.py TokenStream.expect": "all three call sites are guarded by a test of the same token type",
}


def expand_template(tpl: str, tier: str):
    """All fillings of the marked blank positions required by the tier -> set of texts."""
    parts = tpl.split(M)
    npos = len(parts) - 1

    def fill(assign):
        out = [parts[0]]
        for i in range(npos):
            out.append(assign.get(i, ""))
            out.append(parts[i + 1])
        return "".join(out)

    texts = [fill({})]
    for i in range(npos):
        for f in FILLS:
            texts.append(fill({i: f}))
    if npos >= 1:
        for f in FILLS:
            texts.append(fill({i: f for i in range(npos)}))
        texts.append(fill({i: ("\n" if i % 2 == 0 else "\r\n") for i in range(npos)}))
        texts.append(fill({i: ("\n" if i % 2 else " ") for i in range(npos)}))
        texts.append(fill({i: "\n" for i in range(0, npos, 2)}))
        texts.append(fill({i: "\n" for i in range(npos // 2, npos)}))
        texts.append(fill({i: "\n" for i in range(0, (npos + 1) // 2)}))
    if npos >= 2:
        pairs = list(itertools.combinations(range(npos), 2))
        if tier != "thorough":
            pairs = pairs[:: max(1, len(pairs) // 6)]
            fills2 = [("\n", "\n"), ("\n", " "), ("\r\n", "\n\n  ")]
        else:
            fills2 = list(itertools.product(FILLS, repeat=2))
        for i, j in pairs:
            for f, g in fills2:
                texts.append(fill({i: f, j: g}))
    if tier == "thorough" and npos >= 3:
        triples = list(itertools.combinations(range(npos), 3))
        for i, j, k in triples[:: max(1, len(triples) // 40)]:
            for f, g, h in itertools.product(["\n", "\r\n", "\n\n  "], repeat=3):
                texts.append(fill({i: f, j: g, k: h}))
    return texts


def single_edits(text: str, tier: str):
    out = []
    for i in range(len(text)):
        out.append(text[:i] + text[i + 1 :])
    for i in range(len(text) + 1):
        for c in EDIT_INSERTS:
            out.append(text[:i] + c + text[i:])
    subs = ("#", "\n", "'", "]", "(", "0", ".", "\\", '"', ",") if tier == "thorough" else ("#", "\n", "'", "]")
    for i in range(len(text)):
        for c in subs:
            if text[i] != c:
                out.append(text[:i] + c + text[i + 1 :])
    if tier == "thorough":
        # two deletions
        for i in range(len(text)):
            for j in range(i + 1, min(len(text), i + 12)):
                out.append(text[:i] + text[i + 1 : j] + text[j + 1 :])
    return out


# --------------------------------------------------------------------------------------

_envs = {}


def get_env(tag):
    import jsonpath_rfc9535 as jp
    from jsonpath_rfc9535.function_extensions import ExpressionType
    from jsonpath_rfc9535.function_extensions import FilterFunction

    if tag not in _envs:
        env = jp.JSONPathEnvironment()
        if tag == "lg":
            class Lg(FilterFunction):
                arg_types = [ExpressionType.LOGICAL]
                return_type = ExpressionType.LOGICAL

                def __call__(self, x):  # pragma: no cover
                    return bool(x)

            env.function_extensions["lg"] = Lg()
        _envs[tag] = env
    return _envs[tag]


_RE_POS = re.compile(r", line (-?\d+), column (-?\d+)\Z")


def line_col(q: str, index: int):
    return 1 + q.count("\n", 0, index), index - (q.rfind("\n", 0, index) + 1)


def no_token_site(q: str, site: str) -> str:
    if site != "edit":
        return site
    if re.search(r"(match|search)\(", q) and re.search(r"==|!=|<|>", q):
        return "logical-function-result-compared"
    return "unclassified"


def check(q: str, site: str, envtag: str):
    """-> (status, violation or None).  status: 'accepted' | 'rejected'."""
    import jsonpath_rfc9535 as jp

    env = get_env(envtag)
    inp = {"query": q, "site": site}
    try:
        env.compile(q)
        return "accepted", None
    except jp.JSONPathError as e:
        err = e
    except Exception as e:  # noqa: BLE001
        return "rejected", {"kind": "c19-error-is-not-a-jsonpatherror-" + type(e).__name__,
                            "what": "compile rejects the text with an exception that carries no position",
                            "input": inp, "expected": "JSONPathError with token", "observed": type(e).__name__ + ": " + str(e)[:80]}
    tok = getattr(err, "token", None)
    try:
        msg = str(err)
    except Exception as e:  # noqa: BLE001
        return "rejected", {"kind": "c19-str-of-error-raises", "what": "str(error) raised", "input": inp,
                            "expected": "a message", "observed": type(e).__name__}
    if tok is None:
        return "rejected", {"kind": "c19-no-token-on-" + no_token_site(q, site), "what": "the error carries no token, so no offset and no position in the message",
                            "input": inp, "expected": "error.token with 0 <= index <= %d" % len(q), "observed": {"message": msg, "token": None}}
    idx = tok.index
    if not isinstance(idx, int) or isinstance(idx, bool) or not 0 <= idx <= len(q):
        return "rejected", {"kind": "c19-offset-out-of-range", "what": "token.index is not an offset of the query text", "input": inp,
                            "expected": "0 <= index <= %d" % len(q), "observed": {"index": idx, "message": msg}}
    m = _RE_POS.search(msg)
    if not m:
        return "rejected", {"kind": "c19-message-without-position", "what": "message does not end with ', line L, column C'",
                            "input": inp, "expected": "..., line %d, column %d" % line_col(q, idx), "observed": msg}
    got = (int(m.group(1)), int(m.group(2)))
    want = line_col(q, idx)
    if got == want:
        return "rejected", None
    nl_before = "\n" in q[:idx]
    tokval = tok.value if isinstance(getattr(tok, "value", None), str) else ""
    if "\n" in tokval:
        # cause visible in the input: the token the error points at spans a line feed
        kind = "c19-line-counted-inside-token-text"
    elif nl_before:
        kind = "c19-line-always-1" if got[0] == 1 else "c19-line-wrong"
    elif got[0] != want[0]:
        kind = "c19-line-wrong"
    else:
        kind = "c19-column-wrong"
    return "rejected", {"kind": kind, "what": "printed line/column is not the position of offset token.index in the query text",
                        "input": dict(inp, index=idx), "expected": "line %d, column %d" % want, "observed": "line %d, column %d" % got}


def _work(cases):
    out = []
    for q, site, envtag in cases:
        status, v = check(q, site, envtag)
        out.append((q, status, v))
    return out


# --------------------------------------------------------------------------------------
# site coverage (observation only; the judged pass above runs unpatched)


def error_sites():
    """(file, first line, last line, text) of every raise JSONPath*Error / l.error(...) in the modules compile() uses."""
    import jsonpath_rfc9535 as jp

    root = Path(jp.__file__).resolve().parent
    sites = []
    for name in ("lex.py", "parse.py", "tokens.py", "environment.py", "selectors.py"):
        src = (root / name).read_text(encoding="utf-8")
        tree = ast.parse(src)
        for node in ast.walk(tree):
            if isinstance(node, ast.Raise) and isinstance(node.exc, ast.Call):
                f = node.exc.func
                nm = f.id if isinstance(f, ast.Name) else getattr(f, "attr", "")
                if nm.startswith("JSONPath") and nm.endswith("Error"):
                    sites.append((name, node.lineno, node.end_lineno, "raise " + nm))
            elif isinstance(node, ast.Call) and isinstance(node.func, ast.Attribute) and node.func.attr == "error" \
                    and isinstance(node.func.value, ast.Name) and node.func.value.id == "l":
                arg = ast.get_source_segment(src, node.args[0]) if node.args else ""
                sites.append((name, node.lineno, node.end_lineno, "l.error(" + (arg or "")[:50] + ")"))
    return sorted(set(sites))


def coverage(cases):
    import jsonpath_rfc9535 as jp
    from jsonpath_rfc9535 import lex as lexmod

    sites = error_sites()
    hit = {}
    recorded = []
    orig = lexmod.Lexer.error

    def rec(self, msg):
        fr = sys._getframe(1)
        recorded.append((Path(fr.f_code.co_filename).name, fr.f_lineno))
        return orig(self, msg)

    lexmod.Lexer.error = rec
    try:
        for q, site, envtag in cases:
            del recorded[:]
            try:
                get_env(envtag).compile(q)
            except jp.JSONPathError as e:
                marks = list(recorded)
                tb = e.__traceback__
                last = None
                while tb is not None:
                    fn = Path(tb.tb_frame.f_code.co_filename)
                    if fn.parent.name == "jsonpath_rfc9535":
                        last = (fn.name, tb.tb_lineno)
                    tb = tb.tb_next
                if last:
                    marks.append(last)
                for fname, line in marks:
                    for s in sites:
                        if s[0] == fname and s[1] <= line <= s[2]:
                            if s not in hit or len(q) < len(hit[s]):
                                hit[s] = q
            except Exception:  # noqa: BLE001, S110
                pass
    finally:
        lexmod.Lexer.error = orig
    reached = [{"site": "%s:%d %s" % (s[0], s[1], s[3]), "by": hit[s]} for s in sites if s in hit]
    unreached = ["%s:%d %s" % (s[0], s[1], s[3]) for s in sites if s not in hit]
    return len(sites), reached, unreached


def run(tier: str, seed: int) -> dict:
    cases = {}
    order = []

    def add(q, site, envtag="d"):
        if q not in cases:
            cases[q] = (site, envtag)
            order.append(q)

    base_cases = []
    for tpl, site, envtag in TEMPLATES:
        if envtag == "explicit-ws":
            continue
        base_cases.append((tpl.replace(M, ""), site, envtag))
        for q in expand_template(tpl, tier):
            add(q, site, envtag)
    for q, site in EXPLICIT:
        base_cases.append((q, site, "d"))
        add(q, site)
    n_handwritten = len(order)
    handwritten = set(order)
    for v in VALID_MULTILINE:
        for q in single_edits(v, tier):
            add(q, "edit")

    allcases = [(q, cases[q][0], cases[q][1]) for q in order]
    nchunks = 32
    chunks = [allcases[i::nchunks] for i in range(nchunks)]
    results = pmap(_work, [c for c in chunks if c])
    rejected = accepted = multiline = 0
    handwritten_accepted = []
    by = {}
    counts = {}
    lines_seen = {}
    for res in results:
        for q, status, v in res:
            if status == "accepted":
                accepted += 1
                if q in handwritten:
                    handwritten_accepted.append(q)
                continue
            rejected += 1
            if "\n" in q:
                multiline += 1
            if v:
                counts[v["kind"]] = counts.get(v["kind"], 0) + 1
                by.setdefault(v["kind"], []).append(v)
    violations = []
    for k in sorted(by):
        vs = sorted(by[k], key=lambda v: (len(v["input"]["query"]), v["input"]["query"]))
        violations.extend(vs[:PER_KIND])

    # the valid multi-line texts must compile - otherwise the edit neighbourhood is not what the rule says
    import jsonpath_rfc9535 as jp
    not_compiling = []
    for v in VALID_MULTILINE:
        try:
            jp.compile(v)
        except Exception as e:  # noqa: BLE001
            not_compiling.append([v, type(e).__name__])

    n_sites, reached, unreached = coverage(base_cases)
    samples = []
    for q in ("$[1,2", "$[?@.a < 1", "$[\n1,2", "$[?\n@.a\n==\n]", "$[?match(@.a,'x')==true]"):
        st, v = check(q, "sample", "d")
        try:
            jp.compile(q)
            obs = "accepted"
        except Exception as e:  # noqa: BLE001
            tok = getattr(e, "token", None)
            obs = {"message": str(e), "index": getattr(tok, "index", None)}
        samples.append({"query": q, "observed": obs, "verdict": v["kind"] if v else "ok"})
    return {
        "evaluations": len(allcases),
        "distinct_nontrivial": multiline,
        "rule": (
            "A case is one distinct query text; judged when compile() rejects it.  Texts: %d hand-written templates aimed at "
            "every raise/l.error site reachable from compile (site list extracted from the source at run time, coverage "
            "reported in bounds.sites_*), each expanded by filling every grammar-legal blank position (marked in the "
            "template) with each of SP, LF, CRLF, TAB, LF LF SP SP - one position at a time, all positions at once, "
            "alternating patterns, halves, and sampled pairs (thorough: all pairs x all fills, sampled triples); %d texts whose "
            "error IS a blank/newline; every rejected single-character deletion/insertion%s of %d valid multi-line "
            "queries.  Non-trivial = the rejected text contains a line feed (so the offset->line/column map is not the "
            "identity).  Expected: JSONPathError with token, 0 <= token.index <= len(q), message ends ', line L, column C' "
            "with L = 1 + count of LF before the offset and C = offset - (index of last LF before it + 1), 0-based as pinned "
            "by tests/test_errors.py ('$[1,2' -> column 5 = len, '$[?@.a < 1' -> column 10 = len)."
            % (len(TEMPLATES) - 1, len(EXPLICIT), "/substitution (thorough: more substitutions, double deletions)", len(VALID_MULTILINE))
        ),
        "samples": samples,
        "bounds": {
            "tier": tier, "templates": len(TEMPLATES) - 1, "explicit": len(EXPLICIT), "handwritten_variants": n_handwritten,
            "edit_neighbours": len(allcases) - n_handwritten, "rejected": rejected, "accepted_not_judged": accepted,
            "fills": FILLS, "sites_total": n_sites, "sites_reached": len(reached), "sites_unreached": unreached,
            "sites_reached_by": reached,
            "sites_unreached_why": UNREACHED_WHY, "handwritten_variants_accepted": sorted(handwritten_accepted)[:20], "valid_multiline_not_compiling": not_compiling,
            "violation_counts_by_kind": dict(sorted(counts.items())),
        },
        "exhaustive": True,
        "unjudged": accepted,
        "violations": violations,
    }


if __name__ == "__main__":
    _main(run)
