"""C04 (bounded): every near-miss string that is INVALID per the RFC oracle must make compile() raise a
JSONPathError.

Cases: single-edit neighbours (qenum.neighbours) of a deterministic selection of the enumerated valid
queries, short token strings (qenum.token_strings, bare and inside `$[?...]`), and the ill-typed function
calls of qenum part (d).  The slow oracle is consulted only for strings compile() accepts (or that make
it raise something that is not a JSONPathError).

A violation's kind names the *relaxation of the RFC* that would make the accepted string valid: each kind
is a pure predicate on the string - "is it in the language of RFC grammar + this one named relaxation
(and well-typed)?" - tried in a fixed order; every violation gets exactly one kind (see classify).
"""

from __future__ import annotations

import itertools
import time
from typing import Dict, List, Optional, Tuple

from . import _run, qenum, rfcvalid

PROP = "c04"

# --------------------------------------------------------------------------------------------------
# named relaxations (all written with `=/` so that they compose)
# --------------------------------------------------------------------------------------------------

RELAXATIONS: List[Tuple[str, str, frozenset]] = [
    # (kind suffix, extra ABNF, typing relaxations) - the order is part of the definition of the kinds
    ("parenthesised-comparand", 'comparable =/ "(" S comparable S ")"\n', frozenset()),
    ("parenthesised-expression-as-comparand", 'comparable =/ "(" S logical-expr S ")"\n', frozenset()),
    ("dash-in-shorthand-name", 'name-char =/ "-"\n', frozenset()),
    ("not-before-comparison", "basic-expr =/ logical-not-op S comparison-expr\n", frozenset()),
    (
        "not-before-literal",
        "test-expr =/ logical-not-op S x-paren-literal\n" 'x-paren-literal = literal / ("(" S x-paren-literal S ")")\n',
        frozenset(),
    ),
    ("double-not", 'logical-not-op =/ "!" S logical-not-op\n', frozenset()),
    ("negated-comparand", "comparable =/ logical-not-op S comparable\n", frozenset()),
    ("negated-query-as-comparand", "comparable =/ logical-not-op S filter-query\n", frozenset()),
    ("chained-comparison", "comparison-expr =/ comparable 2*(S comparison-op S comparable)\n", frozenset()),
    ("leading-zero-or-minus-zero", 'int =/ "-0" 1*DIGIT\n', frozenset()),
    ("space-separated-slice", 'slice-selector =/ [start S] ":" S end 1*B step\n', frozenset()),
    ("slice-step-without-second-colon", 'slice-selector =/ [start S] ":" S end "-" DIGIT1 *DIGIT\n', frozenset()),
    (
        "trailing-comma-in-call",
        'function-expr =/ function-name "(" S function-argument *(S "," S function-argument) S "," S ")"\n',
        frozenset(),
    ),
    ("value-function-as-test", "", frozenset(["value-function-as-test"])),
]

_GRAMMARS: Dict[Tuple[int, ...], object] = {}


def _grammar_for(idx: Tuple[int, ...]):
    g = _GRAMMARS.get(idx)
    if g is None:
        text = "".join(RELAXATIONS[i][1] for i in idx)
        base = rfcvalid.parse_grammar()
        g = base.extended(text) if text else base
        _GRAMMARS[idx] = g
    return g


def _explained_by(q: str, idx: Tuple[int, ...], registry) -> bool:
    relax = frozenset().union(*[RELAXATIONS[i][2] for i in idx])
    v, _ = rfcvalid.judge_with(_grammar_for(idx), q, registry, relax=relax)
    return v == "valid"


def classify(q: str) -> str:
    """Kind of an accepted invalid string: the first named relaxation (then the first pair) of the RFC
    under which q is valid.  A pure function of q."""
    reg = qenum.registry_for(q)
    n = len(RELAXATIONS)
    for i in range(n):
        if _explained_by(q, (i,), reg):
            return "%s-accepts-%s" % (PROP, RELAXATIONS[i][0])
    # no single relaxation explains q: it needs several at once.  A violation still gets exactly ONE kind:
    # the first member (in the fixed order above) of the first minimal explaining set.  (q is accepted, so
    # the implementation tolerates every member of the set; naming any of them names an open finding.)
    for size in (2, 3):
        for idx in itertools.combinations(range(n), size):
            if _explained_by(q, idx, reg):
                return "%s-accepts-%s" % (PROP, RELAXATIONS[idx[0]][0])
    return PROP + "-unclassified"


# --------------------------------------------------------------------------------------------------
# cases
# --------------------------------------------------------------------------------------------------


def origin_candidates(tier: str) -> List[str]:
    """Deterministic selection of enumerated queries whose neighbours are taken (validity is checked by
    the worker; invalid candidates are skipped)."""
    t = qenum.TIERS[tier]
    out: List[str] = []
    seen = set()

    def add(q: str) -> None:
        if q not in seen:
            seen.add(q)
            out.append(q)

    for q in qenum.lexical_origins():
        add(q)
    groups: Dict[str, List[str]] = {"a": [], "b": [], "c": [], "d": []}
    for part, sk, vary in qenum.bases(tier):
        if vary:
            groups[part].append(qenum.render(sk))
    # cost model: about 45 distinct neighbours per character (measured)
    budget = t["nb_target"] - sum(45 * len(q) + 30 for q in out)
    share = {"a": 0.25, "b": 0.2, "c": 0.3, "d": 0.25}
    for part in "abcd":
        qs = groups[part]
        cost = sum(45 * len(q) + 30 for q in qs)
        allowed = budget * share[part]
        if allowed <= 0 or not qs:
            continue
        step = max(1.0, cost / allowed)  # fractional stride: evenly spread, deterministic
        i = 0.0
        while int(i) < len(qs):
            add(qs[int(i)])
            i += step
    return out


def _tok_chunks(k: int, k_expr: int) -> List[Tuple[str, int, Tuple[int, ...]]]:
    """work units for token strings: (mode, length n, fixed first lexeme indices)"""
    units: List[Tuple[str, int, Tuple[int, ...]]] = []
    for mode, kk in (("bare", k), ("filter", k), ("expr", k_expr)):
        L = len(_lexemes(mode))
        for n in range(0, kk + 1):
            if n <= 2:
                units.append((mode, n, ()))
            else:
                for a in range(L):
                    for b in range(L):
                        units.append((mode, n, (a, b)))
    return units


def _lexemes(mode: str) -> List[str]:
    return qenum.EXPR_LEXEMES if mode == "expr" else qenum.LEXEMES


def _tok_iter(unit):
    mode, n, fixed = unit
    pre, suf = ("$", "") if mode == "bare" else ("$[?", "]")
    lex = _lexemes(mode)
    head = "".join(lex[i] for i in fixed)
    rest = n - len(fixed)
    for combo in itertools.product(lex, repeat=rest):
        yield pre + head + "".join(combo) + suf


# --------------------------------------------------------------------------------------------------
# worker
# --------------------------------------------------------------------------------------------------


def _new_state() -> dict:
    return {
        "evaluations": 0,
        "rejected": 0,
        "accepted_valid": 0,
        "accepted_invalid": 0,
        "unjudged": 0,
        "origins_used": 0,
        "origins_skipped": 0,
        "samples": [],
        "viol": _run.Violations(),
        "nontrivial": set(),
    }


def _check(s: str, source: str, origin: Optional[str], st: dict) -> None:
    import jsonpath_rfc9535

    comp, tag = _run.compiler_for(s)
    st["evaluations"] += 1
    err: Optional[BaseException] = None
    try:
        comp(s)
    except jsonpath_rfc9535.JSONPathError as e:
        st["rejected"] += 1
        st["nontrivial"].add(_run.digest(s))
        if st["rejected"] % 30011 == 1 and len(st["samples"]) < 6:
            st["samples"].append({"query": s, "source": source, "outcome": type(e).__name__})
        return
    except BaseException as e:  # noqa: BLE001
        err = e
    verdict, reason = rfcvalid.explain(s, qenum.registry_for(s))
    if verdict == "unjudged":
        st["unjudged"] += 1
        return
    if verdict == "valid":
        if err is None:
            st["accepted_valid"] += 1
        return  # a valid string that crashes compile() is C03's / C13's business
    st["nontrivial"].add(_run.digest(s))
    st["accepted_invalid"] += 1
    inp = {"query": s, "registry": tag, "source": source}
    if origin is not None:
        inp["origin"] = origin
    if err is not None:
        st["viol"].add(
            "%s-raises-%s-instead-of-jsonpatherror" % (PROP, type(err).__name__),
            "invalid string makes compile() raise an exception that is not a JSONPathError",
            inp,
            "compile() raises JSONPathError (%s)" % reason,
            type(err).__name__,
        )
        return
    if len(st["samples"]) < 2:
        st["samples"].append(dict(inp, outcome="accepted"))
    st["viol"].add(
        classify(s),
        "invalid string accepted by compile()",
        inp,
        "compile() raises JSONPathError (%s)" % reason,
        "compile() returned a query",
    )


_EXACT_DISTINCT = True  # set by run() before forking: exact global distinct count (quick tier only)


def _worker(job) -> dict:
    st = _new_state()
    kind, payload = job
    if kind == "neighbours":
        seen = set()
        for q in payload:
            if rfcvalid.validity(q, qenum.registry_for(q)) != "valid":
                st["origins_skipped"] += 1
                continue
            st["origins_used"] += 1
            for s in sorted(qenum.neighbours(q)):  # sorted: set order depends on the hash seed
                if s in seen:
                    continue
                seen.add(s)
                _check(s, "neighbour", q, st)
    elif kind == "tokens":
        for unit in payload:
            for s in _tok_iter(unit):
                _check(s, "token-string", None, st)
    elif kind == "strings":
        source, strings = payload
        for s in strings:
            _check(s, source, None, st)
    st["viol"] = st["viol"].dump()
    st["n_nontrivial"] = len(st["nontrivial"])
    st["nontrivial"] = b"".join(st["nontrivial"]) if _EXACT_DISTINCT else b""
    return st


def run(tier: str, seed: int) -> dict:
    t0 = time.time()
    t = qenum.TIERS[tier]
    origins = origin_candidates(tier)
    origins.sort(key=lambda q: (len(q), q))
    jobs: List[Tuple[str, object]] = []
    nchunk = _run.nprocs() * 6
    for ch in _run.chunked(origins, nchunk):
        jobs.append(("neighbours", ch))
    units = _tok_chunks(t["tok_k"], t["tok_k_expr"])
    for ch in _run.chunked(units, nchunk):
        jobs.append(("tokens", ch))
    calls = [qenum.render(sk) for part, sk, _ in qenum.bases(tier) if part == "d"]
    for ch in _run.chunked(calls, _run.nprocs()):
        jobs.append(("strings", ("ill-typed-call", ch)))
    designed = sorted(set(qenum.designed_near_misses()))
    jobs.append(("strings", ("designed-near-miss", designed)))
    global _EXACT_DISTINCT
    _EXACT_DISTINCT = tier == "quick"
    res = _run.pool_map(_worker, jobs)

    tot = _new_state()
    nontrivial = set()
    n_local = 0
    for r in res:
        n_local += r["n_nontrivial"]
        for k in ("evaluations", "rejected", "accepted_valid", "accepted_invalid", "unjudged", "origins_used", "origins_skipped"):
            tot[k] += r[k]
        tot["samples"].extend(r["samples"])
        tot["viol"].merge(r["viol"])
        blob = r["nontrivial"]
        nontrivial.update(blob[i : i + 8] for i in range(0, len(blob), 8))
    viol = tot["viol"].final()
    samples = sorted(tot["samples"], key=lambda s: (len(s["query"]), s["query"]))
    step = max(1, len(samples) // 8)
    return {
        "evaluations": tot["evaluations"],
        "distinct_nontrivial": len(nontrivial) if _EXACT_DISTINCT else n_local,
        "rule": "single-edit neighbours (deletion, adjacent transposition, insertion/substitution over a "
        "%d-symbol alphabet + %d near-tokens) of a deterministic selection of oracle-valid enumerated queries; all "
        "sequences of <= k lexemes from a %d-lexeme alphabet after '$' and inside '$[?..]'; all sequences of <= k' "
        "lexemes from a 16-lexeme expression alphabet inside '$[?..]'; the ill-typed calls of "
        "qenum (d); a hand-written list of near misses per category of the property statement. distinct_nontrivial = distinct strings that compile() refuses with a JSONPathError (not "
        "re-judged: a refused valid string is C03's business) or accepts although the oracle says invalid; strings "
        "that are accepted and valid, or unjudged, are not counted. quick tier: exact distinct count over the whole "
        "run; thorough tier: sum of the distinct counts of the %d work units (a string produced by two units is "
        "counted twice there)" % (len(qenum.ALPHABET), len(qenum.NEAR_TOKENS), len(qenum.LEXEMES), len(jobs)),
        "samples": samples[::step][:10],
        "bounds": {
            "tier": tier,
            "neighbour_origin_candidates": len(origins),
            "neighbour_origins_used": tot["origins_used"],
            "neighbour_origins_not_valid_skipped": tot["origins_skipped"],
            "token_string_k": t["tok_k"],
            "token_strings": 2 * qenum.token_string_count(t["tok_k"]),
            "expression_token_string_k": t["tok_k_expr"],
            "expression_token_strings": sum(len(qenum.EXPR_LEXEMES) ** n for n in range(t["tok_k_expr"] + 1)),
            "ill_typed_call_candidates": len(calls),
            "designed_near_misses": len(designed),
            "rejected_by_compile": tot["rejected"],
            "accepted_and_valid": tot["accepted_valid"],
            "accepted_but_invalid": tot["accepted_invalid"],
            "violation_totals": tot["viol"].totals,
            "wall_seconds": round(time.time() - t0, 1),
        },
        "exhaustive": True,
        "unjudged": tot["unjudged"],
        "violations": viol,
    }


if __name__ == "__main__":
    _run.main(run)
