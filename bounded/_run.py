"""Shared plumbing of the bounded runners: fork pool, violation store, probe environment, CLI."""

from __future__ import annotations

import argparse
import hashlib
import json
import multiprocessing
import os
import sys
import time
from typing import Callable, Dict, Iterable, List, Sequence

MAX_PER_KIND = 40


def nprocs() -> int:
    try:
        n = len(os.sched_getaffinity(0))
    except AttributeError:  # pragma: no cover
        n = os.cpu_count() or 1
    return max(1, min(16, n))


def chunked(items: Sequence, n_chunks: int) -> List[Sequence]:
    """round-robin split (keeps the cost of chunks balanced when items are sorted by size)"""
    n_chunks = max(1, min(n_chunks, len(items) or 1))
    return [items[i::n_chunks] for i in range(n_chunks)]


def pool_map(fn: Callable, chunks: Iterable, procs: int | None = None) -> list:
    chunks = list(chunks)
    procs = procs or nprocs()
    if procs == 1 or len(chunks) <= 1:
        return [fn(c) for c in chunks]
    ctx = multiprocessing.get_context("fork")
    with ctx.Pool(procs) as pool:
        return pool.map(fn, chunks, chunksize=1)


def digest(s: str) -> bytes:
    return hashlib.blake2b(s.encode("utf-8", "surrogatepass"), digest_size=8).digest()


class Violations:
    """Deduplicated by (kind, input); at most MAX_PER_KIND per kind, shortest inputs first."""

    def __init__(self) -> None:
        self.by_kind: Dict[str, Dict[str, dict]] = {}
        self.totals: Dict[str, int] = {}

    def add(self, kind: str, what: str, inp: dict, expected, observed) -> None:
        ident = {k: inp[k] for k in ("query", "registry", "document") if k in inp} or inp
        key = json.dumps(ident, sort_keys=True, ensure_ascii=True)
        d = self.by_kind.setdefault(kind, {})
        if key in d:
            return
        self.totals[kind] = self.totals.get(kind, 0) + 1
        d[key] = {"kind": kind, "what": what, "input": inp, "expected": expected, "observed": observed}
        if len(d) > 4 * MAX_PER_KIND:
            self._trim(kind)

    def _trim(self, kind: str) -> None:
        d = self.by_kind[kind]
        keep = sorted(d.items(), key=lambda kv: (len(kv[0]), kv[0]))[:MAX_PER_KIND]
        self.by_kind[kind] = dict(keep)

    def merge(self, other_dump: dict) -> None:
        for kind, items in other_dump["by_kind"].items():
            d = self.by_kind.setdefault(kind, {})
            for key, v in items.items():
                d.setdefault(key, v)
            if len(d) > 4 * MAX_PER_KIND:
                self._trim(kind)
        for kind, n in other_dump["totals"].items():
            self.totals[kind] = self.totals.get(kind, 0) + n

    def dump(self) -> dict:
        for kind in list(self.by_kind):
            self._trim(kind)
        return {"by_kind": self.by_kind, "totals": self.totals}

    def final(self) -> List[dict]:
        out: List[dict] = []
        for kind in sorted(self.by_kind):
            self._trim(kind)
            items = sorted(self.by_kind[kind].items(), key=lambda kv: (len(kv[0]), kv[0]))
            out.extend(v for _k, v in items)
        return out


# --------------------------------------------------------------------------------------------------
# environments of the implementation under test
# --------------------------------------------------------------------------------------------------

_PROBE_ENV = None


def probe_env():
    """A JSONPathEnvironment with the probe functions of qenum.PROBES registered (built per process,
    never cached on disk)."""
    global _PROBE_ENV
    if _PROBE_ENV is None:
        from jsonpath_rfc9535 import JSONPathEnvironment
        from jsonpath_rfc9535.function_extensions import ExpressionType, FilterFunction

        class Lg(FilterFunction):
            arg_types = [ExpressionType.LOGICAL]
            return_type = ExpressionType.LOGICAL

            def __call__(self, x):  # noqa: ANN001
                return bool(x)

        class Nd(FilterFunction):
            arg_types = [ExpressionType.NODES]
            return_type = ExpressionType.NODES

            def __call__(self, x):  # noqa: ANN001
                return x

        class Zl(FilterFunction):
            arg_types = []
            return_type = ExpressionType.LOGICAL

            def __call__(self):
                return True

        env = JSONPathEnvironment()
        env.function_extensions["lg"] = Lg()
        env.function_extensions["nd"] = Nd()
        env.function_extensions["zl"] = Zl()
        _PROBE_ENV = env
    return _PROBE_ENV


def compiler_for(q: str):
    """(compile function, registry tag) - the default environment unless q calls a probe function"""
    from . import qenum

    if qenum.needs_probe(q):
        return probe_env().compile, "probe"
    import jsonpath_rfc9535

    return jsonpath_rfc9535.compile, "builtin"


def main(run: Callable[[str, int], dict]) -> None:
    ap = argparse.ArgumentParser()
    ap.add_argument("--tier", default="quick", choices=["quick", "thorough"])
    ap.add_argument("--seed", type=int, default=int(os.environ.get("VERIF_SEED", "0")))
    ap.add_argument("--summary", action="store_true", help="print counts and kinds instead of the JSON")
    a = ap.parse_args()
    t0 = time.time()
    res = run(a.tier, a.seed)
    wall = time.time() - t0
    if a.summary:
        kinds: Dict[str, List[dict]] = {}
        for v in res["violations"]:
            kinds.setdefault(v["kind"], []).append(v)
        print(
            "evaluations=%d distinct_nontrivial=%d unjudged=%d exhaustive=%s wall=%.1fs"
            % (res["evaluations"], res["distinct_nontrivial"], res["unjudged"], res["exhaustive"], wall)
        )
        print("bounds:", json.dumps(res["bounds"], ensure_ascii=True))
        for k, vs in sorted(kinds.items()):
            tot = res.get("bounds", {}).get("violation_totals", {}).get(k, len(vs))
            print("  %-55s total=%-7d e.g. %s" % (k, tot, " | ".join(json.dumps(v["input"].get("query"), ensure_ascii=True) for v in vs[:4])))
    else:
        sys.stdout.write(json.dumps(res, ensure_ascii=True) + "\n")  # the JSON, on one line, last line of stdout
        sys.stdout.flush()
