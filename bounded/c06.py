"""C06 bounded tie-in: the comparison table over a value pool x 6 operators x 3 ways of producing a comparand."""
import itertools
import json

from bounded.common import main
from bounded.semrun import run_product

POOL = [None, True, False, 0, 1, -1, 2, 1.0, 0.0, -0.0, 0.5, 2 ** 53, "", "a", "A", "b", "ab", "\U0001F600", "￿",
        [], [1], [True], [1.0], [0], [False], [[1]], [[True]], {}, {"a": 1}, {"a": True}, {"a": 1, "b": 2}, {"b": 2, "a": 1}, {"a": [1]}, {"a": [True]}]
OPS = ["==", "!=", "<", "<=", ">", ">="]


def lit(v):
    if isinstance(v, (list, dict)):
        return None
    if isinstance(v, str):
        return "'" + v + "'"
    return json.dumps(v)


def queries(tier):
    qs = []
    for op in OPS:
        qs.append(f"$.x[?@.a {op} @.b]")
        qs.append(f"$.x[?$.x[0].a {op} @.b]")
        qs.append(f"$.x[?value(@.a) {op} @.b]")
        qs.append(f"$.x[?@.a {op} value(@.*.c)]")
        qs.append(f"$.x[?@.missing {op} @.b]")
        qs.append(f"$.x[?@.missing {op} @.nope]")
        for v in POOL:
            l = lit(v)
            if l is not None:
                qs.append(f"$.x[?@.a {op} {l}]")
                qs.append(f"$.x[?{l} {op} @.b]")
    return qs


def documents(tier):
    ds = []
    pool = POOL if tier == "thorough" else POOL
    for a, b in itertools.product(pool, repeat=2):
        ds.append({"x": [{"a": a, "b": b}]})
    return ds


def classify(q, doc, what):
    if what.startswith("compile"):
        return "c06-valid-comparison-refused"
    if what.startswith(("raises", "crash")):
        return "c06-evaluation-raises-" + what.split(":")[1]
    d = doc["x"][0]
    a, b = d.get("a"), d.get("b")
    def has_bool(v):
        return isinstance(v, bool) or (isinstance(v, list) and any(has_bool(x) for x in v)) or (isinstance(v, dict) and any(has_bool(x) for x in v.values()))
    if has_bool(a) or has_bool(b) or "true" in q or "false" in q:
        if any(o in q for o in ("<", ">")) and (isinstance(a, bool) or isinstance(b, bool) or "true" in q or "false" in q):
            return "c06-booleans-ordered-as-numbers"
        return "c06-bool-equals-number-inside-structure"
    return "c06-comparison-wrong"


def run(tier, seed):
    return run_product(queries(tier), documents(tier), classify,
                       rule=f"all ordered pairs from a {len(POOL)}-value pool (every kind, equal int/float pairs, -0.0, case-differing and non-BMP "
                            "strings, nested bool-vs-number leaves) x 6 operators x comparands produced by literal / relative query / absolute "
                            "query / value() / missing member; oracle = spec.rfc_filter.rfc_compare (Table 11).")


if __name__ == "__main__":
    main(run)
