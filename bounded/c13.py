"""C13 (bounded, compile/find half): totality.

For every string of the C03 and C04 enumerations (valid, unjudged and invalid alike) plus seeded random
garbage (<= 1024 characters over the token alphabet, bracket / parenthesis / filter nesting <= 32):
  * compile() terminates (5 s alarm) and either returns or raises an exception derived from JSONPathError;
  * str(exception) succeeds;
  * for those that compile, find() on JSON values of every kind (object, array, string, number, true,
    false, null - as root and as children) returns or raises a JSONPathError (5 s alarm for the batch).
No oracle is needed: the expected outcome does not depend on validity.
"""

from __future__ import annotations

import random
import re
import signal
import time
from typing import List, Optional, Tuple

from . import _run, c04, qenum, rfcvalid

PROP = "c13"
ALARM_SECONDS = 5

# --------------------------------------------------------------------------------------------------
# JSON values: every kind as root and as child
# --------------------------------------------------------------------------------------------------

_KINDS = [{"a": 1, "b": "x"}, [1, "x"], "s", "", 1, 0, 1.5, -2, True, False, None, {}, []]


def documents() -> List[Tuple[str, object]]:
    docs: List[Tuple[str, object]] = []
    names = ["object", "array", "string", "empty-string", "int", "zero", "float", "negative", "true", "false",
             "null", "empty-object", "empty-array"]
    for n, k in zip(names, _KINDS):
        docs.append(("root-" + n, k))
    docs.append(("object-of-all-kinds", {"a": {"a": 1, "b": [1]}, "b": [1, {"a": "x"}], "c": "s", "d": 1, "e": 1.5,
                                         "f": True, "g": False, "h": None, "i": {}, "j": [], "k": ""}))
    docs.append(("array-of-all-kinds", [{"a": 1, "b": None}, [1, [2]], "s", 1, 1.5, True, False, None, {}, [], ""]))
    docs.append(("object-a-scalar-kinds", {"a": "s", "b": 1}))
    docs.append(("object-a-true-null", {"a": True, "b": None}))
    docs.append(("object-a-false-float", {"a": False, "b": 2.5}))
    docs.append(("object-a-array", {"a": [{"a": [1, 2], "b": "ab"}, "a", 1], "b": {"a": {"b": 1}}}))
    docs.append(("array-of-arrays", [[1, 2], ["a", "b"], [True, None], [[1]], [{"a": 1, "b": 2}]]))
    return docs


# --------------------------------------------------------------------------------------------------
# classification by cause visible in the input
# --------------------------------------------------------------------------------------------------

_NUM = re.compile(r"-?\d+(?:\.\d+)?[eE][+-]?\d+")


def _has_huge_exponent_number(q: str) -> bool:
    for m in _NUM.finditer(q):
        try:
            if float(m.group(0)) in (float("inf"), float("-inf")):
                return True
        except (ValueError, OverflowError):
            return True
    return False


_NODES_FN_ON_CURRENT = re.compile(r"\b(?:count|value|nd)\(\s*@\s*[,)]")


def classify_compile(q: str, exc: BaseException) -> str:
    name = type(exc).__name__
    if isinstance(exc, OverflowError) and _has_huge_exponent_number(q):
        return PROP + "-overflowerror-huge-exponent"
    if isinstance(exc, _Timeout):
        return PROP + "-compile-timeout"
    if isinstance(exc, RecursionError):
        return PROP + "-recursionerror-deep-nesting-compile"
    return "%s-other-%s" % (PROP, name)


def classify_find(q: str, doc_name: str, exc: BaseException) -> str:
    name = type(exc).__name__
    if isinstance(exc, _Timeout):
        return PROP + "-find-timeout"
    if isinstance(exc, (TypeError, AttributeError)) and _NODES_FN_ON_CURRENT.search(q):
        return PROP + "-typeerror-function-on-scalar-current"
    if isinstance(exc, RecursionError):
        return PROP + "-recursionerror-deep-nesting-find"
    return "%s-other-%s" % (PROP, name)


# --------------------------------------------------------------------------------------------------
# seeded random garbage
# --------------------------------------------------------------------------------------------------

GARBAGE_TOKENS = qenum.LEXEMES + [
    '"b"', "'", '"', "\\", "\\u0041", "\\ud83d", "!=", "<=", ">=", ">", "=", "&", "|", "+", "e", "E", "0", "1e400",
    "1e-400", "9007199254740992", "false", "null", "search", "value", "length(", "count(", "match(", "value(", "foo(",
    "_", "\u00e9", "\U0001F600", "\n", "\t", "\r", "-1:", "::", "*", "@.a", "$.b", "[0]", "['a']", "..", "?@", "[?", "?",
]


def _rand_tokens(rng: random.Random, max_chars: int) -> str:
    n = rng.choice([3, 6, 12, 25, 50, 100, 200, 400])
    out: List[str] = ["$"] if rng.random() < 0.8 else []
    size = sum(len(x) for x in out)
    for _ in range(n):
        t = rng.choice(GARBAGE_TOKENS)
        if size + len(t) > max_chars:
            break
        out.append(t)
        size += len(t)
    return "".join(out)


class _Gen:
    """random (mostly well-formed) query with nesting up to `depth`, as a token list"""

    def __init__(self, rng: random.Random, depth: int) -> None:
        self.rng = rng
        self.max_depth = depth

    def blank(self) -> str:
        return self.rng.choice(["", "", "", " ", "\n", "\t"])

    def name(self) -> str:
        return self.rng.choice(["a", "b", "_x", "a1", "\u00e9", "true", "a-b", "\U0001F600"])

    def string(self) -> str:
        return self.rng.choice(["'a'", '"b"', "''", "'\\u0041'", "'\\u0000'", "'\\n'", "'a\\'b'", "'\U0001F600'", "'\\x'"])

    def number(self) -> str:
        return self.rng.choice(["0", "1", "-1", "1.5", "-0", "0e1", "1e2", "1E-2", "01", "-01", "1e400", "1.0e400",
                                "9007199254740993", "1.", ".5"])

    def integer(self) -> str:
        return self.rng.choice(["0", "1", "-1", "10", "-0", "01", "9007199254740991", "9007199254740992", "-9007199254740992"])

    def query(self, d: int, root: Optional[str] = None) -> List[str]:
        out = [root or self.rng.choice(["$", "@"])]
        for _ in range(self.rng.choice([0, 1, 1, 2, 3])):
            out.append(self.blank())
            out.extend(self.segment(d))
        return out

    def segment(self, d: int) -> List[str]:
        r = self.rng.random()
        if r < 0.3:
            return [".", self.name()]
        if r < 0.4:
            return [".", "*"]
        if r < 0.5:
            return ["..", self.name()]
        if r < 0.55:
            return ["..", "*"]
        pre = [".."] if r < 0.65 else []
        sels: List[str] = []
        for i in range(self.rng.choice([1, 1, 1, 2, 3])):
            if i:
                sels += [self.blank(), ",", self.blank()]
            sels += self.selector(d)
        return pre + ["[", self.blank()] + sels + [self.blank(), "]"]

    def selector(self, d: int) -> List[str]:
        r = self.rng.random()
        if d < self.max_depth and r < 0.45:
            return ["?", self.blank()] + self.expr(d + 1)
        if r < 0.6:
            return [self.string()]
        if r < 0.75:
            return [self.integer()]
        if r < 0.85:
            return ["*"]
        parts = []
        if self.rng.random() < 0.5:
            parts.append(self.integer())
        parts.append(":")
        if self.rng.random() < 0.5:
            parts.append(self.integer())
        if self.rng.random() < 0.5:
            parts.append(":")
            if self.rng.random() < 0.6:
                parts.append(self.integer())
        return parts

    def expr(self, d: int) -> List[str]:
        r = self.rng.random()
        if d >= self.max_depth:
            return self.query(d)
        if r < 0.25:
            return ["(", self.blank()] + self.expr(d + 1) + [self.blank(), ")"]
        if r < 0.35:
            return ["!", self.blank()] + self.expr(d + 1)
        if r < 0.5:
            return self.expr(d + 1) + [self.blank(), self.rng.choice(["&&", "||"]), self.blank()] + self.expr(d + 1)
        if r < 0.7:
            return self.comparable(d + 1) + [self.blank(), self.rng.choice(["==", "!=", "<", "<=", ">", ">="]),
                                             self.blank()] + self.comparable(d + 1)
        if r < 0.85:
            return self.call(d + 1)
        return self.query(d + 1)

    def comparable(self, d: int) -> List[str]:
        r = self.rng.random()
        if r < 0.3:
            return [self.number()]
        if r < 0.45:
            return [self.string()]
        if r < 0.55:
            return [self.rng.choice(["true", "false", "null"])]
        if r < 0.7 and d < self.max_depth:
            return self.call(d + 1)
        return self.query(d + 1)

    def call(self, d: int) -> List[str]:
        fn = self.rng.choice(["length", "count", "match", "search", "value", "foo", "lg", "nd", "zl"])
        n = self.rng.choice([0, 1, 1, 1, 2, 2, 3])
        out = [fn, "(", self.blank()]
        for i in range(n):
            if i:
                out += [self.blank(), ",", self.blank()]
            r = self.rng.random()
            if d < self.max_depth and r < 0.35:
                out += self.expr(d + 1)
            elif r < 0.6:
                out += self.comparable(min(d + 1, self.max_depth))
            else:
                out += self.query(min(d + 1, self.max_depth))
        out += [self.blank(), ")"]
        return out


def _nesting_patterns(rng: random.Random) -> str:
    d = rng.randint(1, 32)
    kind = rng.randrange(10)
    if kind == 0:
        return "$" + "[?@" * d + "]" * d
    if kind == 1:
        return "$[?" + "(" * d + "@.a" + ")" * d + "]"
    if kind == 2:
        return "$[?" + "!(" * d + "@.a" + ")" * d + "]"
    if kind == 3:
        return "$[?" + "!" * d + "@.a]"
    if kind == 4:
        return "$[?" + "length(" * d + "@.a" + ")" * d + "==1]"
    if kind == 5:
        return "$[?" + "count(" * d + "@.*" + ")" * d + "==1]"
    if kind == 6:
        return "$" + "[?@" * d + "]" * rng.randint(0, d)
    if kind == 7:
        return "$[?" + "(" * d + "@.a" + ")" * rng.randint(0, d) + "]"
    if kind == 8:
        return "$" + "[?@.a==$" * d + "]" * d
    return "$" + "[?@[?@.a" * d + "]]" * d + "[" * rng.randint(0, 32)


def garbage(seed: int, chunk: int, count: int) -> List[str]:
    rng = random.Random("%d:%d" % (seed, chunk))
    out: List[str] = []
    for i in range(count):
        mode = i % 4
        if mode == 0:
            s = _rand_tokens(rng, 1024)
        elif mode == 3:
            s = _nesting_patterns(rng)
        else:
            g = _Gen(rng, rng.choice([1, 2, 3, 4, 8, 16, 32]))
            toks = g.query(0, "$")
            if mode == 2:  # mutate a few tokens
                for _ in range(rng.choice([1, 1, 2, 3])):
                    if not toks:
                        break
                    p = rng.randrange(len(toks))
                    op = rng.randrange(3)
                    if op == 0:
                        del toks[p]
                    elif op == 1:
                        toks.insert(p, rng.choice(GARBAGE_TOKENS))
                    else:
                        toks[p] = rng.choice(GARBAGE_TOKENS)
            s = "".join(toks)
        if len(s) > 1024:
            s = s[:1024]
        out.append(s)
    return out


# --------------------------------------------------------------------------------------------------
# worker
# --------------------------------------------------------------------------------------------------


class _Timeout(BaseException):
    pass


def _on_alarm(signum, frame):  # noqa: ANN001
    raise _Timeout()


def _new_state() -> dict:
    return {
        "evaluations": 0,
        "compile_calls": 0,
        "compiled": 0,
        "find_calls": 0,
        "jsonpath_errors": 0,
        "find_jsonpath_errors": 0,
        "samples": [],
        "viol": _run.Violations(),
        "distinct": set(),
        "by_source": {},
    }


_DOCS: Optional[List[Tuple[str, object]]] = None


def _exercise(s: str, source: str, st: dict) -> None:
    import jsonpath_rfc9535

    global _DOCS
    if _DOCS is None:
        _DOCS = documents()
    d = _run.digest(s)
    if d in st["distinct"]:
        return
    st["distinct"].add(d)
    st["by_source"][source] = st["by_source"].get(source, 0) + 1
    comp, tag = _run.compiler_for(s)
    st["compile_calls"] += 1
    st["evaluations"] += 1
    query = None
    signal.alarm(ALARM_SECONDS)
    try:
        try:
            query = comp(s)
        finally:
            signal.alarm(0)
    except jsonpath_rfc9535.JSONPathError as e:
        st["jsonpath_errors"] += 1
        try:
            str(e)
        except BaseException as e2:  # noqa: BLE001
            st["viol"].add(
                PROP + "-str-of-error-fails",
                "str() of the JSONPathError raised by compile() fails",
                {"query": s, "registry": tag, "source": source},
                "str(exception) returns",
                "%s from str(%s)" % (type(e2).__name__, type(e).__name__),
            )
        return
    except BaseException as e:  # noqa: BLE001
        st["viol"].add(
            classify_compile(s, e),
            "compile() raised an exception that is not a JSONPathError" if not isinstance(e, _Timeout) else "compile() did not terminate within %d s" % ALARM_SECONDS,
            {"query": s, "registry": tag, "source": source},
            "compile() returns or raises JSONPathError",
            "%s: %s" % (type(e).__name__, _safe(e)),
        )
        return
    st["compiled"] += 1
    if len(st["samples"]) < 2 or (st["compiled"] % 4001 == 0 and len(st["samples"]) < 8):
        st["samples"].append({"query": s, "source": source, "registry": tag})
    for doc_name, doc in _DOCS:
        st["find_calls"] += 1
        st["evaluations"] += 1
        signal.alarm(ALARM_SECONDS)
        try:
            try:
                query.find(doc)
            finally:
                signal.alarm(0)
        except jsonpath_rfc9535.JSONPathError as e:
            st["find_jsonpath_errors"] += 1
            try:
                str(e)
            except BaseException as e2:  # noqa: BLE001
                st["viol"].add(
                    PROP + "-str-of-error-fails",
                    "str() of the JSONPathError raised by find() fails",
                    {"query": s, "registry": tag, "source": source, "document": doc_name},
                    "str(exception) returns",
                    "%s from str(%s)" % (type(e2).__name__, type(e).__name__),
                )
        except BaseException as e:  # noqa: BLE001
            st["viol"].add(
                classify_find(s, doc_name, e),
                "find() raised an exception that is not a JSONPathError" if not isinstance(e, _Timeout) else "find() did not terminate within %d s" % ALARM_SECONDS,
                {"query": s, "registry": tag, "source": source, "document": doc_name, "value": doc},
                "find() returns or raises JSONPathError",
                "%s: %s" % (type(e).__name__, _safe(e)),
            )


def _safe(e: BaseException) -> str:
    try:
        return str(e)[:160]
    except BaseException:  # noqa: BLE001
        return "<str() failed>"


def _worker(job) -> dict:
    signal.signal(signal.SIGALRM, _on_alarm)
    st = _new_state()
    kind, payload = job
    if kind == "c03":
        for part, sk, vary in payload:
            _exercise(qenum.render(sk), "c03-enumeration", st)
            if vary:
                for s in qenum.lexical_variations(sk):
                    _exercise(s, "c03-enumeration", st)
                for s in qenum.blank_variations(sk):
                    _exercise(s, "c03-enumeration", st)
    elif kind == "neighbours":
        for q in payload:
            if rfcvalid.validity(q, qenum.registry_for(q)) != "valid":
                continue
            for s in sorted(qenum.neighbours(q)):  # sorted: set order depends on the hash seed
                _exercise(s, "c04-neighbour", st)
    elif kind == "tokens":
        for unit in payload:
            for s in c04._tok_iter(unit):
                _exercise(s, "c04-token-string", st)
    elif kind == "strings":
        for s in payload:
            _exercise(s, "c04-designed-near-miss", st)
    elif kind == "garbage":
        seed, chunk, count = payload
        for s in garbage(seed, chunk, count):
            _exercise(s, "garbage", st)
    signal.alarm(0)
    st["viol"] = st["viol"].dump()
    st["n_distinct"] = len(st["distinct"])
    st["distinct"] = None
    return st


GARBAGE_COUNT = {"quick": 40_000, "thorough": 1_000_000}


def run(tier: str, seed: int) -> dict:
    t0 = time.time()
    t = qenum.TIERS[tier]
    nchunk = _run.nprocs() * 6
    jobs: List[Tuple[str, object]] = []
    bs = qenum.bases(tier)
    for ch in _run.chunked(bs, nchunk):
        jobs.append(("c03", ch))
    origins = c04.origin_candidates(tier)
    origins.sort(key=lambda q: (len(q), q))
    for ch in _run.chunked(origins, nchunk):
        jobs.append(("neighbours", ch))
    units = c04._tok_chunks(t["tok_k"], t["tok_k_expr"])
    for ch in _run.chunked(units, nchunk):
        jobs.append(("tokens", ch))
    jobs.append(("strings", sorted(set(qenum.designed_near_misses()))))
    n_garbage = GARBAGE_COUNT[tier]
    per = max(1, n_garbage // nchunk)
    for i in range(nchunk):
        jobs.append(("garbage", (seed, i, per)))
    res = _run.pool_map(_worker, jobs)

    tot = _new_state()
    n_distinct = 0
    for r in res:
        for k in ("evaluations", "compile_calls", "compiled", "find_calls", "jsonpath_errors", "find_jsonpath_errors"):
            tot[k] += r[k]
        n_distinct += r["n_distinct"]
        for k, v in r["by_source"].items():
            tot["by_source"][k] = tot["by_source"].get(k, 0) + v
        tot["samples"].extend(r["samples"])
        tot["viol"].merge(r["viol"])
    samples = sorted(tot["samples"], key=lambda s: (len(s["query"]), s["query"]))
    step = max(1, len(samples) // 8)
    docs = documents()
    return {
        "evaluations": tot["evaluations"],
        "distinct_nontrivial": tot["compiled"],
        "rule": "every string of the C03 enumeration (qenum (a)-(f), whatever its validity), of the C04 enumeration "
        "(single-edit neighbours, token strings) and seeded random garbage (token soup, random derivations with nesting "
        "<= 32 and their mutations, deep-nesting patterns; <= 1024 characters) goes through compile() under a 5 s alarm; "
        "those that compile go through find() on %d JSON values covering every kind as root and as child. "
        "evaluations = compile calls + find calls (strings deduplicated per worker job); distinct_nontrivial = strings "
        "that compiled and therefore exercised the evaluator" % len(docs),
        "samples": samples[::step][:10],
        "bounds": {
            "tier": tier,
            "seed": seed,
            "compile_calls": tot["compile_calls"],
            "compiled": tot["compiled"],
            "refused_with_jsonpatherror": tot["jsonpath_errors"],
            "find_calls": tot["find_calls"],
            "find_raised_jsonpatherror": tot["find_jsonpath_errors"],
            "documents": [n for n, _ in docs],
            "strings_by_source": tot["by_source"],
            "garbage_strings": per * nchunk,
            "garbage_max_chars": 1024,
            "garbage_max_nesting": 32,
            "alarm_seconds": ALARM_SECONDS,
            "violation_totals": tot["viol"].totals,
            "wall_seconds": round(time.time() - t0, 1),
        },
        "exhaustive": False,
        "unjudged": 0,
        "violations": tot["viol"].final(),
    }


if __name__ == "__main__":
    _run.main(run)
