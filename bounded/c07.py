"""C07 bounded tie-in: index / slice arithmetic through the parser (parse_slice) on arrays of length 0..6."""
import itertools

from bounded.common import main
from bounded.semrun import run_product

BIG = 2 ** 53 - 1
PARTS = ["", "0", "1", "-1", "2", "-2", "3", "7", "-7", str(BIG), str(-BIG)]


def queries(tier):
    qs = [f"$[{i}]" for i in PARTS if i]
    parts = PARTS if tier == "thorough" else PARTS[:9] + PARTS[9:]
    for s, e, t in itertools.product(parts, repeat=3):
        qs.append(f"$[{s}:{e}:{t}]")
    for s, e in itertools.product(parts, repeat=2):
        qs.append(f"$[{s}:{e}]")
    qs += ["$[ 1 : 3 ]", "$[1 :3: 2]", "$[::  -1]", "$[-1,0]", "$[0:2,1]"]
    return qs


def classify(q, doc, what):
    if what.startswith("compile"):
        return "c07-valid-slice-or-index-refused"
    if what.startswith(("raises", "crash")):
        return "c07-evaluation-raises-" + what.split(":")[1]
    return "c07-slice-wrong" if ":" in q else "c07-index-wrong"


def run(tier, seed):
    ds = [list(range(10, 10 + n)) for n in range(0, 7)] + [{"0": 1, "a": 2}, "abc", 5, None]
    return run_product(queries(tier), ds, classify,
                       rule="every index in {0,+-1,+-2,3,+-7,+-(2^53-1)} and every [start:end:step] with each part omitted or from that set, "
                            "x arrays of length 0..6 plus an object and scalars; oracle = RFC Normalize/Bounds pseudo-code (spec.rfc_select.sel_slice).")


if __name__ == "__main__":
    main(run)
