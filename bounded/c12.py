"""C12 - str(query) is a faithful canonical form: it reparses to the same query.

Queries come from an AST generator of our own (grammar-valid and well-typed by construction, RFC 9535
ABNF of DESIGN.md App. D), printed in several spellings.  Those that compile() accepts - and that
bounded/rfcvalid.py calls "valid" when that module is importable - are judged:

  Q = compile(q);  t = str(Q)
  1. t compiles (and is valid RFC 9535 per rfcvalid when available);
  2. compile(t) is STRUCTURALLY EQUAL to Q (own comparison over the compiled object trees: classes, names,
     indices, slice parts None vs explicit, operators, literal values incl. int vs float and the sign of
     zero, nesting of !, &&, ||, comparisons, calls, embedded queries) - tokens/positions ignored;
  3. Q and compile(t) select the same nodes (location + value with type) on 15 documents;
  4. str(compile(t)) == t;
  5. every name / string literal in t is a normal single-quoted literal (strlit.scan_normal_name), no
     double-quoted literal and no shorthand survives.
"""
from __future__ import annotations

import itertools
import re
import sys
from fractions import Fraction
from pathlib import Path

sys.path.insert(0, str(Path(__file__).resolve().parent.parent))

from bounded import strlit  # noqa: E402
from bounded.common import main as _main  # noqa: E402
from bounded.common import pmap  # noqa: E402

PER_KIND = 40

# --------------------------------------------------------------------------------------
# AST constructors


def Q(*segs, root="$"):
    return ("q", root, tuple(segs))


def child(*sels, style="br"):
    return ("child", tuple(sels), style)


def desc(*sels, style="br"):
    return ("desc", tuple(sels), style)


def nm(s, quote="'", esc="minimal"):
    return ("name", s, quote, esc)


def idx(i):
    return ("index", i)


def sl(a, b, c, second_colon=True):
    return ("slice", a, b, c, True if c is not None else second_colon)


WILD = ("wild",)


def flt(e):
    return ("filter", e)


def num(text):
    return ("lit", "num", text)


def sstr(s, quote="'", esc="minimal"):
    return ("lit", "str", s, quote, esc)


TRUE, FALSE, NULL = ("lit", "true"), ("lit", "false"), ("lit", "null")


def cmp_(op, a, b):
    return ("cmp", op, a, b)


def test(x):
    return ("test", x)


def call(name, *args):
    return ("call", name, tuple(args))


def OR(a, b):
    return ("or", a, b)


def AND(a, b):
    return ("and", a, b)


def NOT(e):
    return ("not", e)


def dot(name):
    return child(("name", name, "short", None), style="dot")


def ddot(name):
    return desc(("name", name, "short", None), style="dot")


REL = lambda *segs: Q(*segs, root="@")  # noqa: E731

# --------------------------------------------------------------------------------------
# printer (our own; sp = text put at optional blank positions; full = redundant parentheses)


class Printer:
    def __init__(self, sp="", full=False):
        self.sp = sp
        self.full = full

    def query(self, q, tight=False):
        _, root, segs = q
        sep = "" if tight else self.sp
        return root + "".join(sep + self.segment(s, tight) for s in segs)

    def segment(self, seg, tight=False):
        kind, sels, style = seg
        lead = "" if kind == "child" else ".."
        if style == "dot":
            s = sels[0]
            body = "*" if s[0] == "wild" else s[1]
            return ("." if kind == "child" else "..") + body
        sp = "" if tight else self.sp
        return lead + "[" + sp + (sp + "," + sp).join(self.selector(s) for s in sels) + sp + "]"

    def selector(self, s):
        k = s[0]
        if k == "name":
            return strlit.encode_literal(s[1], s[2], s[3])
        if k == "wild":
            return "*"
        if k == "index":
            return str(s[1])
        if k == "slice":
            _, a, b, c, second = s
            sp = self.sp
            out = ""
            if a is not None:
                out += str(a) + sp
            out += ":" + sp
            if b is not None:
                out += str(b) + sp
            if second:
                out += ":"
                if c is not None:
                    out += sp + str(c)
            return out
        if k == "filter":
            e = s[1]
            body = self.expr(e)
            if self.full and e[0] in ("or", "and"):
                body = "(" + self.sp + body + self.sp + ")"
            return "?" + self.sp + body
        raise ValueError(k)

    def expr(self, e):
        k = e[0]
        sp = self.sp
        if k in ("or", "and"):
            op = "||" if k == "or" else "&&"
            return self.operand(e[1], k, "l") + sp + op + sp + self.operand(e[2], k, "r")
        if k == "not":
            inner = e[1]
            if inner[0] == "test" and not self.full:
                return "!" + sp + self.expr(inner)
            return "!" + sp + "(" + sp + self.expr(inner) + sp + ")"
        if k == "cmp":
            return self.comparable(e[2]) + sp + e[1] + sp + self.comparable(e[3])
        if k == "test":
            x = e[1]
            return self.call(x) if x[0] == "call" else self.query(x)
        raise ValueError(k)

    def operand(self, c, parent, side):
        need = False
        if parent == "or":
            need = side == "r" and c[0] == "or"
        elif parent == "and":
            need = c[0] == "or" or (side == "r" and c[0] == "and")
        if self.full:
            need = True
        s = self.expr(c)
        return "(" + self.sp + s + self.sp + ")" if need else s

    def comparable(self, c):
        if c[0] == "lit":
            return self.literal(c)
        if c[0] == "q":
            return self.query(c, tight=True)  # blanks inside a singular query's brackets are unjudged (App. D)
        if c[0] == "call":
            return self.call(c)
        raise ValueError(c[0])

    def literal(self, c):
        if c[1] == "num":
            return c[2]
        if c[1] == "str":
            return strlit.encode_literal(c[2], c[3], c[4])
        return c[1]

    def call(self, c):
        _, name, args = c
        sp = self.sp
        parts = []
        for a in args:
            if a[0] == "lit":
                parts.append(self.literal(a))
            elif a[0] == "q":
                parts.append(self.query(a, tight=a[3] if len(a) > 3 else is_singular(a)))
            elif a[0] == "call":
                parts.append(self.call(a))
            else:
                parts.append(self.expr(a))
        return name + "(" + sp + (sp + "," + sp).join(parts) + sp + ")"


def is_singular(q):
    for seg in q[2]:
        if seg[0] != "child" or len(seg[1]) != 1 or seg[1][0][0] not in ("name", "index"):
            return False
    return True


# --------------------------------------------------------------------------------------
# expected structure from the AST (loose: numbers by value) and structure of compiled objects


def num_value(text):
    return Fraction(text.replace("E", "e")) if "e" not in text.lower() else Fraction(text.lower().split("e")[0]) * Fraction(10) ** int(text.lower().split("e")[1])


def ast_struct(node):
    k = node[0]
    if k == "q":
        return ("query", tuple(ast_struct(s) for s in node[2]))
    if k in ("child", "desc"):
        return (k, tuple(ast_struct(s) for s in node[1]))
    if k == "name":
        return ("name", node[1])
    if k == "wild":
        return ("wild",)
    if k == "index":
        return ("index", node[1])
    if k == "slice":
        return ("slice", node[1], node[2], 1 if node[3] is None else node[3])
    if k == "filter":
        return ("filter", ast_struct(node[1]))
    if k in ("or", "and"):
        return ("logical", "||" if k == "or" else "&&", ast_struct(node[1]), ast_struct(node[2]))
    if k == "not":
        return ("not", ast_struct(node[1]))
    if k == "cmp":
        return ("cmp", node[1], ast_operand(node[2]), ast_operand(node[3]))
    if k == "test":
        return ast_operand(node[1])
    raise ValueError(k)


def ast_operand(x):
    if x[0] == "lit":
        if x[1] == "num":
            return ("num", float(x[2]))
        if x[1] == "str":
            return ("str", x[2])
        return (x[1],)
    if x[0] == "q":
        return ("rel" if x[1] == "@" else "root", ast_struct(x))
    if x[0] == "call":
        return ("call", x[1], tuple(ast_operand(a) if a[0] in ("lit", "q", "call") else ast_struct(a) for a in x[2]))
    return ast_struct(x)


def struct(obj, strict=True):
    """Nested-tuple image of a compiled object tree, ignoring tokens."""
    from jsonpath_rfc9535 import filter_expressions as fe
    from jsonpath_rfc9535 import segments as sg
    from jsonpath_rfc9535 import selectors as se
    from jsonpath_rfc9535.query import JSONPathQuery

    t = type(obj)
    if t is JSONPathQuery:
        return ("query", tuple(struct(s, strict) for s in obj.segments))
    if t is sg.JSONPathChildSegment:
        return ("child", tuple(struct(s, strict) for s in obj.selectors))
    if t is sg.JSONPathRecursiveDescentSegment:
        return ("desc", tuple(struct(s, strict) for s in obj.selectors))
    if t is se.NameSelector:
        return ("name", obj.name)
    if t is se.WildcardSelector:
        return ("wild",)
    if t is se.IndexSelector:
        return ("index", obj.index) if type(obj.index) is int else ("index", type(obj.index).__name__, obj.index)
    if t is se.SliceSelector:
        s = obj.slice
        # RFC 9535 2.3.4.2: an omitted step is 1; str() spells it out.  Start/end None stay distinct.
        return ("slice", s.start, s.stop, 1 if s.step is None else s.step)
    if t is se.FilterSelector:
        return ("filter", struct(obj.expression, strict))
    if t is fe.FilterExpression:
        return struct(obj.expression, strict)
    if t is fe.PrefixExpression:
        return ("not", struct(obj.right, strict)) if obj.operator == "!" else ("prefix", obj.operator, struct(obj.right, strict))
    if t is fe.LogicalExpression:
        return ("logical", obj.operator, struct(obj.left, strict), struct(obj.right, strict))
    if t is fe.ComparisonExpression:
        return ("cmp", obj.operator, struct(obj.left, strict), struct(obj.right, strict))
    if t is fe.RelativeFilterQuery:
        return ("rel", struct(obj.query, strict))
    if t is fe.RootFilterQuery:
        return ("root", struct(obj.query, strict))
    if t is fe.FunctionExtension:
        return ("call", obj.name, tuple(struct(a, strict) for a in obj.args))
    if t is fe.StringLiteral:
        return ("str", obj.value)
    if t is fe.BooleanLiteral:
        return ("true",) if obj.value is True else ("false",) if obj.value is False else ("bool?", repr(obj.value))
    if t is fe.NullLiteral:
        return ("null",)
    if t in (fe.IntegerLiteral, fe.FloatLiteral):
        if strict:
            return ("num", t.__name__, type(obj.value).__name__, repr(obj.value))
        return ("num", float(obj.value))
    return ("unknown", t.__name__)


def flatten(s):
    """Identify a || (b || c) with (a || b) || c (same for &&): only for the generator sanity check."""
    if not isinstance(s, tuple):
        return s
    s = tuple(flatten(c) for c in s)
    if s and s[0] == "logical":
        op = s[1]
        items = []
        for c in s[2:]:
            if isinstance(c, tuple) and c and c[0] == "nary" and c[1] == op:
                items.extend(c[2:])
            else:
                items.append(c)
        return ("nary", op) + tuple(items)
    return s


# --------------------------------------------------------------------------------------
# generator

NAMES = [
    "", "a", "'", '"', "\\", "\b", "\f", "\n", "\r", "\t", "\x00", "\x01", "\x1f", "\x7f",
    "\u2028", "\u00e9", "\U0001F600", "\\n", "1", "a'b\"c", "b c", "/", "\\u0041",
]
SWEEP_CHARS = [
    "'", '"', "\\", "/", "b", "n", "u", "0", "a", "\b", "\n", "\t", "\x00", "\x1f", "\x7f", "\u2028", "\u00e9", "\U0001F600",
]
INT_SPELLINGS = [
    "0", "-0", "1", "-1", "10", "123", "9007199254740991", "-9007199254740991", "1e0", "1e2", "1E2", "1e+2", "1E+2",
    "-1e2", "0e0", "0e1", "-0e3", "12e3", "1e15", "1e16", "1e17", "1e20", "1e21", "1e22", "2e16", "10e15", "1e00", "1e02",
]
FLOAT_SPELLINGS = [
    "0.0", "-0.0", "1.0", "-1.0", "0.5", "1.5", "-1.5", "1.25e2", "1.5e-3", "1.0e2", "1.0E2", "1.0e+2", "1.0E+2", "1.0e-2",
    "100.0", "1e-2", "1E-2", "5e-1", "1e-7", "1.0e15", "1.0e16", "1.0e17", "1.5e16", "123456789012345680000.0",
    "100000000000000000000.0", "1.0e20", "1.0e21", "1.0e22", "2.5e-5", "1e-5", "0.00001", "0.0001", "1.0e-4", "1.0e-5",
    "0.1", "0.30000000000000004", "1.5e300", "-1.0e16", "0.10", "1.50", "10.0e0", "0.0e0", "-0.0e-0", "0e-1",
    "9007199254740991.0", "4.5e15", "1e-0", "20e-1",
]


def slices():
    out = []
    for a in (None, 0, 1, -1):
        for b in (None, 0, 2, -1):
            for c, second in ((None, False), (None, True), (0, True), (1, True), (-1, True), (2, True)):
                out.append(sl(a, b, c, second))
    return out


A_TEST = test(REL(dot("a")))
ATOMS = [
    test(REL(dot("a"))),
    cmp_("==", REL(dot("b")), num("1")),
    test(call("match", REL(dot("c")), sstr("x"))),
    cmp_(">", REL(), num("2")),
    test(Q(dot("a"))),
    test(REL(child(flt(test(REL(dot("b"))))))),
    cmp_("!=", call("length", REL(dot("a"))), num("0")),
    cmp_("==", sstr("x"), REL()),
]


def tree_shapes(n, memo={}):  # noqa: B006
    """Expression tree shapes with exactly n operators; leaves are None."""
    if n in memo:
        return memo[n]
    if n == 0:
        out = [None]
    else:
        out = [("not", s) for s in tree_shapes(n - 1)]
        for i in range(n):
            for left in tree_shapes(i):
                for right in tree_shapes(n - 1 - i):
                    out.append(("and", left, right))
                    out.append(("or", left, right))
    memo[n] = out
    return out


def count_leaves(s):
    if s is None:
        return 1
    return sum(count_leaves(c) for c in s[1:])


def fill(shape, atoms):
    it = iter(atoms)

    def go(s):
        if s is None:
            return next(it)
        return (s[0],) + tuple(go(c) for c in s[1:])

    return go(shape)


def gen_logic(tier):
    max_ops = 3 if tier == "thorough" else 2
    for n in range(0, max_ops + 1):
        for shape in tree_shapes(n):
            k = count_leaves(shape)
            if k <= 2 or (tier == "thorough" and k <= 3):
                combos = itertools.product(ATOMS, repeat=k)
            else:
                combos = [[ATOMS[(off + 3 * i) % len(ATOMS)] for i in range(k)] for off in range(len(ATOMS))]
            for atoms in combos:
                e = fill(shape, atoms)
                yield "logic", Q(child(flt(e)))
    # contexts: nested filter (depth 2), descendant, selector list, after other segments
    for n in range(0, 3):
        for shape in tree_shapes(n):
            k = count_leaves(shape)
            for off in (0, 1, 4):
                e = fill(shape, [ATOMS[(off + 3 * i) % len(ATOMS)] for i in range(k)])
                yield "logic-nested", Q(child(flt(test(REL(child(flt(e)))))))
                yield "logic-nested", Q(desc(flt(OR(test(REL(child(flt(e)))), A_TEST))))
                yield "logic-ctx", Q(dot("a"), desc(flt(e)), child(idx(0)))
                yield "logic-ctx", Q(child(flt(e), nm("k"), flt(NOT(e))))
                yield "logic-count", Q(child(flt(cmp_(">", call("count", REL(child(flt(e)))), num("1")))))
    for shape in tree_shapes(1) + tree_shapes(2):
        k = count_leaves(shape)
        e = fill(shape, [ATOMS[(1 + 3 * i) % len(ATOMS)] for i in range(k)])
        yield "logic-depth3", Q(child(flt(test(REL(child(flt(AND(test(REL(child(flt(e)))), A_TEST))))))))


def gen_selectors(tier):
    sels = [nm("a"), nm("b", '"'), nm("a b"), WILD, idx(0), idx(1), idx(-1), idx(10), idx(9007199254740991),
            idx(-9007199254740991), flt(A_TEST), flt(cmp_("<", REL(), num("3")))] + slices()
    for s in sels:
        yield "selector", Q(child(s))
        yield "selector", Q(desc(s))
        yield "selector", Q(dot("a"), child(s), dot("b"))
    for name in ("a", "_", "_a1", "ab", "A", "\u00e9", "\u00e9a9", "\U0001F600", "a\U0001F600", "\u0100_", "true", "null", "e1"):
        yield "shorthand", Q(dot(name))
        yield "shorthand", Q(ddot(name))
        yield "shorthand", Q(dot(name), dot(name))
        yield "shorthand", Q(child(flt(cmp_("==", REL(dot(name)), Q(dot(name))))))
    yield "shorthand", Q(child(WILD, style="dot"))
    yield "shorthand", Q(desc(WILD, style="dot"))
    yield "shorthand", Q(child(WILD, style="dot"), desc(WILD, style="dot"), child(WILD, style="dot"))
    rep = [nm("a"), nm("b", '"'), WILD, idx(0), idx(-1), sl(None, None, None, False), sl(1, None, None, True), sl(None, -1, 2),
           sl(-1, 0, -1), sl(None, None, -1), flt(A_TEST), flt(cmp_("==", REL(dot("a")), sstr("x")))]
    for a, b in itertools.product(rep, repeat=2):
        yield "selector-list", Q(child(a, b))
    for a, b in itertools.product(rep[:6], repeat=2):
        yield "selector-list", Q(desc(a, b))
    yield "selector-list", Q(child(*rep))
    yield "selector-list", Q(desc(*rep))


def gen_segments(tier):
    segs = [dot("a"), child(nm("a")), child(nm("b c", '"')), child(WILD, style="dot"), child(WILD), child(idx(0)), child(idx(-1)),
            child(sl(1, None, None, False)), child(sl(None, None, -1)), child(nm("a"), idx(0)), ddot("a"), desc(WILD, style="dot"),
            desc(idx(0)), desc(nm("a"), WILD), child(flt(A_TEST)), desc(flt(cmp_(">", REL(dot("b")), num("1"))))]
    yield "segments", Q()
    n = 3 if tier == "thorough" else 2
    for k in range(1, n + 1):
        for combo in itertools.product(segs, repeat=k):
            yield "segments", Q(*combo)
    for combo in itertools.product(segs[:8], repeat=2):
        yield "segments-rel", Q(child(flt(test(REL(*combo)))))
        yield "segments-root", Q(child(flt(test(Q(*combo)))))
    if tier != "thorough":
        for off in range(16):
            yield "segments", Q(*[segs[(off + 5 * i) % 16] for i in range(3)])
            yield "segments", Q(*[segs[(off + 3 * i) % 16] for i in range(4)])


def gen_names(tier):
    for name in NAMES:
        for quote in "'\"":
            for esc in ("minimal", "u-upper", "u-lower"):
                n_ = nm(name, quote, esc)
                s_ = sstr(name, quote, esc)
                yield "names", Q(child(n_))
                yield "names", Q(desc(n_))
                yield "names", Q(child(n_, nm("z")), child(n_))
                yield "strings", Q(child(flt(cmp_("==", REL(), s_))))
                yield "strings", Q(child(flt(cmp_("!=", REL(child(n_)), s_))))
                yield "strings", Q(child(flt(test(call("search", REL(dot("a")), s_)))))
                yield "strings", Q(child(flt(cmp_("<", s_, Q(child(n_), child(idx(0)))))))
    maxlen = 3 if tier == "thorough" else 2
    for k in range(2, maxlen + 1):
        for chars in itertools.product(SWEEP_CHARS, repeat=k):
            name = "".join(chars)
            yield "names-sweep", Q(child(nm(name)))
            yield "strings-sweep", Q(child(flt(cmp_("==", REL(dot("a")), sstr(name, '"')))))


def gen_numbers(tier):
    for text in INT_SPELLINGS + FLOAT_SPELLINGS:
        n_ = num(text)
        yield "numbers", Q(child(flt(cmp_("==", REL(), n_))))
        yield "numbers", Q(child(flt(cmp_("<", n_, REL(dot("a"))))))
        yield "numbers", Q(child(flt(cmp_(">=", call("length", REL(dot("a"))), n_))))
        yield "numbers", Q(child(flt(OR(cmp_("==", REL(dot("a")), n_), cmp_("!=", n_, n_)))))
        yield "numbers", Q(child(flt(cmp_("==", call("length", n_), n_))))
        yield "numbers", Q(child(flt(NOT(cmp_("<=", REL(child(idx(0))), n_)))))


OPERANDS = [
    num("1"), num("-1"), num("0"), num("1.5"), sstr("x"), sstr("y", '"'), TRUE, FALSE, NULL,
    REL(), Q(), REL(dot("a")), Q(dot("a")), REL(child(idx(0))), REL(child(nm("a")), child(nm("b", '"'))),
    REL(dot("a"), child(idx(1)), dot("b")), Q(child(idx(0))), Q(child(idx(-1)), dot("a")),
    call("length", REL(dot("a"))), call("count", REL(child(WILD, style="dot"))), call("value", REL(ddot("a"))),
    call("length", call("value", REL(child(WILD)))), call("count", Q(ddot("a"))), call("length", sstr("abc")),
]
OPS = ["==", "!=", "<", "<=", ">", ">="]


def gen_comparisons(tier):
    for a, b in itertools.product(OPERANDS, repeat=2):
        for op in OPS:
            yield "comparison", Q(child(flt(cmp_(op, a, b))))
    for a in OPERANDS:
        for op in OPS:
            yield "comparison-not", Q(child(flt(NOT(cmp_(op, a, REL(dot("b")))))))
            yield "comparison-and", Q(child(flt(AND(cmp_(op, a, num("1")), NOT(cmp_(op, REL(), a))))))


def gen_functions(tier):
    values = [num("1"), sstr("a.c"), NULL, REL(), REL(dot("a")), Q(dot("a"), child(idx(0))), call("length", REL(dot("a"))),
              call("value", REL(ddot("a"))), call("count", REL(child(WILD)))]
    nodes = [REL(), REL(child(WILD, style="dot")), Q(ddot("a")), REL(child(flt(test(REL(dot("b")))))), REL(dot("a")),
             REL(child(sl(None, None, -1))), REL(child(nm("a"), idx(0))), Q(desc(flt(cmp_("==", REL(), num("1")))))]
    for v in values:
        yield "functions", Q(child(flt(cmp_("==", call("length", v), num("1")))))
        for w in values:
            yield "functions", Q(child(flt(test(call("match", v, w)))))
            yield "functions", Q(child(flt(NOT(test(call("search", v, w))))))
            yield "functions", Q(child(flt(AND(test(call("search", v, w)), cmp_(">", call("length", v), call("length", w))))))
    for n_ in nodes:
        yield "functions", Q(child(flt(cmp_(">=", call("count", n_), num("1")))))
        yield "functions", Q(child(flt(cmp_("==", call("value", n_), sstr("x")))))
        yield "functions", Q(child(flt(cmp_("<", call("length", call("value", n_)), call("count", n_)))))
        yield "functions", Q(child(flt(test(call("match", call("value", n_), sstr("a.*"))))))
        yield "functions", Q(child(flt(OR(NOT(test(call("search", call("value", n_), REL(dot("p"))))), cmp_("!=", call("count", n_), num("0"))))))


GENERATORS = [gen_selectors, gen_segments, gen_names, gen_numbers, gen_comparisons, gen_functions, gen_logic]


def has_filter(node):
    if isinstance(node, tuple):
        if node and node[0] == "filter":
            return True
        return any(has_filter(c) for c in node)
    return False


def flags(node, acc=None):
    """Causes visible in the generated query (used to name kinds)."""
    acc = acc if acc is not None else set()
    if not isinstance(node, tuple) or not node:
        return acc
    if node[0] == "not" and node[1][0] == "cmp":
        acc.add("not-of-comparison")
    if node[0] == "not" and node[1][0] == "not":
        acc.add("not-of-not")
    if node[0] == "lit" and node[1] == "num":
        text = node[2]
        v = num_value(text)
        if abs(v) > 2**53 - 1:
            acc.add("number-beyond-2^53")
        is_float_spelling = "." in text or re.search(r"[eE]-", text) is not None
        if is_float_spelling:
            r = repr(float(text))
            if re.fullmatch(r"-?\d+e\+\d+", r):
                acc.add("float-whose-repr-is-integer-mantissa-exponent")
            acc.add("float-literal")
        if Fraction(float(text)) != v:
            acc.add("inexact-decimal")
    for c in node:
        if isinstance(c, tuple):
            flags(c, acc)
    return acc


def variants(ast):
    out = []
    seen = set()
    hf = has_filter(ast)
    for sp in ("", " ", "\n "):
        for full in ((False, True) if hf else (False,)):
            if sp == "\n " and full:
                continue
            t = Printer(sp, full).query(ast)
            if t not in seen:
                seen.add(t)
                out.append((t, sp, full))
    return out


# --------------------------------------------------------------------------------------
# documents for the semantic comparison


def documents():
    return [
        {"a": 1, "b": 2},
        {"a": [1, 2, 3], "b": {"a": "x"}, "c": "x"},
        [1, 2, 3, "x", None, True, False, 2.5],
        [{"a": 1, "b": 1}, {"a": 2, "b": 1, "c": "x"}, {"a": "x"}, {"b": 2}, {"c": {"a": 1}}, {"a": None, "b": None}],
        {"a": {"a": {"a": 1}}, "b": [{"a": "xyz", "b": 3}, {"a": "ab"}], "k": 0},
        "x", 1, None, [], {},
        [[1, 2], [3, [4, 5]], {"a": [0, 1.5, -1], "b": [{"b": 2}]}, [{"a": 1}, {"b": 1}]],
        {"a": "a.c", "c": "x", "": 0, "'": 1, "b c": [1], "a b": 2, "p": "a", "z": [[0]]},
        [0, 1, 2, 3, 4, 5, 6, 7, 8, 9, 10, 11],
        [1e16, 10**16, 100.0, 100, -0.0, 0, 0.0015, 1.5, 1e20, 10**20, 9007199254740991, 0.5, 1e-7, -1, -1.5],
        ["x", "y", "a'b", 'a"b', "\\", "\u00e9", "\U0001F600", "\n", "", "abc", {"a": "abc", "p": "b"}],
    ]


def run_nodes(q, doc):
    try:
        return [(n.location, type(n.value).__name__, repr(n.value)) for n in q.find(doc)]
    except Exception as e:  # noqa: BLE001
        return ("raises", type(e).__name__)


# --------------------------------------------------------------------------------------
# checks

_RE_SHORTHAND = re.compile(r"\.[A-Za-z_*\u0080-\U0010ffff]")


def literal_form_problems(t):
    """Names/strings in t must be normal single-quoted literals; no double quotes, no shorthand."""
    probs = []
    i, n = 0, len(t)
    outside = []
    while i < n:
        c = t[i]
        if c == "'":
            j = strlit.scan_normal_name(t, i)
            if j is None:
                probs.append("single-quoted literal at %d is not in normal form" % i)
                # skip to the end of the literal by the general string grammar
                j = i + 1
                while j < n and t[j] != "'":
                    j += 2 if t[j] == "\\" else 1
                j += 1
            i = j
        elif c == '"':
            probs.append("double-quoted literal at %d" % i)
            j = i + 1
            while j < n and t[j] != '"':
                j += 2 if t[j] == "\\" else 1
            i = j + 1
        else:
            outside.append(c)
            i += 1
    if _RE_SHORTHAND.search("".join(outside)):
        probs.append("shorthand segment survives")
    return probs


try:  # the RFC validity oracle is built by another worker; optional
    from bounded import rfcvalid as _rfcvalid  # noqa: E402
except Exception:  # noqa: BLE001
    _rfcvalid = None


def rfc_validity(text):
    if _rfcvalid is None:
        return None
    try:
        return _rfcvalid.validity(text)
    except Exception as e:  # noqa: BLE001
        return "oracle-error:" + type(e).__name__


_SMALLNUM = re.compile(r"(?<![\w.'\"\\])-?\d+(?:\.\d+)?(?:[eE][+-]?\d+)?(?![\w.])")


def _work(items):
    import jsonpath_rfc9535 as jp

    docs = documents()
    viol = []
    counts = {}
    stats = {"generated": 0, "refused": 0, "unjudged": 0, "judged": 0, "nontrivial": 0, "crash_on_compile": 0,
             "parser_vs_generator_mismatch": 0, "bignum_judged_by_standin": 0}
    refused_examples = []
    mismatch_examples = []
    samples = []
    sample_families = set()

    def report(kind, what, inp, expected, observed):
        counts[kind] = counts.get(kind, 0) + 1
        viol.append({"kind": kind, "what": what, "input": inp, "expected": expected, "observed": observed})

    for family, ast in items:
        fl = flags(ast)
        for q, sp, full in variants(ast):
            stats["generated"] += 1
            try:
                Qc = jp.compile(q)
            except jp.JSONPathError:
                stats["refused"] += 1
                if len(refused_examples) < 6:
                    refused_examples.append(q)
                continue
            except Exception:  # noqa: BLE001
                stats["crash_on_compile"] += 1
                continue
            big = "number-beyond-2^53" in fl
            v = rfc_validity(q)
            if v is not None and v != "valid":
                # number literals beyond 2^53-1 are outside C12's quantifier ("within the exactly-representable
                # range", DESIGN App. D): unjudged, like everything else the oracle does not decide
                stats["unjudged"] += 1
                continue
            stats["judged"] += 1
            if has_filter(ast) or len(ast[2]) >= 2 or fl:
                stats["nontrivial"] += 1
            # generator sanity: the parser's reading of q is the AST we printed (loose on int/float)
            try:
                if flatten(struct(Qc, strict=False)) != flatten(ast_struct(ast)):
                    stats["parser_vs_generator_mismatch"] += 1
                    if len(mismatch_examples) < 6:
                        mismatch_examples.append(q)
            except Exception:  # noqa: BLE001
                stats["parser_vs_generator_mismatch"] += 1
            t = str(Qc)
            inp = {"query": q, "str": t, "family": family}
            failed = []
            detail = {}
            try:
                Q2 = jp.compile(t)
            except Exception as e:  # noqa: BLE001
                Q2 = None
                failed.append("str-not-compilable")
                detail["compile_error"] = type(e).__name__ + ": " + str(e)[:80]
            tv = rfc_validity(t)
            if tv is not None and tv != "valid":
                if tv == "invalid" or tv.startswith("oracle-error"):
                    failed.append("str-not-valid-rfc9535")
                elif not big:
                    # "unjudged" for a text whose source was valid: blanks in singular query or number range
                    if rfc_validity(_SMALLNUM.sub("1", t)) == "invalid":
                        failed.append("str-not-valid-rfc9535")
            if Q2 is not None:
                s1, s2 = struct(Qc), struct(Q2)
                if s1 != s2:
                    failed.append("structure-differs")
                    detail["structure"] = {"original": repr(s1)[:300], "reparsed": repr(s2)[:300]}
                for di, d in enumerate(docs):
                    r1, r2 = run_nodes(Qc, d), run_nodes(Q2, d)
                    if r1 != r2:
                        failed.append("evaluates-differently")
                        detail["document"] = d
                        detail["nodes"] = {"original": repr(r1)[:200], "reparsed": repr(r2)[:200]}
                        break
                t2 = str(Q2)
                if t2 != t:
                    failed.append("not-idempotent")
                    detail["second_str"] = t2
            lp = literal_form_problems(t)
            if lp:
                failed.append("literal-not-canonical")
                detail["literals"] = lp[:3]
            if not failed:
                if sp == "" and family not in sample_families and len(samples) < 2 and len(q) > 12:
                    sample_families.add(family)
                    samples.append({"family": family, "query": q, "str": t, "verdict": "reparses to the same structure, same nodes, idempotent, canonical literals"})
                continue
            if "not-of-comparison" in fl:
                kind = "c12-not-loses-parentheses-around-comparison"
            elif "float-whose-repr-is-integer-mantissa-exponent" in fl:
                kind = "c12-float-printed-as-int-or-exponent-reparsed-differently"
            elif "not-of-not" in fl and failed == ["str-not-valid-rfc9535"]:
                kind = "c12-not-not-printed-without-parentheses"
            else:
                kind = "c12-" + failed[0]
            report(kind, "failed checks: " + ", ".join(failed) + (" [number literal beyond 2^53-1 but an exact double]" if big else ""),
                   inp, "str(Q) valid, structurally equal after reparse, same nodes, idempotent, canonical literals", detail)
        if len(viol) > 3000:
            viol[:] = _trim(viol)
    return stats, _trim(viol), counts, samples, refused_examples, mismatch_examples


def _trim(viol):
    by = {}
    for v in viol:
        by.setdefault(v["kind"], []).append(v)
    out = []
    for k, vs in by.items():
        vs.sort(key=lambda v: (len(v["input"]["query"]), v["input"]["query"]))
        out.extend(vs[: PER_KIND * 2])
    return out


def _pick_samples(samples):
    out, fams = [], set()
    for smp in sorted(samples, key=lambda x: (len(x["query"]), x["query"])):
        f = smp.get("family")
        if f not in fams:
            fams.add(f)
            out.append(smp)
    return out[:9]


def all_asts(tier):
    seen = set()
    out = []
    for g in GENERATORS:
        for family, ast in g(tier):
            if ast not in seen:
                seen.add(ast)
                out.append((family, ast))
    return out


def run(tier: str, seed: int) -> dict:
    problems = list(strlit._selftest())
    if problems:
        raise RuntimeError("strlit oracle self-test failed: " + "; ".join(problems[:3]))
    items = all_asts(tier)
    fam = {}
    for f, _ in items:
        fam[f] = fam.get(f, 0) + 1
    nchunks = 64
    chunks = [items[i::nchunks] for i in range(nchunks)]
    results = pmap(_work, [c for c in chunks if c])
    stats = {}
    viol, counts, samples, refused, mism = [], {}, [], [], []
    for r in results:
        for k, v in r[0].items():
            stats[k] = stats.get(k, 0) + v
        viol.extend(r[1])
        for k, c in r[2].items():
            counts[k] = counts.get(k, 0) + c
        samples.extend(r[3])
        refused.extend(r[4])
        mism.extend(r[5])
    by = {}
    for v in viol:
        by.setdefault(v["kind"], []).append(v)
    violations = []
    for k in sorted(by):
        vs = sorted(by[k], key=lambda v: (len(v["input"]["query"]), v["input"]["query"]))
        violations.extend(vs[:PER_KIND])
    return {
        "evaluations": stats.get("judged", 0),
        "distinct_nontrivial": stats.get("nontrivial", 0),
        "rule": (
            "A case is one distinct query text.  ASTs (distinct) from 7 generators: selectors (every kind, 96 slice forms "
            "with each part omitted/0/positive/negative and both colon forms, min/max indices, shorthand names incl. "
            "non-ASCII), selector lists (all pairs of 12 representatives), segment sequences (<= k of 16 segment forms, also "
            "inside filter queries), names and string literals over the C08 alphabet (both quotes, minimal / all-\\u upper / "
            "all-\\u lower spellings) and all names of <= L characters over 18 character classes, 76 int/float spellings in "
            "6 contexts, comparisons (24 operand forms squared x 6 operators, also under ! and &&), function calls "
            "(length/count/value/match/search over 9 value and 8 nodes arguments, nested), logic (every tree of !, &&, || "
            "with <= N operators over 8 atoms: full product for <= 2 (thorough 3) leaves, 8 rotations beyond; in nested "
            "filters to depth 3, descendant segments, selector lists, count()).  Each AST is printed compact, with a blank "
            "at every optional blank position, with LF+SP there, and (filters) fully parenthesised.  Kept: compile() accepts "
            "and rfcvalid says valid (number literals beyond 2^53-1 that are exact doubles are judged with rfcvalid applied "
            "to the text with numbers replaced by 1 - rfcvalid itself calls them unjudged).  Non-trivial = has a filter, or "
            ">= 2 segments, or a flagged literal.  Structural equality is our own comparison of the compiled trees; an "
            "omitted slice step and step 1 are identified (RFC default), everything else is strict (None vs explicit "
            "start/end, int vs float, -0.0 vs 0.0)."
        ),
        "samples": _pick_samples(samples),
        "bounds": {
            "tier": tier, "asts": len(items), "asts_by_family": fam, "texts_generated": stats.get("generated", 0),
            "refused_by_compile_not_judged": stats.get("refused", 0), "refused_examples": refused[:12],
            "crash_on_compile_not_judged": stats.get("crash_on_compile", 0),
            "rfcvalid_available": _rfcvalid is not None,
            "bignum_judged_by_standin": stats.get("bignum_judged_by_standin", 0),
            "parser_reads_query_differently_from_generator_ast": stats.get("parser_vs_generator_mismatch", 0),
            "parser_vs_generator_examples": mism[:12],
            "max_logic_operators": 3 if tier == "thorough" else 2,
            "max_segment_sequence": 3 if tier == "thorough" else "2 (plus 32 rotated sequences of 3 and 4)",
            "name_sweep_max_len": 3 if tier == "thorough" else 2,
            "documents_for_semantic_comparison": len(documents()),
            "violation_counts_by_kind": dict(sorted(counts.items())),
        },
        "exhaustive": True,
        "unjudged": stats.get("unjudged", 0),
        "violations": violations,
    }


if __name__ == "__main__":
    _main(run)
