"""C17 bounded runner: nondeterministic mode, whole choice tree.

The three stdlib random functions the evaluator calls (random.shuffle, random.choice,
random.sample) are replaced by an enumerating chooser; the entire choice tree of
``find(query, doc)`` on a ``nondeterministic = True`` environment is explored by
replaying choice prefixes depth-first.  Every leaf result must be an ordering RFC 9535
permits (``permitted``), and - exhaustiveness - the set of produced orderings must
equal the brute-force set of permitted orderings (``permitted_orders``).
"""

from __future__ import annotations

import itertools
import json
import multiprocessing as mp
import random
import sys
import time
from typing import Dict
from typing import List
from typing import Optional
from typing import Tuple

QUERIES = ["$..*", "$..[*]", "$..a", "$..[0,1]", "$..[?@]", "$.*", "$[?@]", "$[*]"]
LEAVES = [1, "x"]
KEYS = ["a", "b"]
MAX_SHUFFLE = 4  # all n! permutations are offered up to this n; larger lists stop the exploration of that case

Loc = Tuple[object, ...]
Result = List[Tuple[Loc, object]]

# ------------------------------------------------------------------ documents


def enumerate_docs(max_nodes: int, max_levels: int) -> List[object]:
    """All JSON values with <= max_nodes nodes (every value counts, root included) and
    container nesting <= max_levels (scalars 0, [] 1, [[]] 2); leaves 1 and "x"; object
    keys from {"a","b"} in that insertion order."""
    memo: Dict[Tuple[int, int], List[object]] = {}

    def docs(n: int, lv: int) -> List[object]:
        """values with exactly n nodes and nesting <= lv"""
        key = (n, lv)
        if key in memo:
            return memo[key]
        out: List[object] = []
        if n == 1:
            out += LEAVES
        if lv >= 1:
            # arrays: sequences of children with total n-1 nodes
            for parts in seqs(n - 1, lv - 1):
                out.append(list(parts))
            # objects: 0, 1 or 2 members
            if n == 1:
                out.append({})
            for k in KEYS:
                for v in (docs(n - 1, lv - 1) if n >= 2 else []):
                    out.append({k: v})
            for n1 in range(1, n - 1):
                for v1 in docs(n1, lv - 1):
                    for v2 in docs(n - 1 - n1, lv - 1):
                        out.append({KEYS[0]: v1, KEYS[1]: v2})
        memo[key] = out
        return out

    smemo: Dict[Tuple[int, int], List[tuple]] = {}

    def seqs(n: int, lv: int) -> List[tuple]:
        """tuples of values with n nodes in total, each of nesting <= lv"""
        key = (n, lv)
        if key in smemo:
            return smemo[key]
        out: List[tuple] = []
        if n == 0:
            out.append(())
        for first in range(1, n + 1):
            for v in docs(first, lv):
                for rest in seqs(n - first, lv):
                    out.append((v,) + rest)
        smemo[key] = out
        return out

    res: List[object] = []
    for n in range(1, max_nodes + 1):
        res += docs(n, max_levels)
    return res


def count_nodes(v: object) -> int:
    if isinstance(v, list):
        return 1 + sum(count_nodes(x) for x in v)
    if isinstance(v, dict):
        return 1 + sum(count_nodes(x) for x in v.values())
    return 1


# ------------------------------------------------------------------ the oracle


def get_at(doc: object, loc: Loc) -> object:
    v = doc
    for k in loc:
        v = v[k]  # type: ignore[index]
    return v


def containers(doc: object, loc: Loc = ()) -> List[Loc]:
    """Locations of all containers among doc and its descendants (document order)."""
    out: List[Loc] = []
    if isinstance(doc, list):
        out.append(loc)
        for i, x in enumerate(doc):
            out += containers(x, loc + (i,))
    elif isinstance(doc, dict):
        out.append(loc)
        for k, x in doc.items():
            out += containers(x, loc + (k,))
    return out


def must_precede(doc: object, u: Loc, v: Loc) -> bool:
    """RFC 9535 2.5.2.2: in the visit order of a descendant segment a node comes before
    its descendants, and the elements of one array come in index order (so an array
    element comes before everything below a later element of the same array).  This is
    the transitive closure of those two rules."""
    if u == v:
        return False
    n = 0
    while n < len(u) and n < len(v) and u[n] == v[n]:
        n += 1
    if n == len(u):
        return True  # u is a proper ancestor of v
    if n == len(v):
        return False
    parent = get_at(doc, u[:n])
    return isinstance(parent, list) and len(u) == n + 1 and u[n] < v[n]  # type: ignore[operator]


def parse_query(query: str) -> Tuple[bool, List[str]]:
    assert query in QUERIES, query
    descendant = query.startswith("$..")
    sel = {"$..*": ["*"], "$..[*]": ["*"], "$..a": ["a"], "$..[0,1]": ["0", "1"], "$..[?@]": ["?@"], "$.*": ["*"], "$[?@]": ["?@"], "$[*]": ["*"]}[query]
    return descendant, sel


def rfc_select(sel: str, value: object, loc: Loc) -> Result:
    """Deterministic (document order) result of one selector on one node, from the RFC."""
    out: Result = []
    if sel in ("*", "?@"):  # ?@ : existence test of the current node - true for every child
        if isinstance(value, list):
            out += [(loc + (i,), x) for i, x in enumerate(value)]
        elif isinstance(value, dict):
            out += [(loc + (k,), x) for k, x in value.items()]
    elif sel == "a":
        if isinstance(value, dict) and "a" in value:
            out.append((loc + ("a",), value["a"]))
    else:
        i = int(sel)
        if isinstance(value, list) and i < len(value):
            out.append((loc + (i,), value[i]))
    return out


def rfc_deterministic(query: str, doc: object) -> Result:
    descendant, sels = parse_query(query)
    visit = containers(doc) if descendant else [()]
    out: Result = []
    for loc in visit:
        v = get_at(doc, loc)
        for s in sels:
            out += rfc_select(s, v, loc)
    return out


def _key(item: Tuple[Loc, object]) -> Tuple[Loc, str]:
    return (item[0], json.dumps(item[1], sort_keys=True))


def _blocks(result: Result) -> List[Tuple[Loc, Result]]:
    """Maximal runs of consecutive results with the same parent location."""
    out: List[Tuple[Loc, Result]] = []
    for item in result:
        parent = item[0][:-1]
        if out and out[-1][0] == parent:
            out[-1][1].append(item)
        else:
            out.append((parent, [item]))
    return out


def why_not_permitted(query: str, doc: object, result: Result, det: Optional[Result] = None) -> Optional[str]:
    """None if RFC 9535 permits _result_ for _query_ on _doc_, else the broken rule.

    _det_ is the deterministic result that fixes the node multiset (the property says
    "exactly the nodes of the deterministic result"); by default it is derived from the RFC.
    All eight queries are `$` + one segment, so every result node is a child of a visited
    node and has exactly one possible parent.
    """
    if det is None:
        det = rfc_deterministic(query, doc)
    descendant, sels = parse_query(query)
    # 1. same nodes (location + value), same multiplicities
    if sorted(map(_key, result)) != sorted(map(_key, det)):
        return "wrong-nodes"
    for loc, val in result:
        try:
            if json.dumps(get_at(doc, loc), sort_keys=True) != json.dumps(val, sort_keys=True):
                return "wrong-nodes"
        except (KeyError, IndexError, TypeError):
            return "wrong-nodes"
    # 2. the results for one visited node (all its selectors) are contiguous
    blocks = _blocks(result)
    parents = [p for p, _ in blocks]
    if len(set(parents)) != len(parents):
        return "selector-results-not-contiguous"
    if not descendant and any(p != () for p in parents):
        return "wrong-nodes"
    # 3. inside one block: selectors in the order written; an array's elements in index
    #    order (so for an array parent the block is exactly the deterministic block);
    #    an object's members in any order (a permutation of the deterministic block -
    #    every query here has at most one selector that applies to objects)
    det_blocks: Dict[Loc, Result] = {}
    for item in det:
        det_blocks.setdefault(item[0][:-1], []).append(item)
    for parent, items in blocks:
        pv = get_at(doc, parent)
        want = det_blocks[parent]
        if isinstance(pv, list):
            if [_key(i) for i in items] != [_key(i) for i in want]:
                return "array-order-broken"
        elif sorted(map(_key, items)) != sorted(map(_key, want)):
            return "selector-results-not-contiguous"
    # 4. the visit order implied by the blocks is one the RFC allows: some linear
    #    extension of must_precede contains the producing nodes in this relative order
    #    iff no later block's parent must precede an earlier block's parent.
    for i in range(len(parents)):
        for j in range(i + 1, len(parents)):
            if must_precede(doc, parents[j], parents[i]):
                u, v = parents[j], parents[i]
                if len(u) < len(v) and v[: len(u)] == u:
                    return "child-before-parent"
                return "array-order-broken"
    return None


def permitted(query: str, doc: object, result: Result, det: Optional[Result] = None) -> bool:
    return why_not_permitted(query, doc, result, det) is None


def permitted_orders(query: str, doc: object, det: Optional[Result] = None, cap: int = 200000) -> Optional[set]:
    """Brute force: the set of all permitted orderings (tuples of locations), or None
    if there are more than _cap_ candidate combinations."""
    if det is None:
        det = rfc_deterministic(query, doc)
    descendant, sels = parse_query(query)
    det_blocks: Dict[Loc, Result] = {}
    for item in det:
        det_blocks.setdefault(item[0][:-1], []).append(item)
    visit_nodes = containers(doc) if descendant else ([()] if isinstance(doc, (list, dict)) else [])
    # linear extensions of must_precede over the visited containers
    orders: List[List[Loc]] = []

    def extend(prefix: List[Loc], rest: List[Loc]) -> None:
        if len(orders) > cap:
            return
        if not rest:
            orders.append(list(prefix))
            return
        for i, x in enumerate(rest):
            if any(must_precede(doc, y, x) for y in rest if y is not x):
                continue
            prefix.append(x)
            extend(prefix, rest[:i] + rest[i + 1 :])
            prefix.pop()

    extend([], list(visit_nodes))
    if len(orders) > cap:
        return None
    out = set()
    for order in orders:
        choices: List[List[tuple]] = []
        for loc in order:
            blk = det_blocks.get(loc, [])
            if not blk:
                continue
            if isinstance(get_at(doc, loc), list):
                choices.append([tuple(i[0] for i in blk)])
            else:
                choices.append(list({tuple(i[0] for i in p) for p in itertools.permutations(blk)}))
        total = 1
        for c in choices:
            total *= len(c)
        if total * len(orders) > cap * 10:
            return None
        for combo in itertools.product(*choices):
            out.add(tuple(itertools.chain.from_iterable(combo)))
    return out


def _selftest() -> None:
    """The direct checker and the brute-force set must agree on every permutation of the
    deterministic result, and the checker must name the right rule on hand-made cases."""
    docs = enumerate_docs(4, 3) + [[[1, 1], [1]], {"a": [1, "x"], "b": {"a": 1}}, [[[1], [1]], [[1]]], {"a": [[], [1]], "b": [1]}]
    for doc in docs:
        for q in QUERIES:
            det = rfc_deterministic(q, doc)
            if len(det) > 6:
                continue
            allowed = permitted_orders(q, doc, det)
            assert allowed is not None
            assert tuple(l for l, _ in det) in allowed, (q, doc)
            for perm in set(itertools.permutations(range(len(det)))):
                res = [det[i] for i in perm]
                assert permitted(q, doc, res, det) == (tuple(l for l, _ in res) in allowed), (q, doc, res)
    d = {"a": [[1], [2]], "b": [[3], [4]]}
    loc = lambda *p: (tuple(p), get_at(d, tuple(p)))  # noqa: E731
    good = [loc("a"), loc("b"), loc("a", 0), loc("a", 1), loc("b", 0), loc("b", 1), loc("a", 0, 0), loc("b", 0, 0), loc("a", 1, 0), loc("b", 1, 0)]
    assert why_not_permitted("$..[*]", d, good) is None
    f12 = [loc("b"), loc("a"), loc("a", 0), loc("a", 1), loc("b", 0), loc("b", 1), loc("a", 0, 0), loc("b", 0, 0), loc("a", 1, 0), loc("b", 1, 0)]
    assert why_not_permitted("$..[*]", d, f12) is None
    bad = list(good)
    bad[2], bad[3] = bad[3], bad[2]
    assert why_not_permitted("$..[*]", d, bad) == "array-order-broken"
    bad = [good[6]] + good[:6] + good[7:]
    assert why_not_permitted("$..[*]", d, bad) == "child-before-parent"
    bad = good[:2] + [good[2], good[4], good[3], good[5]] + good[6:]
    assert why_not_permitted("$..[*]", d, bad) == "selector-results-not-contiguous"
    bad = good[:6] + [good[8], good[7], good[6], good[9]]
    assert why_not_permitted("$..[*]", d, bad) == "array-order-broken"  # a[1] visited before a[0]
    assert why_not_permitted("$..[*]", d, good[:-1]) == "wrong-nodes"
    assert why_not_permitted("$..[*]", d, good + [good[0]]) == "wrong-nodes"


# ------------------------------------------------------------------ the chooser


class TooWide(Exception):
    pass


class Chooser:
    """Replays a prefix of choice indices, then always takes outcome 0; records arities."""

    def __init__(self, prefix: List[int]) -> None:
        self.prefix = prefix
        self.trace: List[Tuple[int, int]] = []

    def pick(self, n: int) -> int:
        if n <= 1:
            return 0
        i = len(self.trace)
        c = self.prefix[i] if i < len(self.prefix) else 0
        self.trace.append((c, n))
        return c

    def shuffle(self, x: list) -> None:
        n = len(x)
        if n <= 1:
            return
        if n > MAX_SHUFFLE:
            raise TooWide("shuffle of %d items" % n)
        perms = list(itertools.permutations(range(n)))
        p = perms[self.pick(len(perms))]
        x[:] = [x[i] for i in p]

    def choice(self, seq):  # noqa: ANN001, ANN201
        return seq[self.pick(len(seq))]

    def sample(self, population, k, **kw):  # noqa: ANN001, ANN003, ANN201
        """As used by the evaluator: a full-length sample of a list holding q references
        to one iterator and g references to another - the distinct outcomes are the
        C(q+g, q) interleavings.  In general: the distinct length-k arrangements, where
        elements are told apart by identity."""
        pop = list(population)
        groups: Dict[int, int] = {}
        objs: Dict[int, object] = {}
        for o in pop:
            groups[id(o)] = groups.get(id(o), 0) + 1
            objs[id(o)] = o
        if len(pop) > 16:
            raise TooWide("sample of %d items" % len(pop))
        arrangements: List[Tuple[int, ...]] = []

        def rec(cur: List[int], left: Dict[int, int]) -> None:
            if len(cur) == k:
                arrangements.append(tuple(cur))
                return
            for ident in list(left):
                if left[ident] > 0:
                    left[ident] -= 1
                    cur.append(ident)
                    rec(cur, left)
                    cur.pop()
                    left[ident] += 1

        rec([], dict(groups))
        a = arrangements[self.pick(len(arrangements))]
        return [objs[i] for i in a]

    def next_prefix(self) -> Optional[List[int]]:
        t = list(self.trace)
        while t and t[-1][0] + 1 >= t[-1][1]:
            t.pop()
        if not t:
            return None
        return [c for c, _ in t[:-1]] + [t[-1][0] + 1]


class patched_random:  # noqa: N801
    def __init__(self, chooser: Chooser) -> None:
        self.chooser = chooser

    def __enter__(self) -> None:
        self.saved = (random.shuffle, random.choice, random.sample)
        random.shuffle = self.chooser.shuffle  # type: ignore[assignment]
        random.choice = self.chooser.choice  # type: ignore[assignment]
        random.sample = self.chooser.sample  # type: ignore[assignment]

    def __exit__(self, *exc: object) -> None:
        random.shuffle, random.choice, random.sample = self.saved  # type: ignore[assignment]


_ENV: dict = {}


def _envs():  # noqa: ANN202
    if not _ENV:
        from jsonpath_rfc9535 import JSONPathEnvironment

        class NDEnv(JSONPathEnvironment):
            nondeterministic = True

        _ENV["nd"] = NDEnv()
        _ENV["det"] = JSONPathEnvironment()
    return _ENV["nd"], _ENV["det"]


def explore(query: str, doc: object, max_leaves: int, first_prefix: Optional[List[int]] = None, stop_above: int = 0, compiled=None):  # noqa: ANN201, ANN001
    """Walk the whole choice tree (or the subtree below first_prefix[:stop_above]).
    Yields (prefix_trace, result-or-exception)."""
    nd, _ = _envs()
    if compiled is None:
        compiled = nd.compile(query)
    prefix: Optional[List[int]] = list(first_prefix or [])
    fixed = list(prefix[:stop_above]) if stop_above else []
    leaves = 0
    while prefix is not None:
        ch = Chooser(prefix)
        try:
            with patched_random(ch):
                nodes = compiled.find(doc)
            res: object = [(tuple(n.location), n.value) for n in nodes]
        except TooWide:
            raise
        except BaseException as e:  # noqa: BLE001
            res = e
        yield [c for c, _ in ch.trace], res
        leaves += 1
        if leaves >= max_leaves:
            yield None, None  # truncated
            return
        prefix = ch.next_prefix()
        if prefix is not None and fixed and prefix[: len(fixed)] != fixed:
            return


# ------------------------------------------------------------------ one case


def _short(x: object) -> str:
    return json.dumps(x, ensure_ascii=False, separators=(",", ":"))


def _visit_parents(order: tuple) -> List[Loc]:
    out: List[Loc] = []
    for loc in order:
        if not out or out[-1] != loc[:-1]:
            out.append(loc[:-1])
    return out


def exhaustiveness_cause(doc: object, missing: tuple, produced: set) -> str:
    """Cause of a permitted-but-never-produced ordering, as visible in the ordering."""
    parents = _visit_parents(missing)
    # children of one node (siblings) whose blocks are separated by the block of a node
    # that is not below the first sibling: the traversal keeps siblings together
    for i in range(len(parents)):
        for k in range(i + 2, len(parents)):
            if parents[i] and parents[k] and parents[i][:-1] == parents[k][:-1]:
                for j in range(i + 1, k):
                    pj = parents[j]
                    same_family = pj[:-1] == parents[i][:-1]
                    below_first = pj[: len(parents[i])] == parents[i]
                    if not same_family and not below_first:
                        return "siblings-visit-interleaved-with-other-subtree"
    # same visit order as some produced ordering, only member order inside a block differs
    for p in produced:
        if _visit_parents(p) == parents:
            return "member-order-within-object"
    return "visit-order-other"


def run_case(args):  # noqa: ANN001, ANN201
    query, doc, max_leaves, want_exhaustive = args
    nd, det_env = _envs()
    out = {"query": query, "doc": doc, "leaves": 0, "distinct": 0, "violations": [], "truncated": False, "choice_points": 0, "permitted": None, "oracle_mismatch": 0}
    try:
        det_nodes = det_env.find(query, doc)
        det: Result = [(tuple(n.location), n.value) for n in det_nodes]
    except BaseException as e:  # noqa: BLE001
        out["violations"].append({"kind": "c17-raises-" + type(e).__name__, "what": "deterministic find raised", "input": {"query": query, "document": doc, "mode": "deterministic"}, "expected": "a result", "observed": repr(e)[:200]})
        return out
    produced: Dict[tuple, List[int]] = {}
    allowed = permitted_orders(query, doc, det) if want_exhaustive else None
    seen_bad = set()
    try:
        for trace, res in explore(query, doc, max_leaves):
            if trace is None:
                out["truncated"] = True
                break
            out["leaves"] += 1
            out["choice_points"] = max(out["choice_points"], len(trace))
            if isinstance(res, BaseException):
                kind = "c17-raises-" + type(res).__name__
                if kind not in seen_bad:
                    seen_bad.add(kind)
                    out["violations"].append({"kind": kind, "what": "find raised on a choice path", "input": {"query": query, "document": doc, "choices": trace}, "expected": "a permitted ordering", "observed": repr(res)[:200]})
                continue
            key = tuple(loc for loc, _ in res)
            first = key not in produced
            produced.setdefault(key, trace)
            if not first:
                continue
            why = why_not_permitted(query, doc, res, det)
            if allowed is not None and ((why is None) != (key in allowed)):
                out["oracle_mismatch"] += 1
                out["violations"].append({"kind": "c17-oracle-self-check-failed", "what": "permitted() and permitted_orders() disagree", "input": {"query": query, "document": doc, "choices": trace}, "expected": why, "observed": [list(k) for k in key]})
            if why is not None:
                kind = "c17-" + why
                out["violations"].append({"kind": kind, "what": "ordering not permitted by RFC 9535: " + why, "input": {"query": query, "document": doc, "choices": trace}, "expected": {"deterministic": [list(l) for l, _ in det]}, "observed": [list(k) for k in key]})
    except TooWide as e:
        out["truncated"] = True
        out["too_wide"] = str(e)
    out["distinct"] = len(produced)
    if allowed is not None:
        out["permitted"] = len(allowed)
        if not out["truncated"]:
            missing = sorted(allowed - set(produced), key=lambda t: json.dumps([list(x) for x in t]))
            by_cause: Dict[str, List[tuple]] = {}
            for m in missing:
                by_cause.setdefault(exhaustiveness_cause(doc, m, set(produced)), []).append(m)
            for cause, ms in by_cause.items():
                out["violations"].append({
                    "kind": "c17-not-exhaustive-" + cause,
                    "what": "%d of %d permitted orderings are produced by no outcome of the random choices (%d leaves explored)" % (len(missing), len(allowed), out["leaves"]),
                    "input": {"query": query, "document": doc},
                    "expected": {"a permitted ordering never produced": [list(x) for x in ms[0]], "missing_with_this_cause": len(ms)},
                    "observed": {"distinct orderings produced": len(produced)},
                })
    return out


def run_batch(batch):  # noqa: ANN001, ANN201
    return [run_case(c) for c in batch]


# targeted larger documents (outside the exhaustive node bound) for exhaustiveness
EXTRA_DOCS = [
    [[[1], [1]], [[1]]],
    {"a": [[1], [1]], "b": [[1]]},
    {"a": [[1], [2]], "b": [[3], [4]]},  # the witness of DESIGN.md F12
    [[{"a": 1}, {"a": 1}], [{"a": 1}]],
    {"a": {"a": [1], "b": [1]}, "b": {"a": [1]}},
]


def _vsize(v: dict) -> Tuple[int, str]:
    s = _short(v["input"].get("document"))
    return (len(s) + len(v["input"].get("choices", [])), s)


def late_switch_cases(max_leaves: int = 20000):  # noqa: ANN201
    """The flag belongs to the environment, not to the moment of compilation: a query compiled while the flag was
    off and evaluated after it was switched on must produce the same set of orderings as one compiled afterwards."""
    from jsonpath_rfc9535 import JSONPathEnvironment

    out = []
    n = 0
    docs = [[[1], [2]], {"a": [1], "b": [2]}, [[[1]], [[2]]], {"a": {"b": 1}, "c": {"d": 2}}]
    for query in ("$..[*]", "$..*", "$.*", "$[?@]"):
        for doc in docs:
            env = JSONPathEnvironment()
            compiled = env.compile(query)
            env.nondeterministic = True
            late, early = set(), set()
            try:
                for trace, res in explore(query, doc, max_leaves, compiled=compiled):
                    if trace is None or isinstance(res, BaseException):
                        continue
                    late.add(tuple(loc for loc, _ in res))
                    n += 1
                for trace, res in explore(query, doc, max_leaves):
                    if trace is None or isinstance(res, BaseException):
                        continue
                    early.add(tuple(loc for loc, _ in res))
                    n += 1
            except TooWide:
                continue
            if late != early:
                out.append({"kind": "c17-mode-fixed-at-compile-time", "what": "a query compiled before the flag was switched on does not produce the orderings of the nondeterministic mode",
                            "input": {"query": query, "document": doc}, "expected": sorted(map(str, early))[:6], "observed": sorted(map(str, late))[:6]})
    return n, out


def run(tier: str, seed: int) -> dict:
    t0 = time.time()
    _selftest()
    quick = tier == "quick"
    K = 5 if quick else 7
    levels = 3
    budget = 50.0 if quick else 14 * 60.0
    docs = enumerate_docs(K, levels)
    max_leaves = 20000 if quick else 400000
    jobs = [(q, d, max_leaves, True) for d in docs for q in QUERIES]
    extras = EXTRA_DOCS
    extra_jobs = [(q, d, 400000 if quick else 3000000, True) for d in extras for q in QUERIES]
    # quick: big ones first (load balance); thorough: small ones first, so that a run cut
    # short by the time budget has completed the smaller node counts
    if quick:
        all_jobs = extra_jobs + sorted(jobs, key=lambda j: -count_nodes(j[1]))
    else:
        all_jobs = extra_jobs + jobs
    ctx = mp.get_context("fork")
    results = []
    timed_out = False
    bsize = 1 if len(all_jobs) < 2000 else (8 if quick else 64)
    batches = [all_jobs[: len(extra_jobs)][i : i + 1] for i in range(len(extra_jobs))]
    rest = all_jobs[len(extra_jobs) :]
    batches += [rest[i : i + bsize] for i in range(0, len(rest), bsize)]
    with ctx.Pool(16) as pool:
        it = pool.imap_unordered(run_batch, batches, chunksize=1)
        while True:
            try:
                remaining = t0 + budget - time.time()
                if remaining <= 0:
                    raise mp.TimeoutError
                results += it.next(timeout=remaining)
            except StopIteration:
                break
            except mp.TimeoutError:
                timed_out = True
                pool.terminate()
                break
    # deterministic order of aggregation
    results.sort(key=lambda r: (_short(r["doc"]), r["query"]))
    evaluations = sum(r["leaves"] for r in results)
    n_late, v_late = late_switch_cases()
    evaluations += n_late
    nontrivial = sum(1 for r in results if r["leaves"] > 1)
    truncated = [r for r in results if r["truncated"]]
    viol: List[dict] = list(v_late)
    for r in results:
        viol += r["violations"]
    by_kind: Dict[str, List[dict]] = {}
    for v in viol:
        by_kind.setdefault(v["kind"], []).append(v)
    out_viol: List[dict] = []
    for k in sorted(by_kind):
        out_viol += sorted(by_kind[k], key=_vsize)[:40]
    rng = random.Random(seed)
    interesting = [r for r in results if r["leaves"] > 1]
    samples = [
        {"query": r["query"], "document": r["doc"], "leaves": r["leaves"], "distinct_orderings_produced": r["distinct"], "permitted_orderings": r["permitted"], "max_choice_points": r["choice_points"]}
        for r in rng.sample(interesting, min(8, len(interesting)))
    ]
    return {
        "evaluations": evaluations,
        "distinct_nontrivial": nontrivial,
        "rule": (
            "every (query, document) pair: 8 single-segment queries x all JSON values with <= K nodes (every value is a node), container "
            "nesting <= 3, leaves {1,'x'}, keys {'a','b'} in that insertion order, plus the listed extra documents; for each pair the "
            "complete tree of outcomes of random.shuffle (all n! permutations, n <= %d), random.choice (every element) and random.sample "
            "(every distinct arrangement of the iterator references = every order-respecting interleaving) is walked depth-first by "
            "prefix replay; one evaluation = one leaf (one complete find()). A pair is non-trivial when its tree has more than one leaf."
            % MAX_SHUFFLE
        ),
        "samples": samples,
        "bounds": {
            "max_nodes": K,
            "max_nesting": levels,
            "documents": len(docs),
            "queries": QUERIES,
            "extra_documents": extras,
            "pairs": len(all_jobs),
            "pairs_done": len(results),
            "max_leaves_per_pair": max_leaves,
            "max_shuffle_width": MAX_SHUFFLE,
            "truncated_pairs": [{"query": r["query"], "document": r["doc"]} for r in truncated][:20],
            "largest_tree_leaves": max((r["leaves"] for r in results), default=0),
            "wall_seconds": round(time.time() - t0, 1),
        },
        "exhaustive": (not timed_out) and not truncated and len(results) == len(all_jobs),
        "unjudged": 0,
        "violations": out_viol,
    }


def main() -> None:
    import argparse

    ap = argparse.ArgumentParser()
    ap.add_argument("--tier", default="quick", choices=["quick", "thorough"])
    ap.add_argument("--seed", type=int, default=0)
    a = ap.parse_args()
    json.dump(run(a.tier, a.seed), sys.stdout, indent=1, ensure_ascii=False, default=repr)
    sys.stdout.write("\n")


if __name__ == "__main__":
    main()
