#!/usr/bin/env python3-vt
"""Static frame / effect checker (DESIGN.md section 2.8, rules W1-W5) for jsonpath_rfc9535.

Only PARSES the package source with `ast` (never imports it).  `check(repo, overrides)` analyses
the tree as it is on disk at the time of the call; `overrides` maps a relative path (or a pyvc-style
module name) to replacement source text, applied in memory only.

What is implemented (see also the `notes` of the result):
  * call graph closed from the entry points with by-name resolution of attribute accesses over all
    classes, functions referenced as values, nested functions, module-level code, all dunder methods;
  * a FLOW-SENSITIVE must-fresh analysis per function (structured control flow, loop fixpoints,
    conservative try handling) with a strict escape rule (a fresh local stops being fresh as soon as
    it is used as a bare name anywhere but as receiver / subscript base / operand of a comparison or
    arithmetic / argument of a non-capturing builtin);
  * ownership rules for the per-compile classes Lexer / TokenStream (construction sites, leaks);
  * W3 syntactic rules, W4 module-level and class-level reads, W5 immutability labelling.
"""
from __future__ import annotations

import ast
import builtins
import hashlib
import json
import sys
import time
from pathlib import Path

PKG = "jsonpath_rfc9535"
EXCLUDE_DIRS = {"utils"}

ENTRY_POINTS = [
    "environment:JSONPathEnvironment.__init__", "environment:JSONPathEnvironment.compile",
    "environment:JSONPathEnvironment.find", "environment:JSONPathEnvironment.finditer",
    "environment:JSONPathEnvironment.find_one", "environment:JSONPathEnvironment.setup_function_extensions",
    "environment:JSONPathEnvironment.validate_function_extension_signature",
    "environment:JSONPathEnvironment.check_well_typedness",
    "query:JSONPathQuery.find", "query:JSONPathQuery.finditer", "query:JSONPathQuery.find_one",
    "query:JSONPathQuery.singular_query", "query:JSONPathQuery.empty", "query:JSONPathQuery.__str__",
]
ENTRY_ALIASES = ["query:JSONPathQuery.apply"]          # class-body alias of find (checked)
MODULE_LEVEL_ENTRY = ["compile", "find", "finditer", "find_one"]   # aliases of DEFAULT_ENV methods
AUX_ENTRY_POINTS = ["cli:main"]                        # so that the declared externals of cli.py are listed

PER_COMPILE = {("lex", "Lexer"), ("tokens", "TokenStream")}
ALLOWED_CONSTRUCTION = {
    ("lex", "Lexer"): {"lex:lex", "lex:tokenize"},
    ("tokens", "TokenStream"): {"environment:JSONPathEnvironment.compile"},
}
IMMUTABLE_ROOTS = [
    ("query", "JSONPathQuery"), ("segments", "JSONPathSegment"), ("selectors", "JSONPathSelector"),
    ("filter_expressions", "Expression"), ("tokens", "Token"), ("node", "JSONPathNode"),
    ("filter_expressions", "FilterContext"), ("function_extensions.filter_function", "FilterFunction"),
    ("environment", "JSONPathEnvironment"),
]
ENV_CLASS = ("environment", "JSONPathEnvironment")

MUTATORS = {
    "append", "extend", "pop", "popleft", "insert", "remove", "sort", "reverse", "clear", "update",
    "setdefault", "add", "discard", "push", "appendleft",
    # not in the DESIGN list but the same kind of thing
    "extendleft", "popitem", "rotate", "move_to_end", "difference_update", "intersection_update",
    "symmetric_difference_update", "__setitem__", "__delitem__", "__setattr__", "__delattr__", "__iadd__",
}
ALLOWED_DECORATORS = {"abstractmethod", "property", "staticmethod", "classmethod"}
# builtins that return a new object / an immutable value and do not keep a reference to their
# arguments anywhere that outlives the call
FRESH_BUILTINS = {"list", "dict", "set", "frozenset", "tuple", "sorted", "bytearray", "str", "int", "float",
                  "bool", "bytes", "repr", "len", "range", "enumerate", "zip", "iter", "reversed", "abs", "ord",
                  "chr", "hash", "id", "min", "max", "sum", "any", "all", "isinstance", "issubclass", "round",
                  "divmod", "slice", "format", "ascii", "hex", "oct", "bin", "callable", "map", "filter"}
NONCAPTURING_BUILTINS = FRESH_BUILTINS | {"next", "print", "type", "getattr", "hasattr"}
FRESH_EXTERNAL_CTORS = {("collections", "deque"), ("collections", "defaultdict"), ("collections", "OrderedDict"),
                        ("collections", "Counter"), ("copy", "copy"), ("copy", "deepcopy")}
REFLECTIVE_BUILTINS = {"globals", "vars", "locals", "exec", "eval", "__import__"}
IMMUTABLE_ANNOTATIONS = {"int", "str", "float", "bool", "bytes", "complex"}
DECLARED_EXTERNAL_MODULES = {"random": "random", "re": "regex", "regex": "regex", "json": "json", "sys": "sys", "iregexp_check": "iregexp_check"}
BENIGN_STDLIB = {"abc", "typing", "enum", "collections", "contextlib", "argparse", "collections.abc", "__future__",
                 "heapq", "copy", "functools", "itertools", "operator"}
TYPING_NAMES = {"Union", "Optional", "List", "Dict", "Tuple", "Callable", "Type", "Iterable", "Iterator",
                "Sequence", "Any", "Generic", "Pattern", "Deque", "Set", "FrozenSet", "Mapping"}
RULES = ("W1", "W2", "W3", "W4", "W5")
BUILTIN_NAMES = set(dir(builtins))


# ----------------------------------------------------------------------------------------------
# model of the package
# ----------------------------------------------------------------------------------------------
class Binding:
    def __init__(self, kind, node, **kw):
        self.kind = kind          # import-module | import-from | def | class | assign | other
        self.node = node
        self.__dict__.update(kw)


class FuncInfo:
    def __init__(self, mod, qualname, node, cls, parent):
        self.mod, self.qualname, self.node, self.cls, self.parent = mod, qualname, node, cls, parent
        self.key = f"{mod.name}:{qualname}"
        self.name = node.name
        a = node.args
        self.params = [x for x in a.posonlyargs + a.args] + ([a.vararg] if a.vararg else []) + \
            list(a.kwonlyargs) + ([a.kwarg] if a.kwarg else [])
        decos = {deco_name(d) for d in node.decorator_list}
        self.is_static = "staticmethod" in decos
        self.is_classmethod = "classmethod" in decos
        self.is_method = cls is not None and parent is None
        self.self_name = None
        self.cls_name = None
        if self.is_method and not self.is_static and (a.posonlyargs + a.args):
            first = (a.posonlyargs + a.args)[0].arg
            if self.is_classmethod:
                self.cls_name = first
            else:
                self.self_name = first
        self.locals = compute_locals(node)
        self.global_decls = {n for s in walk_own(node) if isinstance(s, ast.Global) for n in s.names}
        self.nonlocal_decls = {n for s in walk_own(node) if isinstance(s, ast.Nonlocal) for n in s.names}
        self.locals -= self.global_decls | self.nonlocal_decls

    def sha(self):
        return hashlib.sha256(ast.dump(self.node, include_attributes=False).encode()).hexdigest()


class ClassInfo:
    def __init__(self, mod, qualname, node, outer):
        self.mod, self.qualname, self.node, self.outer = mod, qualname, node, outer
        self.name = node.name
        self.methods = {}
        self.class_attrs = {}     # name -> list of value nodes
        self.bases = []           # resolved ClassInfo
        self.base_names = []
        self.subclasses = []
        self.owned = False
        self.immutable = False
        self.is_env = False

    def ancestors(self):
        out, todo = [], [self]
        while todo:
            c = todo.pop(0)
            if c in out:
                continue
            out.append(c)
            todo.extend(c.bases)
        return out

    def descendants(self):
        out, todo = [], [self]
        while todo:
            c = todo.pop(0)
            if c in out:
                continue
            out.append(c)
            todo.extend(c.subclasses)
        return out

    def family(self):
        fam = []
        for c in self.ancestors() + self.descendants():
            if c not in fam:
                fam.append(c)
        return fam


class ModInfo:
    def __init__(self, name, dotted, relpath, text, is_pkg):
        self.name, self.dotted, self.relpath, self.text, self.is_pkg = name, dotted, relpath, text, is_pkg
        self.tree = ast.parse(text)
        self.bindings = {}        # name -> [Binding]
        self.functions = {}       # qualname -> FuncInfo
        self.classes = {}         # qualname -> ClassInfo


def deco_name(d):
    if isinstance(d, ast.Call):
        d = d.func
    if isinstance(d, ast.Name):
        return d.id
    if isinstance(d, ast.Attribute):
        return d.attr
    return "?"


def walk_own(fn):
    """All nodes of a function body, not descending into nested defs / classes / lambdas
    (a nested def / class statement itself is yielded, since it binds a name)."""
    todo = list(fn.body)
    while todo:
        n = todo.pop()
        if isinstance(n, ast.Lambda):
            continue
        yield n
        if isinstance(n, (ast.FunctionDef, ast.AsyncFunctionDef, ast.ClassDef)):
            continue
        todo.extend(ast.iter_child_nodes(n))


def compute_locals(fn):
    names = set()
    a = fn.args
    for x in a.posonlyargs + a.args + a.kwonlyargs:
        names.add(x.arg)
    if a.vararg:
        names.add(a.vararg.arg)
    if a.kwarg:
        names.add(a.kwarg.arg)
    comp_targets = set()
    for n in walk_own(fn):
        if isinstance(n, (ast.ListComp, ast.SetComp, ast.DictComp, ast.GeneratorExp)):
            for g in n.generators:
                for t in ast.walk(g.target):
                    if isinstance(t, ast.Name):
                        comp_targets.add(id(t))
    for n in walk_own(fn):
        if isinstance(n, ast.Name) and isinstance(n.ctx, (ast.Store, ast.Del)) and id(n) not in comp_targets:
            names.add(n.id)
        elif isinstance(n, (ast.FunctionDef, ast.AsyncFunctionDef, ast.ClassDef)):
            names.add(n.name)
        elif isinstance(n, (ast.Import, ast.ImportFrom)):
            for al in n.names:
                names.add((al.asname or al.name).split(".")[0])
        elif isinstance(n, ast.ExceptHandler) and n.name:
            names.add(n.name)
        elif hasattr(ast, "MatchAs") and isinstance(n, (ast.MatchAs, ast.MatchStar)) and n.name:
            names.add(n.name)
    return names


class Package:
    def __init__(self, repo="/repo", overrides=None):
        self.repo = Path(repo)
        self.root = self.repo / PKG
        self.mods = {}            # dotted ('' for the root package) -> ModInfo
        self.by_name = {}         # display name -> ModInfo
        self.notes = []
        texts = {}
        for p in sorted(self.root.rglob("*.py")):
            rel = p.relative_to(self.root)
            if any(part in EXCLUDE_DIRS for part in rel.parts[:-1]):
                continue
            texts[rel.as_posix()] = p.read_text(encoding="utf-8")
        for k, v in (overrides or {}).items():
            kk = k
            if kk.startswith(PKG + "/"):
                kk = kk[len(PKG) + 1:]
            if not kk.endswith(".py"):
                cand = kk.replace(".", "/") + ".py"
                cand2 = kk.replace(".", "/") + "/__init__.py"
                kk = cand2 if cand2 in texts and cand not in texts else cand
            texts[kk] = v
        for rel, text in sorted(texts.items()):
            parts = rel[:-3].split("/")
            is_pkg = parts[-1] == "__init__"
            if is_pkg:
                parts = parts[:-1]
            dotted = ".".join(parts)
            name = dotted or "__init__"
            m = ModInfo(name, dotted, f"{PKG}/{rel}", text, is_pkg)
            self.mods[dotted] = m
            self.by_name[name] = m
        for m in self.mods.values():
            self._scan_module(m)
        self._link_classes()

    # -- scanning ------------------------------------------------------------------------------
    def _abs_module(self, m, level, module):
        """Dotted name (relative to the package root) an import refers to, or ('ext', name)."""
        if level == 0:
            if module == PKG:
                return ""
            if module and module.startswith(PKG + "."):
                return module[len(PKG) + 1:]
            return ("ext", module)
        base = m.dotted.split(".") if m.dotted else []
        if not m.is_pkg:
            base = base[:-1]
        for _ in range(level - 1):
            base = base[:-1]
        return ".".join(base + (module.split(".") if module else []))

    def _bind(self, m, name, b):
        m.bindings.setdefault(name, []).append(b)

    def _scan_module(self, m):
        def stmts(body):
            for s in body:
                yield s
                for fld in ("body", "orelse", "finalbody", "handlers"):
                    sub = getattr(s, fld, None)
                    if sub and not isinstance(s, (ast.FunctionDef, ast.AsyncFunctionDef, ast.ClassDef)):
                        for h in sub:
                            if isinstance(h, ast.ExceptHandler):
                                yield from stmts(h.body)
                            elif isinstance(h, ast.stmt):
                                yield from stmts([h])
        for s in stmts(m.tree.body):
            if isinstance(s, ast.Import):
                for al in s.names:
                    tgt = self._abs_module(m, 0, al.name)
                    nm = al.asname or al.name.split(".")[0]
                    self._bind(m, nm, Binding("import-module", s, target=tgt if al.asname else self._abs_module(m, 0, al.name.split(".")[0])))
            elif isinstance(s, ast.ImportFrom):
                src = self._abs_module(m, s.level, s.module)
                for al in s.names:
                    self._bind(m, al.asname or al.name, Binding("import-from", s, src=src, srcname=al.name))
            elif isinstance(s, (ast.FunctionDef, ast.AsyncFunctionDef)):
                self._bind(m, s.name, Binding("def", s))
                self._scan_function(m, s, s.name, None, None)
            elif isinstance(s, ast.ClassDef):
                self._bind(m, s.name, Binding("class", s))
                self._scan_class(m, s, s.name, None)
            elif isinstance(s, ast.Assign):
                for t in s.targets:
                    for nm in ast.walk(t):
                        if isinstance(nm, ast.Name):
                            self._bind(m, nm.id, Binding("assign" if isinstance(t, ast.Name) else "other", s, value=s.value))
            elif isinstance(s, ast.AnnAssign):
                if isinstance(s.target, ast.Name) and s.value is not None:
                    self._bind(m, s.target.id, Binding("assign", s, value=s.value))
            elif isinstance(s, ast.AugAssign):
                if isinstance(s.target, ast.Name):
                    self._bind(m, s.target.id, Binding("other", s))
            elif isinstance(s, (ast.For, ast.AsyncFor)):
                for nm in ast.walk(s.target):
                    if isinstance(nm, ast.Name):
                        self._bind(m, nm.id, Binding("other", s))
            elif isinstance(s, (ast.With, ast.AsyncWith)):
                for it in s.items:
                    if it.optional_vars is not None:
                        for nm in ast.walk(it.optional_vars):
                            if isinstance(nm, ast.Name):
                                self._bind(m, nm.id, Binding("other", s))

    def _scan_function(self, m, node, qual, cls, parent):
        fi = FuncInfo(m, qual, node, cls, parent)
        m.functions[qual] = fi
        if cls is not None and parent is None:
            cls.methods[node.name] = fi
        for n in walk_own(node):
            if isinstance(n, (ast.FunctionDef, ast.AsyncFunctionDef)):
                self._scan_function(m, n, f"{qual}.<locals>.{n.name}", cls, fi)
            elif isinstance(n, ast.ClassDef):
                self._scan_class(m, n, f"{qual}.<locals>.{n.name}", None)
        return fi

    def _scan_class(self, m, node, qual, outer):
        ci = ClassInfo(m, qual, node, outer)
        m.classes[qual] = ci
        for b in node.bases:
            ci.base_names.append(b)
        for s in node.body:
            if isinstance(s, (ast.FunctionDef, ast.AsyncFunctionDef)):
                self._scan_function(m, s, f"{qual}.{s.name}", ci, None)
            elif isinstance(s, ast.ClassDef):
                self._scan_class(m, s, f"{qual}.{s.name}", ci)
            elif isinstance(s, ast.Assign):
                for t in s.targets:
                    if isinstance(t, ast.Name):
                        ci.class_attrs.setdefault(t.id, []).append(s.value)
            elif isinstance(s, ast.AnnAssign) and isinstance(s.target, ast.Name) and s.value is not None:
                ci.class_attrs.setdefault(s.target.id, []).append(s.value)

    def _link_classes(self):
        for m in self.mods.values():
            for ci in m.classes.values():
                for b in ci.base_names:
                    if isinstance(b, ast.Subscript):      # Generic[...] style base
                        b = b.value
                    r = self.resolve_expr(m, b)
                    if r and r[0] == "class":
                        ci.bases.append(r[1])
                        r[1].subclasses.append(ci)
        for modname, cname in PER_COMPILE:
            m = self.by_name.get(modname)
            ci = m.classes.get(cname) if m else None
            if ci is None:
                self.notes.append(f"per-compile class {modname}:{cname} not found")
                continue
            for c in ci.descendants():
                c.owned = True
                c.owned_root = (modname, cname)
        for m in self.mods.values():
            for ci in m.classes.values():
                if ci.outer is not None and getattr(ci.outer, "owned", False):
                    ci.owned = True
                    ci.owned_root = None       # nested helper of a per-compile class
        for modname, cname in IMMUTABLE_ROOTS:
            m = self.by_name.get(modname)
            ci = m.classes.get(cname) if m else None
            if ci is None:
                self.notes.append(f"immutable class {modname}:{cname} not found")
                continue
            for c in ci.descendants():
                c.immutable = True
                if (modname, cname) == ENV_CLASS:
                    c.is_env = True

    # -- name resolution -----------------------------------------------------------------------
    def resolve_global(self, m, name, depth=0):
        """-> ('func', FuncInfo) | ('class', ClassInfo) | ('module', dotted) | ('extmodule', name)
              | ('ext', module, name) | ('var', ModInfo, name) | ('builtin', name) | None"""
        if depth > 12:
            return None
        bs = m.bindings.get(name)
        if not bs:
            if name in BUILTIN_NAMES:
                return ("builtin", name)
            return None
        b = bs[-1]
        if len(bs) > 1 and not all(x.kind in ("import-from", "import-module") for x in bs):
            return ("var", m, name)
        if b.kind == "def":
            return ("func", m.functions[name])
        if b.kind == "class":
            return ("class", m.classes[name])
        if b.kind == "import-module":
            if isinstance(b.target, tuple):
                return ("extmodule", b.target[1])
            return ("module", b.target)
        if b.kind == "import-from":
            if isinstance(b.src, tuple):
                return ("ext", b.src[1], b.srcname)
            sub = (b.src + "." if b.src else "") + b.srcname
            src = self.mods.get(b.src)
            if src is not None and b.srcname in src.bindings:
                return self.resolve_global(src, b.srcname, depth + 1)
            if sub in self.mods:
                return ("module", sub)
            return None
        return ("var", m, name)

    def resolve_expr(self, m, e, fi=None):
        """Resolve a Name / dotted Attribute used in module `m` (inside function `fi`) statically."""
        if isinstance(e, ast.Name):
            f = fi
            while f is not None:
                if e.id in f.locals:
                    # a nested def is a local function
                    q = f"{f.qualname}.<locals>.{e.id}"
                    if q in m.functions:
                        return ("func", m.functions[q])
                    return ("local", e.id)
                f = f.parent
            return self.resolve_global(m, e.id)
        if isinstance(e, ast.Attribute):
            base = self.resolve_expr(m, e.value, fi)
            if not base:
                return None
            if base[0] == "module":
                sub = (base[1] + "." if base[1] else "") + e.attr
                tm = self.mods.get(base[1])
                if tm is not None and e.attr in tm.bindings:
                    return self.resolve_global(tm, e.attr)
                if sub in self.mods:
                    return ("module", sub)
                return None
            if base[0] == "extmodule":
                return ("ext", base[1], e.attr)
            if base[0] == "ext":
                return ("ext", base[1] + "." + base[2], e.attr)
            if base[0] == "class":
                return ("classattr", base[1], e.attr)
        return None

    def all_functions(self):
        for m in self.mods.values():
            yield from m.functions.values()

    def all_classes(self):
        for m in self.mods.values():
            yield from m.classes.values()


# ----------------------------------------------------------------------------------------------
# per-function effect analysis
# ----------------------------------------------------------------------------------------------
def root_and_path(e):
    """Peel attributes / subscripts / calls-of-methods: -> (root expr, [attr names on the way])."""
    path = []
    while True:
        if isinstance(e, ast.Attribute):
            path.append(e.attr)
            e = e.value
        elif isinstance(e, ast.Subscript):
            path.append("[]")
            e = e.value
        elif isinstance(e, ast.Starred):
            e = e.value
        else:
            break
    path.reverse()
    return e, path


def src(node):
    try:
        return ast.unparse(node)
    except Exception:  # pragma: no cover
        return type(node).__name__


def ann_names(ann):
    """Bare class names mentioned by an annotation (through Optional[...], strings, unions)."""
    out = set()
    if ann is None:
        return out
    for n in ast.walk(ann):
        if isinstance(n, ast.Name):
            out.add(n.id)
        elif isinstance(n, ast.Attribute):
            out.add(n.attr)
        elif isinstance(n, ast.Constant) and isinstance(n.value, str):
            try:
                out |= ann_names(ast.parse(n.value, mode="eval").body)
            except SyntaxError:
                pass
    return out


class Site:
    def __init__(self, kind, node, text, verdict, why):
        self.kind, self.node, self.text, self.verdict, self.why = kind, node, text, verdict, why


class Effects:
    """Flow-sensitive must-fresh analysis of one function (or, collect-only, of a module / class body)."""

    def __init__(self, pkg, mod, fi, body=None):
        self.pkg, self.mod, self.fi = pkg, mod, fi
        self.body = fi.node.body if fi is not None else body
        self.findings = {}        # (rule, line, col, text) -> dict
        self.sites = []
        self.externals = {}
        self.notes = []
        self.global_mut = {}      # (modname, name) -> description of first mutation site
        self.classattr_mut = {}   # attr name -> description
        self.loop_stack = []
        self.exc_vars = set()
        self.owned_params = {}    # name -> ClassInfo
        self.owned_locals = set()
        self.immut_params = set()
        self.param_ann = {}
        self.captured = set()
        if fi is not None:
            self._prepare()

    # -- preparation ---------------------------------------------------------------------------
    def _prepare(self):
        fi = self.fi
        for p in fi.params:
            names = ann_names(p.annotation)
            self.param_ann[p.arg] = names
            for nm in names:
                r = self.pkg.resolve_global(self.mod, nm)
                ci = r[1] if r and r[0] == "class" else None
                if ci is None:      # annotation only importable for type checking, or a forward name
                    for c in self.pkg.all_classes():
                        if c.name == nm and c.owned:
                            ci = c
                if ci is not None and ci.owned:
                    self.owned_params[p.arg] = ci
            if p.annotation is not None and isinstance(p.annotation, ast.Name) and p.annotation.id in IMMUTABLE_ANNOTATIONS:
                self.immut_params.add(p.arg)
        handler_names = {}
        stores = {}
        for n in walk_own(fi.node):
            if isinstance(n, ast.ExceptHandler) and n.name:
                handler_names[n.name] = handler_names.get(n.name, 0) + 1
            elif isinstance(n, ast.Name) and isinstance(n.ctx, ast.Store):
                stores[n.id] = stores.get(n.id, 0) + 1
        param_names = {p.arg for p in fi.params}
        self.exc_vars = {n for n in handler_names if n not in stores and n not in param_names}
        # names captured by nested defs / lambdas are never treated as fresh
        for n in ast.walk(fi.node):
            if n is fi.node:
                continue
            if isinstance(n, (ast.FunctionDef, ast.AsyncFunctionDef, ast.Lambda)):
                for x in ast.walk(n):
                    if isinstance(x, ast.Name):
                        self.captured.add(x.id)
        # locals that hold a reference to a per-compile object
        for n in walk_own(fi.node):
            if isinstance(n, ast.Assign) and isinstance(n.value, ast.Call):
                if self._owned_producing_call(n.value):
                    for t in n.targets:
                        for x in ast.walk(t):
                            if isinstance(x, ast.Name):
                                self.owned_locals.add(x.id)

    def _owned_producing_call(self, call):
        r = self.pkg.resolve_expr(self.mod, call.func, self.fi)
        if r and r[0] == "class" and r[1].owned:
            return True
        if r and r[0] == "func":
            rn = ann_names(r[1].node.returns)
            return any(c.owned and c.name in rn for c in self.pkg.all_classes())
        if isinstance(call.func, ast.Attribute):
            for c in self.pkg.all_classes():
                if c.owned and c.name == call.func.attr:
                    return True
        return False

    # -- reporting -----------------------------------------------------------------------------
    def finding(self, rule, node, text):
        key = (rule, getattr(node, "lineno", 0), getattr(node, "col_offset", 0), text)
        if key not in self.findings:
            self.findings[key] = {"rule": rule, "line": getattr(node, "lineno", 0), "text": text}

    def external(self, node, module, name):
        top = module.split(".")[0]
        cat = DECLARED_EXTERNAL_MODULES.get(top)
        declared = cat is not None
        if not declared:
            cat = "stdlib" if (top in BENIGN_STDLIB or module in BENIGN_STDLIB) else "third-party"
        key = (module, name)
        if key not in self.externals:
            self.externals[key] = {"call": f"{module}.{name}", "category": cat, "declared": declared,
                                   "line": getattr(node, "lineno", 0)}

    # -- roles ---------------------------------------------------------------------------------
    def role(self, name):
        """Role of a bare name: self | cls | owned | exc | local | global | class | module | func | builtin | unknown."""
        f = self.fi
        first = True
        while f is not None:
            if name in f.locals:
                if name == f.self_name:
                    return ("self", f)
                if name == f.cls_name:
                    return ("cls", f)
                if first:
                    if name in self.owned_params:
                        return ("owned", self.owned_params[name])
                    if name in self.exc_vars:
                        return ("exc", None)
                else:
                    for p in f.params:
                        if p.arg == name:
                            for nm in ann_names(p.annotation):
                                for c in self.pkg.all_classes():
                                    if c.owned and c.name == nm:
                                        return ("owned", c)
                return ("local", None)
            first = False
            f = f.parent
        if self.fi is not None and name in self.fi.global_decls:
            return ("global", (self.mod.name, name))
        r = self.pkg.resolve_global(self.mod, name)
        if r is None:
            return ("unknown", None)
        if r[0] == "var":
            return ("global", (r[1].name, r[2]))
        if r[0] in ("module", "extmodule"):
            return ("module", r[1])
        return (r[0], r[1])

    def self_class(self, f):
        return f.cls

    def init_like(self, f):
        if f is None or not f.is_method:
            return False
        if f.name == "__init__":
            return True
        return f.name == "setup_function_extensions" and f.cls is not None and f.cls.is_env

    def fresh_fields(self, ci, init_only):
        """Fields `f` such that every `self.f = e` in the class family has a syntactically fresh `e`
        (and, with init_only, occurs in an __init__-like method)."""
        cache = self.pkg.__dict__.setdefault("_ff_cache", {})
        key = (id(ci), init_only)
        if key in cache:
            return cache[key]
        seen, bad = set(), set()
        for c in ci.family():
            for m in c.methods.values():
                if not m.self_name:
                    continue
                for n in ast.walk(m.node):
                    tv = []
                    if isinstance(n, ast.Assign):
                        tv = [(t, n.value) for t in n.targets]
                    elif isinstance(n, ast.AnnAssign) and n.value is not None:
                        tv = [(n.target, n.value)]
                    elif isinstance(n, ast.AugAssign):
                        tv = [(n.target, None)]
                    for t, v in tv:
                        if isinstance(t, ast.Attribute) and isinstance(t.value, ast.Name) and t.value.id == m.self_name:
                            seen.add(t.attr)
                            ok = v is not None and Effects(self.pkg, m.mod, m).is_fresh_expr(v, {})
                            if init_only and not self.init_like(m):
                                ok = False
                            if not ok:
                                bad.add(t.attr)
        cache[key] = seen - bad
        return cache[key]

    # -- freshness of expressions --------------------------------------------------------------
    def is_fresh_expr(self, e, st):
        if isinstance(e, (ast.Constant, ast.JoinedStr, ast.List, ast.Dict, ast.Set, ast.Tuple, ast.ListComp,
                          ast.SetComp, ast.DictComp, ast.GeneratorExp, ast.Compare)):
            return True
        if isinstance(e, ast.Name):
            return bool(st.get(e.id))
        if isinstance(e, ast.IfExp):
            return self.is_fresh_expr(e.body, st) and self.is_fresh_expr(e.orelse, st)
        if isinstance(e, ast.BoolOp):
            return all(self.is_fresh_expr(v, st) for v in e.values)
        if isinstance(e, ast.BinOp):
            return self.is_fresh_expr(e.left, st) and self.is_fresh_expr(e.right, st)
        if isinstance(e, ast.UnaryOp):
            return isinstance(e.op, ast.Not) or self.is_fresh_expr(e.operand, st)
        if isinstance(e, ast.NamedExpr):
            return self.is_fresh_expr(e.value, st)
        if isinstance(e, ast.Call):
            ident = self.call_identity(e.func)
            if ident[0] == "builtin" and ident[1] in FRESH_BUILTINS:
                return True
            if ident[0] == "ext" and (ident[1], ident[2]) in FRESH_EXTERNAL_CTORS:
                return True
            if ident[0] == "class":
                return not any("__new__" in c.methods or c.node.keywords for c in ident[1].ancestors())
            if isinstance(e.func, ast.Attribute) and isinstance(e.func.value, ast.Constant) and isinstance(e.func.value.value, str):
                return True          # "".join(...), "..".format(...)
        return False

    def call_identity(self, f):
        """('builtin', n) | ('ext', module, name) | ('class', ClassInfo) | ('func', FuncInfo) | ('method', attr) | ('dynamic',)"""
        if isinstance(f, ast.Name):
            r = self.role(f.id)
            if r[0] == "builtin":
                return ("builtin", f.id)
            if r[0] == "ext":
                rr = self.pkg.resolve_global(self.mod, f.id)
                return ("ext", rr[1], rr[2])
            if r[0] in ("class", "func"):
                return (r[0], r[1])
            if r[0] == "local":
                rr = self.pkg.resolve_expr(self.mod, f, self.fi)
                if rr and rr[0] == "func":
                    return ("func", rr[1])
            return ("dynamic",)
        if isinstance(f, ast.Attribute):
            root, _ = root_and_path(f)
            if isinstance(root, ast.Name) and self.role(root.id)[0] in ("module", "class", "ext"):
                rr = self.pkg.resolve_expr(self.mod, f, self.fi)
                if rr:
                    if rr[0] == "ext":
                        return ("ext", rr[1], rr[2])
                    if rr[0] in ("class", "func"):
                        return (rr[0], rr[1])
            return ("method", f.attr)
        return ("dynamic",)

    # -- classification of the object a store / mutator call acts on -----------------------------
    def classify(self, obj, st, kind):
        """kind: 'attr' (x.a = v), 'item' (x[k] = v / del x[k]), 'call' (x.mutator()).
        -> (ok: bool, why: str)"""
        if not isinstance(obj, ast.Name) and self.is_fresh_expr(obj, st):
            return True, "fresh temporary"
        if isinstance(obj, ast.Name):
            n = obj.id
            if st.get(n):
                return True, "fresh local"
            r = self.role(n)
            if r[0] == "self":
                f = r[1]
                if f.cls is not None and f.cls.owned:
                    return True, f"self of per-compile class {f.cls.name}"
                if self.init_like(f) and f is self.fi and kind == "attr":
                    return True, f"self.<field> inside {f.name}"
                return False, f"`{n}` is not fresh (method {f.name} is not __init__)"
            if r[0] == "owned":
                return True, f"parameter annotated as per-compile class {r[1].name}"
            if r[0] == "exc" and kind == "attr":
                return True, "exception object caught in this function"
            if r[0] == "cls":
                return False, "class object (class attribute store)"
            if r[0] == "class":
                return False, f"class attribute of {r[1].name}"
            if r[0] == "global":
                return False, f"module-level object {r[1][0]}:{r[1][1]}"
            if r[0] in ("module", "ext"):
                return False, "attribute of an imported module / external object"
            return False, f"`{n}` is a parameter or a local that is not fresh on every path"
        if isinstance(obj, ast.Attribute) and isinstance(obj.value, ast.Name):
            r = self.role(obj.value.id)
            ci = None
            if r[0] == "self":
                f = r[1]
                if f.cls is not None and f.cls.owned:
                    ci, init_only = f.cls, False
                elif self.init_like(f) and f is self.fi:
                    ci, init_only = f.cls, True
            elif r[0] == "owned":
                ci, init_only = r[1], False
            if ci is not None:
                if obj.attr in self.fresh_fields(ci, init_only):
                    return True, f"field {obj.attr} of {ci.name}: a container created fresh in its __init__"
                return False, f"field {obj.attr} of {ci.name} is not (only) bound to fresh objects in __init__"
        root, path = root_and_path(obj)
        if isinstance(root, ast.Call):
            idn = self.call_identity(root.func)
            if idn == ("builtin", "type") or (isinstance(root.func, ast.Name) and root.func.id == "type"):
                return False, "type(...) object (class attribute store)"
        if "__class__" in path:
            return False, "__class__ object (class attribute store)"
        return False, f"`{src(obj)}` is reached through a non-fresh object"

    def w5_applies(self, obj):
        root, path = root_and_path(obj)
        fields = self.pkg.__dict__.get("_imm_fields")
        if fields is None:
            fields = set()
            for c in self.pkg.all_classes():
                if c.immutable:
                    for m in c.methods.values():
                        if m.name == "__init__" and m.self_name:
                            for n in ast.walk(m.node):
                                if isinstance(n, ast.Attribute) and isinstance(n.ctx, ast.Store) and \
                                        isinstance(n.value, ast.Name) and n.value.id == m.self_name:
                                    fields.add(n.attr)
                    for v in c.class_attrs.get("__slots__", []):
                        for x in ast.walk(v):
                            if isinstance(x, ast.Constant) and isinstance(x.value, str):
                                fields.add(x.value)
            self.pkg.__dict__["_imm_fields"] = fields
        if isinstance(root, ast.Name):
            r = self.role(root.id)
            if r[0] == "self" and r[1].cls is not None and r[1].cls.immutable:
                return True
            if r[0] == "local" and self.fi is not None:
                for nm in self.param_ann.get(root.id, ()):
                    for c in self.pkg.all_classes():
                        if c.immutable and c.name == nm:
                            return True
            if r[0] in ("class",) and r[1].immutable:
                return True
        return any(p in fields for p in path)

    def record_mutation_root(self, obj, node, extra_attr=None):
        """Remember which module-level objects / class-level attributes are written anywhere (for W4)."""
        root, path = root_and_path(obj)
        where = f"{self.mod.relpath}:{getattr(node, 'lineno', 0)}"
        if isinstance(root, ast.Name):
            r = self.role(root.id)
            if r[0] == "global":
                self.global_mut.setdefault(r[1], where)
            if self.fi is None and root.id in self.mod.bindings and r[0] not in ("class", "func", "module"):
                self.global_mut.setdefault((self.mod.name, root.id), where)
        attrs = [p for p in path if p != "[]"]
        if extra_attr:
            attrs.append(extra_attr)
        for a in attrs:
            if a in self.pkg.class_level_names:
                self.classattr_mut.setdefault(a, where)

    def effect(self, kind, obj, node, st, what, rule_set, attr=None):
        ok, why = self.classify(obj, st, kind)
        root, _ = root_and_path(obj)
        fresh_root = isinstance(root, ast.Name) and st.get(root.id) and isinstance(obj, ast.Name)
        if not fresh_root:
            self.record_mutation_root(obj, node, attr if kind == "attr" and not ok else None)
        self.sites.append(Site(kind, node, what, ok, why))
        if ok:
            return
        for rule in rule_set:
            self.finding(rule, node, f"{what}: {why}")
        if self.w5_applies(obj):
            self.finding("W5", node, f"{what}: writes an object of an immutable class after construction ({why})")

    def store(self, target, node, st, verb):
        if isinstance(target, ast.Attribute):
            self.effect("attr", target.value, node, st, f"{verb} `{src(target)}`", ("W1",), attr=target.attr)
        elif isinstance(target, ast.Subscript):
            self.effect("item", target.value, node, st, f"{verb} `{src(target)}`", ("W1", "W2"))

    def leak_check(self, value, target_obj, node, st):
        """A reference to a per-compile object must not be stored into anything but a per-compile object."""
        if value is None:
            return
        names = [n for n in ast.walk(value) if isinstance(n, ast.Name) and isinstance(n.ctx, ast.Load)]
        for n in names:
            r = self.role(n.id)
            is_owned = r[0] == "owned" or (r[0] == "self" and r[1].cls is not None and r[1].cls.owned) or \
                (r[0] == "local" and n.id in self.owned_locals)
            if not is_owned or not self._bare_use(value, n):
                continue
            troot, _ = root_and_path(target_obj)
            tr = self.role(troot.id) if isinstance(troot, ast.Name) else ("unknown", None)
            t_owned = tr[0] == "owned" or (tr[0] == "self" and tr[1].cls is not None and tr[1].cls.owned)
            if not t_owned:
                self.finding("W1", node, f"reference to per-compile object `{n.id}` stored into `{src(target_obj)}`, "
                                         "which is not a per-compile object")

    @staticmethod
    def _bare_use(value, name_node):
        """True if name_node occurs in `value` as the value itself or inside displays (not as a receiver)."""
        def rec(e):
            if e is name_node:
                return True
            if isinstance(e, (ast.Tuple, ast.List, ast.Set)):
                return any(rec(x) for x in e.elts)
            if isinstance(e, ast.Dict):
                return any(rec(x) for x in e.values if x is not None)
            if isinstance(e, ast.Starred):
                return rec(e.value)
            if isinstance(e, ast.IfExp):
                return rec(e.body) or rec(e.orelse)
            if isinstance(e, ast.BoolOp):
                return any(rec(x) for x in e.values)
            return False
        return rec(value)

    # -- expressions -----------------------------------------------------------------------------
    def kill(self, st, name):
        st.pop(name, None)

    def scan(self, e, st, safe=False):
        if e is None:
            return
        if isinstance(e, ast.Name):
            if isinstance(e.ctx, ast.Load) and not safe:
                self.kill(st, e.id)
            return
        if isinstance(e, ast.Constant):
            return
        if isinstance(e, ast.Attribute):
            if e.attr in ("__dict__", "__globals__", "__builtins__"):
                self.finding("W1", e, f"reflective access `{src(e)}` defeats the store analysis")
            self.scan(e.value, st, True)
            return
        if isinstance(e, ast.Subscript):
            self.scan(e.value, st, True)
            self.scan(e.slice, st, True)
            return
        if isinstance(e, ast.Slice):
            for x in (e.lower, e.upper, e.step):
                self.scan(x, st, True)
            return
        if isinstance(e, ast.Call):
            self.scan_call(e, st)
            return
        if isinstance(e, ast.Compare):
            self.scan(e.left, st, True)
            for c in e.comparators:
                self.scan(c, st, True)
            return
        if isinstance(e, ast.BoolOp):
            for v in e.values:
                self.scan(v, st, safe)
            return
        if isinstance(e, ast.UnaryOp):
            self.scan(e.operand, st, True)
            return
        if isinstance(e, ast.BinOp):
            self.scan(e.left, st, True)
            self.scan(e.right, st, True)
            return
        if isinstance(e, ast.IfExp):
            self.scan(e.test, st, True)
            self.scan(e.body, st, safe)
            self.scan(e.orelse, st, safe)
            return
        if isinstance(e, ast.JoinedStr):
            for v in e.values:
                self.scan(v, st, True)
            return
        if isinstance(e, ast.FormattedValue):
            self.scan(e.value, st, True)
            self.scan(e.format_spec, st, True)
            return
        if isinstance(e, (ast.List, ast.Tuple, ast.Set)):
            for x in e.elts:
                self.scan(x, st, False)
            return
        if isinstance(e, ast.Dict):
            for x in list(e.keys) + list(e.values):
                self.scan(x, st, False)
            return
        if isinstance(e, (ast.ListComp, ast.SetComp, ast.GeneratorExp, ast.DictComp)):
            for g in e.generators:
                self.scan(g.iter, st, True)
                for c in g.ifs:
                    self.scan(c, st, True)
            if isinstance(e, ast.DictComp):
                self.scan(e.key, st, False)
                self.scan(e.value, st, False)
            else:
                self.scan(e.elt, st, False)
            return
        if isinstance(e, ast.Lambda):
            self.scan(e.body, st, False)
            return
        if isinstance(e, ast.Starred):
            self.scan(e.value, st, safe)
            return
        if isinstance(e, (ast.Yield, ast.YieldFrom, ast.Await)):
            self.scan(e.value, st, False)
            return
        if isinstance(e, ast.NamedExpr):
            self.scan(e.value, st, False)
            if self.is_fresh_expr(e.value, st) and e.target.id not in self.captured:
                st[e.target.id] = True
            else:
                self.kill(st, e.target.id)
            return
        for c in ast.iter_child_nodes(e):      # anything else: conservative
            if isinstance(c, ast.expr):
                self.scan(c, st, False)

    def scan_call(self, e, st):
        f = e.func
        ident = self.call_identity(f)
        args = list(e.args) + [k.value for k in e.keywords]
        # --- mutating method calls
        if isinstance(f, ast.Attribute) and f.attr in MUTATORS and ident[0] == "method":
            target = f.value
            tr = target
            unbound = (isinstance(tr, ast.Name) and self.role(tr.id)[0] == "builtin") or \
                (isinstance(tr, ast.Call) and isinstance(tr.func, ast.Name) and tr.func.id == "super"
                 and f.attr.startswith("__"))
            if unbound and e.args:      # list.append(x, v), object.__setattr__(x, n, v), super().__setattr__(n, v)
                target = e.args[0] if isinstance(tr, ast.Name) else ast.Name(id=(self.fi.self_name or "self") if self.fi else "self", ctx=ast.Load())
            self.effect("call", target, e, st, f"mutating call `{src(f)}(...)`", ("W2",))
            for a in args:
                self.leak_check(a, target, e, st)
        # --- externals
        if ident[0] == "ext":
            module, name = ident[1], ident[2]
            self.external(e, module, name)
            top = module.split(".")[0]
            if (top == "random" and name == "shuffle") or top == "heapq" or \
                    (top == "operator" and name in ("setitem", "delitem", "iadd", "iconcat", "setattr")):
                if e.args:
                    self.effect("call", e.args[0], e, st, f"mutating call `{src(f)}({src(e.args[0])}, ...)`", ("W2",))
            if top == "copy":
                self.notes.append(f"{self.where(e)}: uses {module}.{name} (copies are fresh; reported as a note only)")
            if top in ("functools",) and name in ("lru_cache", "cache", "cached_property"):
                self.finding("W3", e, f"call of functools.{name}")
            if top in ("importlib",) or (top == "sys" and name == "modules"):
                self.finding("W1", e, f"reflective access `{src(f)}`")
        elif isinstance(f, ast.Attribute):
            root, path = root_and_path(f)
            if isinstance(root, ast.Name):
                rr = self.role(root.id)
                if rr[0] == "module" and isinstance(rr[1], str) and rr[1] not in self.pkg.mods:
                    self.external(e, ".".join([rr[1]] + path[:-1]), f.attr)
        # --- builtins that store
        if ident[0] == "builtin":
            nm = ident[1]
            if nm in ("setattr", "delattr") and e.args:
                a = e.args[1] if len(e.args) > 1 else None
                an = a.value if isinstance(a, ast.Constant) and isinstance(a.value, str) else None
                self.effect("attr", e.args[0], e, st, f"`{src(e)}`", ("W1",), attr=an)
                if nm == "setattr" and len(e.args) > 2:
                    self.leak_check(e.args[2], e.args[0], e, st)
            if nm == "getattr" and len(e.args) >= 2:
                a = e.args[1]
                if isinstance(a, ast.Constant) and a.value in MUTATORS:
                    self.effect("call", e.args[0], e, st, f"`{src(e)}` fetches a mutating method", ("W2",))
                elif not isinstance(a, ast.Constant):
                    self.notes.append(f"{self.where(e)}: getattr with a computed name (method not known statically)")
            if nm == "next" and e.args:
                # advancing an iterator kept on a long-lived object is hidden state too
                root, path = root_and_path(e.args[0])
                if isinstance(root, ast.Name) and (path or self.role(root.id)[0] == "global"):
                    r = self.role(root.id)
                    owned = r[0] == "owned" or (r[0] == "self" and r[1].cls is not None and r[1].cls.owned)
                    if not owned and r[0] in ("self", "cls", "class", "global", "module"):
                        self.sites.append(Site("call", e, src(e), False, "shared iterator"))
                        self.record_mutation_root(e.args[0], e)
                        self.finding("W2", e, f"`{src(e)}` advances an iterator kept on a non-fresh object")
                        if self.w5_applies(e.args[0]):
                            self.finding("W5", e, f"`{src(e)}` advances an iterator kept on an object of an immutable class")
            if nm in REFLECTIVE_BUILTINS:
                self.finding("W1", e, f"reflective builtin `{nm}(...)` defeats the store analysis")
        # --- per-compile objects passed on
        self.check_owned_args(e, ident)
        # --- receiver and arguments
        if isinstance(f, ast.Attribute):
            self.scan(f.value, st, True)
        else:
            self.scan(f, st, True)
        noncapturing = (ident[0] == "builtin" and ident[1] in NONCAPTURING_BUILTINS) or \
            (isinstance(f, ast.Attribute) and isinstance(f.value, ast.Constant) and isinstance(f.value.value, str))
        for a in args:
            self.scan(a, st, noncapturing)

    def check_owned_args(self, e, ident):
        """A per-compile object may only be passed to a parameter that is annotated as such."""
        def owned_name(a):
            if isinstance(a, ast.Name):
                r = self.role(a.id)
                return r[0] == "owned" or (r[0] == "self" and r[1].cls is not None and r[1].cls.owned) or \
                    (r[0] == "local" and a.id in self.owned_locals)
            return False
        pos = [(i, a) for i, a in enumerate(e.args) if owned_name(a)]
        kws = [(k.arg, k.value) for k in e.keywords if k.arg and owned_name(k.value)]
        if not pos and not kws:
            return
        if ident[0] == "builtin":
            return
        cands = []
        if ident[0] == "func":
            cands = [(ident[1], 0)]
        elif ident[0] == "class":
            for c in ident[1].ancestors():
                if "__init__" in c.methods:
                    cands = [(c.methods["__init__"], 1)]
                    break
        elif ident[0] == "method":
            for fi in self.pkg.all_functions():
                if fi.is_method and fi.name == ident[1]:
                    cands.append((fi, 0 if fi.is_static else 1))
            for c in self.pkg.all_classes():       # self.Nested(...) constructor
                if c.name == ident[1]:
                    for cc in c.ancestors():
                        if "__init__" in cc.methods:
                            cands.append((cc.methods["__init__"], 1))
                            break
        if not cands:
            self.notes.append(f"{self.where(e)}: per-compile object passed to a dynamically chosen callee `{src(e.func)}` "
                              "(annotation of the receiving parameter not checked statically)")
            return
        for fi, skip in cands:
            plist = [p for p in fi.node.args.posonlyargs + fi.node.args.args][skip:]
            for i, a in pos:
                p = plist[i] if i < len(plist) else None
                self._check_owned_param(e, fi, p, a)
            for k, a in kws:
                p = next((q for q in plist + fi.node.args.kwonlyargs if q.arg == k), None)
                self._check_owned_param(e, fi, p, a)

    def _check_owned_param(self, e, fi, p, a):
        names = ann_names(p.annotation) if p is not None else set()
        if not any(c.owned and c.name in names for c in self.pkg.all_classes()):
            self.finding("W1", e, f"per-compile object `{src(a)}` passed to {fi.key} whose receiving parameter "
                                  "is not annotated Lexer/TokenStream (ownership cannot be followed)")

    def where(self, node):
        return f"{self.mod.relpath}:{getattr(node, 'lineno', 0)}"

    # -- statements ------------------------------------------------------------------------------
    @staticmethod
    def join(a, b):
        if a is None:
            return None if b is None else dict(b)
        if b is None:
            return dict(a)
        return {k: True for k in a if k in b}

    def join_all(self, states):
        out, first = None, True
        for s in states:
            if s is None:
                continue
            out = dict(s) if first else self.join(out, s)
            first = False
        return out

    def bind(self, target, value, st, node):
        if isinstance(target, ast.Name):
            n = target.id
            if self.fi is not None and n in self.fi.global_decls:
                self.finding("W1", node, f"store to module global `{n}` (declared `global`)")
                self.global_mut.setdefault((self.mod.name, n), self.where(node))
                return
            if self.fi is not None and n in self.fi.nonlocal_decls:
                self.finding("W1", node, f"store to enclosing-scope variable `{n}` (declared `nonlocal`)")
                return
            if value is not None and self.is_fresh_expr(value, st) and n not in self.captured:
                st[n] = True
            else:
                self.kill(st, n)
        elif isinstance(target, (ast.Tuple, ast.List)):
            vals = value.elts if isinstance(value, (ast.Tuple, ast.List)) and len(value.elts) == len(target.elts) \
                and not any(isinstance(x, ast.Starred) for x in target.elts) else None
            for i, t in enumerate(target.elts):
                self.bind(t, vals[i] if vals else None, st, node)
        elif isinstance(target, ast.Starred):
            self.bind(target.value, None, st, node)
        elif isinstance(target, (ast.Attribute, ast.Subscript)):
            self.scan(target.value, st, True)
            if isinstance(target, ast.Subscript):
                self.scan(target.slice, st, True)
            self.store(target, node, st, "store to")
            self.leak_check(value, target.value, node, st)

    def exec_block(self, stmts, st):
        for s in stmts:
            if st is None:
                st = {}          # unreachable code is still checked, with nothing fresh
            st = self.exec_stmt(s, st)
        return st

    def exec_loop(self, s, st, head_effect):
        entry = dict(st)
        head = dict(st)
        breaks = []
        for _ in range(len(entry) + 3):
            ctx = {"breaks": [], "continues": []}
            self.loop_stack.append(ctx)
            cur = dict(head)
            head_effect(cur)
            out = self.exec_block(s.body, cur)
            self.loop_stack.pop()
            back = self.join_all([out] + ctx["continues"])
            new_head = self.join(entry, back) if back is not None else dict(entry)
            new_head = self.join(new_head, head)
            breaks = ctx["breaks"]
            if new_head == head:
                break
            head = new_head
        after = dict(head)
        head_effect(after)
        if s.orelse:
            after = self.exec_block(s.orelse, after)
        return self.join_all([after] + breaks)

    def exec_stmt(self, s, st):
        if isinstance(s, ast.Assign):
            self.scan(s.value, st, False)
            fresh_val = self.is_fresh_expr(s.value, st)
            for t in s.targets:
                self.bind(t, s.value, st, s)
            if not fresh_val and isinstance(s.value, ast.Name):
                self.kill(st, s.value.id)
            return st
        if isinstance(s, ast.AnnAssign):
            if s.value is not None:
                self.scan(s.value, st, False)
                self.bind(s.target, s.value, st, s)
            return st
        if isinstance(s, ast.AugAssign):
            self.scan(s.value, st, False)
            t = s.target
            if isinstance(t, ast.Name):
                n = t.id
                if self.fi is not None and (n in self.fi.global_decls or n in self.fi.nonlocal_decls):
                    self.bind(t, None, st, s)
                elif not (st.get(n) or n in self.immut_params or self.scalar_evident(s.value)):
                    role = self.role(n)
                    if role[0] in ("local", "self", "owned", "exc"):
                        self.effect("call", t, s, st, f"augmented assignment `{src(s)}` (in-place for lists, sets, dicts)",
                                    ("W2",))
            else:
                self.scan(t.value, st, True)
                self.store(t, s, st, "augmented store to")
            return st
        if isinstance(s, ast.Delete):
            for t in s.targets:
                if isinstance(t, ast.Name):
                    if self.fi is not None and t.id in self.fi.global_decls:
                        self.finding("W1", s, f"del of module global `{t.id}`")
                    self.kill(st, t.id)
                elif isinstance(t, (ast.Attribute, ast.Subscript)):
                    self.scan(t.value, st, True)
                    self.store(t, s, st, "del of")
            return st
        if isinstance(s, ast.Expr):
            self.scan(s.value, st, True)
            return st
        if isinstance(s, ast.Return):
            self.scan(s.value, st, False)
            return None
        if isinstance(s, ast.Raise):
            self.scan(s.exc, st, False)
            self.scan(s.cause, st, False)
            return None
        if isinstance(s, ast.Assert):
            self.scan(s.test, st, True)
            self.scan(s.msg, st, True)
            return st
        if isinstance(s, ast.If):
            self.scan(s.test, st, True)
            a = self.exec_block(s.body, dict(st))
            b = self.exec_block(s.orelse, dict(st))
            return self.join_all([a, b])
        if isinstance(s, (ast.For, ast.AsyncFor)):
            self.scan(s.iter, st, True)

            def head(cur):
                self.bind(s.target, None, cur, s)
            return self.exec_loop(s, st, head)
        if isinstance(s, ast.While):
            def head(cur):
                self.scan(s.test, cur, True)
            return self.exec_loop(s, st, head)
        if isinstance(s, ast.Break):
            if self.loop_stack:
                self.loop_stack[-1]["breaks"].append(dict(st))
            return None
        if isinstance(s, ast.Continue):
            if self.loop_stack:
                self.loop_stack[-1]["continues"].append(dict(st))
            return None
        if isinstance(s, (ast.With, ast.AsyncWith)):
            for it in s.items:
                self.scan(it.context_expr, st, False)
                if it.optional_vars is not None:
                    self.bind(it.optional_vars, None, st, s)
            return self.exec_block(s.body, st)
        if isinstance(s, ast.Try) or type(s).__name__ == "TryStar":
            touched = {n.id for x in s.body for n in ast.walk(x) if isinstance(n, ast.Name)}
            handler_in = {k: True for k in st if k not in touched}
            body_out = self.exec_block(s.body, dict(st))
            outs = []
            if s.orelse:
                body_out = self.exec_block(s.orelse, body_out) if body_out is not None else None
            outs.append(body_out)
            for h in s.handlers:
                hs = dict(handler_in)
                if h.name:
                    self.kill(hs, h.name)
                outs.append(self.exec_block(h.body, hs))
            out = self.join_all(outs)
            if s.finalbody:
                fin_in = self.join(out, handler_in) if out is not None else dict(handler_in)
                fout = self.exec_block(s.finalbody, fin_in)
                return None if out is None else fout
            return out
        if isinstance(s, (ast.Global, ast.Nonlocal)):
            self.finding("W3", s, f"`{src(s)}` statement")
            return st
        if isinstance(s, (ast.FunctionDef, ast.AsyncFunctionDef, ast.ClassDef)):
            for d in s.decorator_list:
                self.scan(d, st, False)
            if not isinstance(s, ast.ClassDef):
                for d in list(s.args.defaults) + [x for x in s.args.kw_defaults if x is not None]:
                    self.scan(d, st, False)
            self.kill(st, s.name)
            return st
        if isinstance(s, (ast.Import, ast.ImportFrom, ast.Pass)):
            return st
        # match statements and anything new: scan every expression, run every nested block from `st`
        outs = [st]
        for c in ast.iter_child_nodes(s):
            if isinstance(c, ast.expr):
                self.scan(c, st, False)
        for c in ast.walk(s):
            if c is not s and hasattr(c, "body") and isinstance(getattr(c, "body"), list):
                for n in ast.walk(c):
                    if isinstance(n, ast.Name) and isinstance(n.ctx, ast.Store):
                        self.kill(st, n.id)
                outs.append(self.exec_block(c.body, dict(st)))
        return self.join_all(outs)

    @staticmethod
    def scalar_evident(e):
        if isinstance(e, ast.Constant):
            return isinstance(e.value, (int, float, str, bytes, bool, complex))
        if isinstance(e, ast.BinOp):
            return Effects.scalar_evident(e.left) or Effects.scalar_evident(e.right)
        if isinstance(e, ast.UnaryOp):
            return Effects.scalar_evident(e.operand)
        if isinstance(e, ast.Call) and isinstance(e.func, ast.Name) and e.func.id in ("len", "int", "float", "str", "ord", "abs"):
            return True
        if isinstance(e, ast.JoinedStr):
            return True
        return False

    def run(self):
        self.exec_block(self.body, {})
        return self


# ----------------------------------------------------------------------------------------------
# whole-package passes: call graph, W3, W4, ownership, assembly
# ----------------------------------------------------------------------------------------------
class Checker:
    def __init__(self, repo="/repo", overrides=None):
        self.pkg = Package(repo, overrides)
        pkg = self.pkg
        self.methods_by_name = {}
        self.class_aliases = {}           # class-level `apply = find`
        pkg.class_level_names = {}        # attr -> [(ClassInfo, [values])]
        for ci in pkg.all_classes():
            for n, fi in ci.methods.items():
                self.methods_by_name.setdefault(n, []).append(fi)
            for n, vals in ci.class_attrs.items():
                pkg.class_level_names.setdefault(n, []).append((ci, vals))
                for v in vals:
                    if isinstance(v, ast.Name) and v.id in ci.methods:
                        self.class_aliases.setdefault(n, []).append(ci.methods[v.id])
        self.notes = list(pkg.notes)
        self.extra_findings = {}          # key -> [finding dict]  (ownership etc.)

    # -- call graph ------------------------------------------------------------------------------
    def refs_of(self, mod, node, fi):
        out = []
        for n in ast.walk(node):
            if isinstance(n, ast.Name) and isinstance(n.ctx, ast.Load):
                r = self.pkg.resolve_expr(mod, n, fi)
                if r and r[0] == "func":
                    out.append(r[1])
                elif r and r[0] == "class":
                    out.extend(self.ctor_of(r[1]))
            elif isinstance(n, ast.Attribute):
                out.extend(self.methods_by_name.get(n.attr, ()))
                out.extend(self.class_aliases.get(n.attr, ()))
                r = self.pkg.resolve_expr(mod, n, fi)
                if r and r[0] == "func":
                    out.append(r[1])
                elif r and r[0] == "class":
                    out.extend(self.ctor_of(r[1]))
                for c in self.pkg.all_classes():          # self.Nested(...) / module.Class(...)
                    if c.name == n.attr:
                        out.extend(self.ctor_of(c))
            elif isinstance(n, (ast.FunctionDef, ast.AsyncFunctionDef)) and fi is not None and n is not fi.node:
                for g in mod.functions.values():
                    if g.node is n:
                        out.append(g)
        return out

    @staticmethod
    def ctor_of(ci):
        return [c.methods[m] for c in ci.ancestors() for m in ("__init__", "__new__") if m in c.methods]

    def reachable(self):
        pkg = self.pkg
        why = {}
        todo = []

        def add(fi, reason):
            if fi.key not in why:
                why[fi.key] = reason
                todo.append(fi)
        allf = {fi.key: fi for fi in pkg.all_functions()}
        for k in ENTRY_POINTS + AUX_ENTRY_POINTS:
            if k in allf:
                add(allf[k], "entry point")
            else:
                self.notes.append(f"entry point {k} not found in the tree")
        for k in ENTRY_ALIASES:
            modn, q = k.split(":")
            cn, an = q.rsplit(".", 1)
            ci = pkg.by_name[modn].classes.get(cn) if modn in pkg.by_name else None
            tgt = [f for f in self.class_aliases.get(an, []) if f.cls is ci]
            if tgt:
                for f in tgt:
                    add(f, f"entry point (alias {k})")
            elif k in allf:
                add(allf[k], "entry point")
            else:
                self.notes.append(f"entry point alias {k} not found")
        self.check_module_level_entry()
        for fi in pkg.all_functions():
            if fi.is_method and fi.name.startswith("__") and fi.name.endswith("__"):
                add(fi, "dunder method (invoked implicitly)")
        for m in pkg.mods.values():
            for s in m.tree.body:
                self._module_level_refs(m, s, add)
        while todo:
            fi = todo.pop()
            for g in self.refs_of(fi.mod, fi.node, fi):
                add(g, f"referenced from {fi.key}")
        return why

    def _module_level_refs(self, m, s, add):
        if isinstance(s, (ast.FunctionDef, ast.AsyncFunctionDef)):
            for d in s.decorator_list + list(s.args.defaults) + [x for x in s.args.kw_defaults if x]:
                for g in self.refs_of(m, d, None):
                    add(g, f"referenced by module-level code of {m.name}")
            return
        if isinstance(s, ast.ClassDef):
            for x in s.body:
                self._module_level_refs(m, x, add)
            return
        for g in self.refs_of(m, s, None):
            add(g, f"referenced by module-level code of {m.name}")

    def check_module_level_entry(self):
        root = self.pkg.mods.get("")
        if root is None:
            self.notes.append("package __init__ not found")
            return
        for nm in MODULE_LEVEL_ENTRY:
            bs = root.bindings.get(nm, [])
            ok = len(bs) == 1 and bs[0].kind == "assign" and isinstance(bs[0].value, ast.Attribute) \
                and bs[0].value.attr == nm and isinstance(bs[0].value.value, ast.Name)
            if ok:
                base = root.bindings.get(bs[0].value.value.id, [])
                ok = len(base) == 1 and base[0].kind == "assign" and isinstance(base[0].value, ast.Call) \
                    and not base[0].value.args and not base[0].value.keywords
                if ok:
                    r = self.pkg.resolve_expr(root, base[0].value.func)
                    ok = bool(r and r[0] == "class" and r[1].is_env)
            if not ok:
                self.notes.append(f"module-level `{nm}` is not a plain alias of a method of a default environment "
                                  "(entry points resolved by name only)")

    # -- W3 ----------------------------------------------------------------------------------------
    def w3(self, fi, eff):
        for d in fi.node.decorator_list:
            nm = deco_name(d)
            base = d.func if isinstance(d, ast.Call) else d
            r = self.pkg.resolve_expr(fi.mod, base, fi.parent)
            known = nm in ALLOWED_DECORATORS and (r is None or r[0] in ("builtin", "ext"))
            if not known:
                eff.finding("W3", d, f"decorator `@{src(d)}` (only abstractmethod/property/staticmethod/classmethod are allowed)")
        a = fi.node.args
        for d in list(a.defaults) + [x for x in a.kw_defaults if x is not None]:
            if isinstance(d, (ast.List, ast.Dict, ast.Set, ast.ListComp, ast.DictComp, ast.SetComp, ast.GeneratorExp, ast.Call)):
                eff.finding("W3", d, f"mutable default argument value `{src(d)}`")
        # closure over a variable that is (re)assigned after capture
        for g in fi.mod.functions.values():
            if g.parent is not fi:
                continue
            free = {n.id for n in ast.walk(g.node) if isinstance(n, ast.Name) and isinstance(n.ctx, ast.Load)
                    and n.id not in g.locals and n.id in fi.locals}
            for v in sorted(free):
                stores = [n for n in walk_own(fi.node) if isinstance(n, ast.Name) and isinstance(n.ctx, ast.Store) and n.id == v]
                late = [n for n in stores if n.lineno > g.node.lineno]
                in_loop = any(isinstance(l, (ast.For, ast.While)) and any(x is n for x in ast.walk(l))
                              for l in walk_own(fi.node) for n in stores)
                if late or in_loop or len(stores) > 1:
                    eff.finding("W3", g.node, f"nested function `{g.name}` closes over `{v}`, which is assigned more than once "
                                              "/ after the capture")

    # -- W4 ----------------------------------------------------------------------------------------
    def classify_value(self, mod, v, scope_cls=None, depth=0):
        """-> ('immutable',) | ('object', (modname, name)|None) | ('unknown', why)"""
        pkg = self.pkg
        if depth > 10:
            return ("unknown", "alias chain too long")
        if isinstance(v, (ast.Constant, ast.JoinedStr, ast.Lambda)):
            return ("immutable",)
        if isinstance(v, ast.Tuple):
            for x in v.elts:
                r = self.classify_value(mod, x, scope_cls, depth + 1)
                if r[0] != "immutable":
                    return r
            return ("immutable",)
        if isinstance(v, (ast.BinOp,)):
            for x in (v.left, v.right):
                r = self.classify_value(mod, x, scope_cls, depth + 1)
                if r[0] != "immutable":
                    return r
            return ("immutable",)
        if isinstance(v, ast.UnaryOp):
            return self.classify_value(mod, v.operand, scope_cls, depth + 1)
        if isinstance(v, (ast.List, ast.Dict, ast.Set, ast.ListComp, ast.DictComp, ast.SetComp)):
            return ("object", None)
        if isinstance(v, ast.Name):
            if scope_cls is not None and v.id in scope_cls.class_attrs:
                vals = scope_cls.class_attrs[v.id]
                return self.classify_value(mod, vals[-1], scope_cls, depth + 1)
            if scope_cls is not None and v.id in scope_cls.methods:
                return ("immutable",)
            r = pkg.resolve_global(mod, v.id)
            if r is None:
                return ("unknown", f"unresolved name {v.id}")
            if r[0] in ("func", "class", "module", "extmodule", "builtin"):
                return ("immutable",)
            if r[0] == "ext":
                return ("immutable",) if r[1].split(".")[0] in ("typing", "enum", "abc") else ("unknown", f"external object {r[1]}.{r[2]}")
            return self.classify_var(r[1], r[2], depth + 1)
        if isinstance(v, ast.Subscript):
            r = pkg.resolve_expr(mod, v.value)
            if r and r[0] == "ext" and r[1].split(".")[0] in ("typing", "collections"):
                return ("immutable",)
            if r and r[0] == "class":
                return ("immutable",)
            return ("unknown", f"subscript `{src(v)}`")
        if isinstance(v, ast.Attribute):
            r = pkg.resolve_expr(mod, v)
            if r:
                if r[0] in ("func", "class", "module", "classattr"):
                    return ("immutable",)
                if r[0] == "var":
                    return self.classify_var(r[1], r[2], depth + 1)
                if r[0] == "ext":
                    return ("unknown", f"external object {r[1]}.{r[2]}")
            base = self.classify_value(mod, v.value, scope_cls, depth + 1)
            if base[0] == "object":
                return base            # bound method / field of a tracked module-level object
            return ("unknown", f"attribute `{src(v)}`")
        if isinstance(v, ast.Call):
            eff = Effects(pkg, mod, None, body=[])
            ident = eff.call_identity(v.func)
            if ident[0] == "builtin" and ident[1] in ("frozenset", "tuple", "str", "int", "float", "bool", "bytes", "range", "len"):
                for a in v.args:
                    elts = a.elts if isinstance(a, (ast.List, ast.Tuple, ast.Set)) else [a]
                    for x in elts:
                        r = self.classify_value(mod, x, scope_cls, depth + 1)
                        if r[0] != "immutable":
                            return r
                return ("immutable",)
            if ident[0] == "builtin" and ident[1] in ("list", "dict", "set", "bytearray"):
                return ("object", None)
            if ident[0] == "ext":
                top = ident[1].split(".")[0]
                if top in ("re", "regex") and ident[2] == "compile":
                    return ("immutable",)
                if top in ("typing", "enum"):
                    return ("immutable",)
                if (ident[1], ident[2]) in FRESH_EXTERNAL_CTORS:
                    return ("object", None)
                return ("unknown", f"result of external call {ident[1]}.{ident[2]}(...)")
            if ident[0] == "class":
                return ("object", None)
            if ident[0] == "func":
                f = ident[1]
                rets = [n for n in walk_own(f.node) if isinstance(n, ast.Return)]
                nested = {g.name for g in f.mod.functions.values() if g.parent is f}
                if rets and all(isinstance(r.value, ast.Name) and r.value.id in nested for r in rets):
                    return ("immutable",)      # a function object
                return ("unknown", f"result of {f.key}(...)")
            return ("unknown", f"result of call `{src(v.func)}(...)`")
        return ("unknown", f"value `{src(v)[:40]}`")

    def classify_var(self, m, name, depth=0):
        bs = m.bindings.get(name, [])
        if len(bs) != 1:
            return ("unknown", f"{m.name}:{name} is bound {len(bs)} times at module level")
        b = bs[0]
        if b.kind != "assign":
            return ("unknown", f"{m.name}:{name} is bound by a `{type(b.node).__name__}` statement")
        r = self.classify_value(m, b.value, None, depth + 1)
        if r[0] == "object" and r[1] is None:
            return ("object", (m.name, name))
        return r

    def global_reads(self, fi):
        out = []

        def local(name):
            f = fi
            while f is not None:
                if name in f.locals:
                    return True
                f = f.parent
            return False

        def visit(n, bound):
            if isinstance(n, (ast.FunctionDef, ast.AsyncFunctionDef, ast.ClassDef)):
                return
            if isinstance(n, ast.Lambda):
                b = bound | {a.arg for a in n.args.args + n.args.kwonlyargs + n.args.posonlyargs}
                visit(n.body, b)
                return
            if isinstance(n, (ast.ListComp, ast.SetComp, ast.GeneratorExp, ast.DictComp)):
                b = set(bound)
                for g in n.generators:
                    visit(g.iter, b)
                    b |= {x.id for x in ast.walk(g.target) if isinstance(x, ast.Name)}
                    for c in g.ifs:
                        visit(c, b)
                for x in ([n.key, n.value] if isinstance(n, ast.DictComp) else [n.elt]):
                    visit(x, b)
                return
            if isinstance(n, ast.AnnAssign):
                visit(n.target, bound)
                if n.value is not None:
                    visit(n.value, bound)
                return
            if isinstance(n, ast.Attribute):
                out.append(("attr", n))
                visit(n.value, bound)
                return
            if isinstance(n, ast.AugAssign) and isinstance(n.target, ast.Name) and not local(n.target.id):
                out.append(("name", n.target))       # `global X; X += 1` reads X too
            if isinstance(n, ast.Name):
                if isinstance(n.ctx, ast.Load) and n.id not in bound and not local(n.id):
                    out.append(("name", n))
                return
            for c in ast.iter_child_nodes(n):
                visit(c, bound)
        for s in fi.node.body:
            visit(s, frozenset())
        return out

    def w4(self, fi, eff, global_mut, classattr_mut):
        pkg = self.pkg
        seen = set()
        for kind, n in self.global_reads(fi):
            if kind == "name":
                if n.id in fi.global_decls:
                    r = ("var", fi.mod, n.id)
                else:
                    r = pkg.resolve_global(fi.mod, n.id)
                if r is None:
                    self.notes.append(f"{fi.key}: name `{n.id}` not resolved (line {n.lineno})")
                    continue
                if r[0] != "var":
                    continue
                self._w4_var(fi, eff, n, r[1], r[2], global_mut, seen)
            else:
                r = pkg.resolve_expr(fi.mod, n, fi)
                if r and r[0] == "var":
                    self._w4_var(fi, eff, n, r[1], r[2], global_mut, seen)
                for ci, vals in pkg.class_level_names.get(n.attr, ()):
                    if not isinstance(n.ctx, ast.Load):
                        continue
                    key = ("cls", ci.qualname, n.attr)
                    if key in seen:
                        continue
                    seen.add(key)
                    c = self.classify_value(ci.mod, vals[-1], ci)
                    if len(vals) > 1:
                        eff.finding("W4", n, f"read of class-level `{ci.name}.{n.attr}`, which is bound {len(vals)} times in the class body")
                    elif c[0] == "unknown":
                        eff.finding("W4", n, f"read of class-level `{ci.name}.{n.attr}` of unknown mutability ({c[1]})")
                    elif c[0] == "object" and n.attr in classattr_mut:
                        eff.finding("W4", n, f"read of class-level mutable `{ci.name}.{n.attr}`, which is written at {classattr_mut[n.attr]}")
                    elif c[0] == "immutable" and n.attr in classattr_mut and not self._is_instance_field(n.attr):
                        eff.finding("W4", n, f"read of class-level `{ci.name}.{n.attr}`, which is re-bound at {classattr_mut[n.attr]}")

    def _is_instance_field(self, attr):
        for fi in self.pkg.all_functions():
            if fi.is_method and fi.name == "__init__" and fi.self_name:
                for x in ast.walk(fi.node):
                    if isinstance(x, ast.Attribute) and isinstance(x.ctx, ast.Store) and x.attr == attr and \
                            isinstance(x.value, ast.Name) and x.value.id == fi.self_name:
                        return True
        return False

    def _w4_var(self, fi, eff, n, m, name, global_mut, seen):
        key = (m.name, name)
        if key in seen:
            return
        seen.add(key)
        if key in global_mut:
            eff.finding("W4", n, f"read of module-level `{m.name}:{name}`, which is written / mutated at {global_mut[key]}")
            return
        c = self.classify_var(m, name)
        if c[0] == "unknown":
            eff.finding("W4", n, f"read of module-level `{m.name}:{name}`: {c[1]}")
        elif c[0] == "object" and c[1] in global_mut:
            eff.finding("W4", n, f"read of module-level `{m.name}:{name}`, an alias of {c[1][0]}:{c[1][1]}, "
                                 f"which is mutated at {global_mut[c[1]]}")

    # -- ownership of the per-compile classes --------------------------------------------------------
    def ownership(self, mod, node, fi, sink):
        """Constructions of / bare references to the per-compile classes inside `node`."""
        pkg = self.pkg
        key = fi.key if fi is not None else f"{mod.name}:<module>"
        parents = {}
        for p in ast.walk(node):
            for c in ast.iter_child_nodes(p):
                parents[id(c)] = p
        for n in ast.walk(node):
            if fi is not None and n is not node and isinstance(n, (ast.FunctionDef, ast.AsyncFunctionDef)):
                continue
            if not isinstance(n, (ast.Name, ast.Attribute)) or not isinstance(n.ctx, ast.Load):
                continue
            r = pkg.resolve_expr(mod, n, fi)
            ci = r[1] if r and r[0] == "class" else None
            if ci is None and isinstance(n, ast.Attribute):
                cands = [c for c in pkg.all_classes() if c.owned and c.name == n.attr and c.outer is not None]
                ci = cands[0] if cands else None
            if ci is None or not ci.owned:
                continue
            p = parents.get(id(n))
            if isinstance(p, ast.Attribute) and p.value is n:
                continue              # Lexer.something: looked at as the outer attribute
            if self._in_annotation(n, parents):
                continue
            if isinstance(p, ast.Call) and p.func is n:
                root = getattr(ci, "owned_root", None)
                if root is not None:
                    ok = key in ALLOWED_CONSTRUCTION.get(root, ())
                else:
                    ok = fi is not None and fi.cls is not None and fi.cls.owned
                sink(key, "construct", ok, n, ci)
                continue
            if isinstance(p, ast.Call) and isinstance(p.func, ast.Name) and p.func.id in ("isinstance", "issubclass"):
                continue
            if isinstance(p, ast.ClassDef) and n in p.bases:
                continue
            sink(key, "value", False, n, ci)

    @staticmethod
    def _in_annotation(n, parents):
        cur = n
        while id(cur) in parents:
            p = parents[id(cur)]
            if isinstance(p, ast.arg) and p.annotation is cur:
                return True
            if isinstance(p, ast.AnnAssign) and p.annotation is cur:
                return True
            if isinstance(p, (ast.FunctionDef, ast.AsyncFunctionDef)) and p.returns is cur:
                return True
            if isinstance(p, ast.Subscript):
                return True               # a type expression such as Callable[[Lexer], ...]
            if isinstance(p, ast.stmt):
                return False
            cur = p
        return False

    # -- assembly ------------------------------------------------------------------------------------
    def run(self):
        pkg = self.pkg
        why = self.reachable()
        allf = {fi.key: fi for fi in pkg.all_functions()}
        effects = {}
        global_mut, classattr_mut = {}, {}
        # effects of every function of the package (W4 needs "mutated anywhere"), module and class bodies too
        for fi in pkg.all_functions():
            effects[fi.key] = Effects(pkg, fi.mod, fi).run()
        body_effects = []
        for m in pkg.mods.values():
            top = [s for s in m.tree.body if not isinstance(s, (ast.FunctionDef, ast.AsyncFunctionDef, ast.ClassDef))]
            body_effects.append(Effects(pkg, m, None, body=top).run())
            for ci in m.classes.values():
                cb = [s for s in ci.node.body if not isinstance(s, (ast.FunctionDef, ast.AsyncFunctionDef, ast.ClassDef))]
                body_effects.append(Effects(pkg, m, None, body=cb).run())
        for e in list(effects.values()) + body_effects:
            for k, v in e.global_mut.items():
                global_mut.setdefault(k, v)
            for k, v in e.classattr_mut.items():
                classattr_mut.setdefault(k, v)
        # ownership of the per-compile classes, over the whole package
        own = {}
        constructions = []

        def sink(key, what, ok, node, ci):
            if what == "construct":
                constructions.append(f"{key} line {node.lineno}: {ci.name}(...) {'(allowed site)' if ok else '(NOT an allowed site)'}")
                if not ok:
                    own.setdefault(key, []).append((node, f"construction of per-compile class {ci.name} outside its allowed sites "
                                                          "(lex.lex/tokenize, JSONPathEnvironment.compile)"))
            else:
                own.setdefault(key, []).append((node, f"per-compile class {ci.name} used as a value (could be instantiated or stored elsewhere)"))
        for fi in pkg.all_functions():
            self.ownership(fi.mod, fi.node, fi, sink)
        for m in pkg.mods.values():
            for s in m.tree.body:
                if isinstance(s, (ast.FunctionDef, ast.AsyncFunctionDef)):
                    continue
                if isinstance(s, ast.ClassDef):
                    for x in s.body:
                        if not isinstance(x, (ast.FunctionDef, ast.AsyncFunctionDef, ast.ClassDef)):
                            self.ownership(m, x, None, sink)
                    continue
                self.ownership(m, s, None, sink)
        for key in own:
            if key in allf and key not in why:
                why[key] = "refers to a per-compile class"
        checked = [allf[k] for k in sorted(why)]
        functions, obligations, findings, externals = [], [], [], []
        nsites = 0
        for fi in checked:
            eff = effects[fi.key]
            self.w3(fi, eff)
            self.w4(fi, eff, global_mut, classattr_mut)
            for node, text in own.get(fi.key, []):
                eff.finding("W1", node, text)
            functions.append({"id": fi.key, "file": fi.mod.relpath, "line": fi.node.lineno, "sha256": fi.sha(),
                              "why": why[fi.key]})
            nsites += len(eff.sites)
            per_rule = {r: [] for r in RULES}
            for f in sorted(eff.findings.values(), key=lambda d: (d["line"], d["rule"], d["text"])):
                per_rule[f["rule"]].append(f)
            oks = [s for s in eff.sites if s.verdict]
            for r in RULES:
                oid = f"{fi.key}/frame:{r}"
                if per_rule[r]:
                    obligations.append({"id": oid, "status": "violated",
                                        "detail": "; ".join(f"line {f['line']}: {f['text']}" for f in per_rule[r])})
                    for f in per_rule[r]:
                        findings.append({"id": oid, "function": fi.key, "file": fi.mod.relpath, "line": f["line"],
                                         "rule": r, "text": f["text"]})
                else:
                    detail = "no violation"
                    if r in ("W1", "W2") and oks:
                        kinds = ("attr", "item") if r == "W1" else ("call", "item")
                        mine = [s for s in oks if s.kind in kinds]
                        if mine:
                            detail = f"{len(mine)} store/mutation site(s), all allowed: " + \
                                "; ".join(sorted({s.why for s in mine}))
                    obligations.append({"id": oid, "status": "ok", "detail": detail})
            for x in eff.externals.values():
                externals.append(dict(x, function=fi.key, file=fi.mod.relpath))
            self.notes.extend(eff.notes)
        # module-level pseudo functions: only the ownership rule applies there
        for m in sorted(pkg.mods.values(), key=lambda m: m.name):
            key = f"{m.name}:<module>"
            oid = f"{key}/frame:W1"
            bad = own.get(key, [])
            if bad:
                obligations.append({"id": oid, "status": "violated", "detail": "; ".join(f"line {n.lineno}: {t}" for n, t in bad)})
                for n, t in bad:
                    findings.append({"id": oid, "function": key, "file": m.relpath, "line": n.lineno, "rule": "W1", "text": t})
            else:
                obligations.append({"id": oid, "status": "ok", "detail": "no per-compile object is created or kept by module-level code"})
        undeclared = sorted({x["call"] for x in externals if x["category"] == "third-party"})
        if undeclared:
            self.notes.append("third-party calls that are NOT in the declared-externals list of DESIGN 2.8 (assumed pure): "
                              + ", ".join(undeclared))
        self.notes.append("per-compile constructions: " + "; ".join(sorted(constructions)))
        self.notes.append(f"{nsites} store / mutation sites examined in {len(checked)} reachable functions "
                          f"({len(allf)} functions in the package)")
        unreach = sorted(set(allf) - set(why))
        if unreach:
            self.notes.append("functions not reachable from the entry points (not checked): " + ", ".join(unreach))
        return {
            "functions": functions,
            "obligations": obligations,
            "findings": findings,
            "externals": externals,
            "notes": sorted(set(self.notes)),
            "counts": {"functions": len(functions), "obligations": len(obligations), "findings": len(findings),
                       "violated_obligations": sum(o["status"] == "violated" for o in obligations),
                       "sites": nsites},
        }


def check(repo="/repo", overrides=None):
    t0 = time.time()
    res = Checker(repo, overrides).run()
    res["seconds"] = round(time.time() - t0, 3)
    return res


if __name__ == "__main__":
    import argparse
    ap = argparse.ArgumentParser()
    ap.add_argument("--repo", default="/repo")
    ap.add_argument("--summary", action="store_true", help="print counts, findings and notes only")
    a = ap.parse_args()
    out = check(a.repo)
    if a.summary:
        out = {k: out[k] for k in ("counts", "findings", "notes", "seconds")}
    json.dump(out, sys.stdout, indent=1)
    sys.stdout.write("\n")
    sys.exit(1 if out["findings"] else 0)
