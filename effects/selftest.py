#!/usr/bin/env python3-vt
"""Self-test of the frame/effect checker: seeded hidden-state changes, applied IN MEMORY to the source
text of /repo (never written to disk), must each be reported under the right rule; harmless edits and
the unchanged tree must stay clean.

The edits are placed with the help of `ast` positions (not fixed line numbers), so that unrelated
edits of /repo do not break the self-test.  Run: python3-vt /verif/effects/selftest.py [--json]
"""
from __future__ import annotations

import ast
import json
import re
import sys
from pathlib import Path

sys.path.insert(0, str(Path(__file__).resolve().parent))
import checker  # noqa: E402

REPO = Path("/repo")
PKG = REPO / "jsonpath_rfc9535"


def read(rel):
    return (PKG / rel).read_text(encoding="utf-8")


def find_def(tree, qual):
    """The ClassDef / FunctionDef node for a dotted qualname."""
    node = tree
    for part in qual.split("."):
        for n in node.body:
            if isinstance(n, (ast.ClassDef, ast.FunctionDef, ast.AsyncFunctionDef)) and n.name == part:
                node = n
                break
        else:
            raise KeyError(qual)
    return node


def first_stmt(node):
    body = node.body
    if body and isinstance(body[0], ast.Expr) and isinstance(body[0].value, ast.Constant) and isinstance(body[0].value.value, str) \
            and len(body) > 1:
        return body[1]
    return body[0]


def insert_at(text, lineno, lines, indent):
    """Insert `lines` before 1-based line `lineno`."""
    ls = text.split("\n")
    ls[lineno - 1:lineno - 1] = [(" " * indent + x) if x else x for x in lines]
    return "\n".join(ls)


def at_start(text, qual, lines):
    """Insert statements at the start of the body of function / class `qual` (after the docstring)."""
    st = first_stmt(find_def(ast.parse(text), qual))
    return insert_at(text, st.lineno, lines, st.col_offset)


def at_end(text, qual, lines):
    node = find_def(ast.parse(text), qual)
    last = node.body[-1]
    return insert_at(text, last.end_lineno + 1, lines, last.col_offset)


def after_assign(text, qual, var, lines):
    """Insert after the first assignment to local `var` in function `qual`."""
    fn = find_def(ast.parse(text), qual)
    for n in ast.walk(fn):
        if isinstance(n, (ast.Assign, ast.AnnAssign)):
            tg = n.targets if isinstance(n, ast.Assign) else [n.target]
            if any(isinstance(t, ast.Name) and t.id == var for t in tg):
                return insert_at(text, n.end_lineno + 1, lines, n.col_offset)
    raise KeyError(var)


def decorate(text, qual, deco):
    fn = find_def(ast.parse(text), qual)
    line = min([fn.lineno] + [d.lineno for d in fn.decorator_list])
    return insert_at(text, line, [deco], fn.col_offset)


def replace_header(text, qual, header):
    """Replace the `def ...:` header of `qual` (possibly spanning lines) by `header`."""
    fn = find_def(ast.parse(text), qual)
    ls = text.split("\n")
    ls[fn.lineno - 1:fn.body[0].lineno - 1] = [" " * fn.col_offset + header]
    return "\n".join(ls)


def replace_body(text, qual, lines):
    fn = find_def(ast.parse(text), qual)
    st = first_stmt(fn)
    ls = text.split("\n")
    ls[st.lineno - 1:fn.body[-1].end_lineno] = [" " * st.col_offset + x for x in lines]
    return "\n".join(ls)


def prepend_import(text, line):
    tree = ast.parse(text)
    imports = [n for n in tree.body if isinstance(n, (ast.Import, ast.ImportFrom))]
    at = imports[-1].end_lineno + 1 if imports else 1
    return insert_at(text, at, [line], 0)


def append_module(text, lines):
    return text.rstrip("\n") + "\n\n" + "\n".join(lines) + "\n"


# ------------------------------------------------------------------------------------------------
# seeded changes: name -> (overrides builder, expected {function key: {rules}}, description)
# ------------------------------------------------------------------------------------------------
def seed_a():
    t = read("filter_expressions.py")
    t = prepend_import(t, "_MEMO = {}")
    t = replace_body(t, "RootFilterQuery.evaluate", [
        "key = (id(self), id(context.root))",
        "if key in _MEMO:",
        "    return _MEMO[key]",
        "result = JSONPathNodeList(self.query.find(context.root))",
        "_MEMO[key] = result",
        "return result",
    ])
    return {"filter_expressions.py": t}


def seed_b():
    return {"function_extensions/length.py": at_start(read("function_extensions/length.py"), "Length.__call__", ["obj.sort()"])}


def seed_c():
    t = prepend_import(read("environment.py"), "import functools")
    return {"environment.py": decorate(t, "JSONPathEnvironment.compile", "@functools.lru_cache(maxsize=None)")}


def seed_d():
    return {"selectors.py": after_assign(read("selectors.py"), "FilterSelector.resolve", "context", ["self.env._ctx = context"])}


def seed_e():
    t = replace_header(read("query.py"), "JSONPathQuery.find", "def find(self, value, _cache={}):")
    return {"query.py": at_start(t, "JSONPathQuery.find", ["_cache[id(value)] = True"])}


def seed_f():
    t = at_start(read("segments.py"), "JSONPathRecursiveDescentSegment", ["seen = []", ""])
    return {"segments.py": at_start(t, "JSONPathRecursiveDescentSegment._visit", ["self.seen.append(node)"])}


def seed_g():
    t = at_start(read("environment.py"), "JSONPathEnvironment", ["shared_functions = {}", ""])
    return {"environment.py": at_end(t, "JSONPathEnvironment.setup_function_extensions",
                                     ['JSONPathEnvironment.shared_functions["length"] = self.function_extensions["length"]'])}


def seed_h1():
    return {"selectors.py": at_start(read("selectors.py"), "WildcardSelector.resolve",
                                     ["if isinstance(node.value, dict):", '    node.value.pop("__seen__", None)'])}


def seed_h2():
    return {"selectors.py": at_start(read("selectors.py"), "NameSelector.resolve",
                                     ["if isinstance(node.value, dict) and '__tmp__' in node.value:", "    del node.value['__tmp__']"])}


def seed_i():
    t = prepend_import(read("query.py"), "_COUNTER = 0")
    return {"query.py": at_start(t, "JSONPathQuery.finditer", ["global _COUNTER", "_COUNTER += 1"])}


# further seeds, beyond the required ones
def seed_j():
    return {"selectors.py": at_start(read("selectors.py"), "IndexSelector.resolve", ['setattr(self, "_last", node)'])}


def seed_k():
    return {"segments.py": at_start(read("segments.py"), "JSONPathChildSegment.resolve", ["type(self).calls = 1"])}


def seed_l():
    t = prepend_import(read("parse.py"), "from .lex import Lexer")
    return {"parse.py": at_start(t, "Parser.parse_null", ['_scratch = Lexer("$")'])}


def seed_m():
    return {"parse.py": at_start(read("parse.py"), "Parser.parse", ["self._stream = stream"])}


def seed_n():
    return {"selectors.py": at_start(read("selectors.py"), "SliceSelector.resolve", ["vals = node.value", "vals.append(None)"])}


def seed_o():
    return {"segments.py": at_start(read("segments.py"), "JSONPathChildSegment.resolve",
                                    ["acc = []", "self.token.position(acc)", "acc.append(1)"])}


def seed_p():
    return {"segments.py": at_start(read("segments.py"), "JSONPathChildSegment.resolve",
                                    ["acc = [] if self.selectors else self.selectors", "acc.append(1)"])}


def seed_q():
    t = prepend_import(read("node.py"), "import itertools")
    t = prepend_import(t, "_IDS = itertools.count()")
    return {"node.py": at_start(t, "JSONPathNode.new_child", ["_serial = next(_IDS)"])}


def seed_r():
    t = at_start(read("function_extensions/count.py"), "Count.__call__", ["self.arg_types.append(None)"])
    return {"function_extensions/count.py": t}


def seed_s():
    return {"filter_expressions.py": at_start(read("filter_expressions.py"), "FunctionExtension.evaluate",
                                              ['context.env.function_extensions["_last"] = self'])}


def seed_t():
    return {"selectors.py": at_start(read("selectors.py"), "SliceSelector.resolve", ["vals = node.value", "vals += [None]"])}


# negative controls
def neg_rename():
    t = read("filter_expressions.py")
    assert re.search(r"\b_args\b", t)
    return {"filter_expressions.py": re.sub(r"\b_args\b", "unpacked", t)}


def neg_append_loop():
    return {"node.py": replace_body(read("node.py"), "JSONPathNodeList.values",
                                    ["out = []", "for node in self:", "    out.append(node.value)", "return out"])}


def neg_const_tuple():
    t = prepend_import(read("selectors.py"), '_RESERVED = ("__proto__", "constructor")')
    return {"selectors.py": at_start(t, "NameSelector.resolve", ["if self.name in _RESERVED:", "    pass"])}


def neg_fresh_object():
    return {"tokens.py": at_start(read("tokens.py"), "TokenStream.close",
                                  ['tok = Token(TokenType.EOF, "", -1, "")', 'tok.message = "closed"'])}


SEEDS = [
    ("a module-level memo dict written in RootFilterQuery.evaluate", seed_a,
     {"filter_expressions:RootFilterQuery.evaluate": {"W1", "W4"}}),
    ("b obj.sort() on the argument of Length.__call__", seed_b,
     {"function_extensions.length:Length.__call__": {"W2"}}),
    ("c functools.lru_cache on JSONPathEnvironment.compile", seed_c,
     {"environment:JSONPathEnvironment.compile": {"W3"}}),
    ("d self.env._ctx = context in FilterSelector.resolve", seed_d,
     {"selectors:FilterSelector.resolve": {"W1", "W5"}}),
    ("e mutable default _cache={} written in JSONPathQuery.find", seed_e,
     {"query:JSONPathQuery.find": {"W3", "W1"}}),
    ("f class-level list appended to in _visit", seed_f,
     {"segments:JSONPathRecursiveDescentSegment._visit": {"W2", "W4", "W5"}}),
    ("g setup_function_extensions writes a class-level dict", seed_g,
     {"environment:JSONPathEnvironment.setup_function_extensions": {"W1"}}),
    ("h1 node.value.pop(...) in a selector", seed_h1,
     {"selectors:WildcardSelector.resolve": {"W2", "W5"}}),
    ("h2 del node.value[k] in a selector", seed_h2,
     {"selectors:NameSelector.resolve": {"W1", "W2", "W5"}}),
    ("i global counter incremented in JSONPathQuery.finditer", seed_i,
     {"query:JSONPathQuery.finditer": {"W3", "W1", "W4"}}),
    ("j setattr(self, ...) in a selector", seed_j, {"selectors:IndexSelector.resolve": {"W1", "W5"}}),
    ("k type(self).x = ... in a segment", seed_k, {"segments:JSONPathChildSegment.resolve": {"W1"}}),
    ("l Lexer constructed outside lex/tokenize", seed_l, {"parse:Parser.parse_null": {"W1"}}),
    ("m parser keeps the token stream", seed_m, {"parse:Parser.parse": {"W1"}}),
    ("n mutation through a local alias of node.value", seed_n, {"selectors:SliceSelector.resolve": {"W2"}}),
    ("o fresh list mutated after it escaped as a call argument", seed_o, {"segments:JSONPathChildSegment.resolve": {"W2"}}),
    ("p list that is fresh on one path only", seed_p, {"segments:JSONPathChildSegment.resolve": {"W2"}}),
    ("q module-level itertools.count() advanced with next()", seed_q, {"node:JSONPathNode.new_child": {"W4"}}),
    ("r class-level arg_types list mutated", seed_r, {"function_extensions.count:Count.__call__": {"W2", "W5"}}),
    ("s function registry written during evaluation", seed_s, {"filter_expressions:FunctionExtension.evaluate": {"W1", "W5"}}),
    ("t in-place += on an alias of node.value", seed_t, {"selectors:SliceSelector.resolve": {"W2"}}),
]
# reads of a mutated class-level list elsewhere are legitimately reported too (seed r): allow W4 anywhere
ALLOW_ELSEWHERE = {"r class-level arg_types list mutated": {"W4"}}

CONTROLS = [
    ("unchanged tree", lambda: None),
    ("control: a local renamed", neg_rename),
    ("control: result built with an append loop on a fresh list", neg_append_loop),
    ("control: read of a new module-level constant tuple", neg_const_tuple),
    ("control: attribute store on an object created in the same activation", neg_fresh_object),
]


def run():
    results, ok_all = [], True
    for name, build in CONTROLS:
        res = checker.check(str(REPO), overrides=build())
        ok = not res["findings"]
        ok_all &= ok
        results.append({"case": name, "expect": "clean", "ok": ok, "functions": res["counts"]["functions"],
                        "obligations": res["counts"]["obligations"],
                        "findings": [f"{f['function']} {f['rule']}: {f['text']}" for f in res["findings"]]})
    for name, build, expected in SEEDS:
        ov = build()
        for rel, txt in ov.items():
            ast.parse(txt)                   # the seeded source must still be valid Python
            assert txt != read(rel)
        res = checker.check(str(REPO), overrides=ov)
        got = {}
        for f in res["findings"]:
            got.setdefault(f["function"], set()).add(f["rule"])
        missing = {fn: sorted(rules - got.get(fn, set())) for fn, rules in expected.items() if rules - got.get(fn, set())}
        stray = {fn: sorted(r) for fn, r in got.items()
                 if fn not in expected and not r <= ALLOW_ELSEWHERE.get(name, set())}
        ok = not missing and not stray
        ok_all &= ok
        results.append({"case": name, "expect": {k: sorted(v) for k, v in expected.items()}, "ok": ok,
                        "reported": {k: sorted(v) for k, v in got.items()}, "missing": missing, "stray": stray,
                        "texts": [f"{f['function']} {f['rule']} line {f['line']}: {f['text']}" for f in res["findings"]][:8]})
    return ok_all, results


if __name__ == "__main__":
    ok_all, results = run()
    if "--json" in sys.argv:
        json.dump({"ok": ok_all, "results": results}, sys.stdout, indent=1)
        print()
    else:
        for r in results:
            print(("PASS " if r["ok"] else "FAIL ") + r["case"])
            if r["expect"] == "clean":
                for f in r["findings"]:
                    print("      unexpected:", f)
            else:
                print("      reported:", r["reported"])
                if not r["ok"]:
                    print("      missing:", r["missing"], "stray:", r["stray"])
                    for t in r["texts"]:
                        print("      ", t)
        print("SELFTEST", "OK" if ok_all else "FAILED")
    sys.exit(0 if ok_all else 1)
