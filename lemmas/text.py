"""Facts about UTF-8 and hexadecimal digits used by the C09 decoding kernels"""
from pyvc.lemmas import lemma

lemma("utf8_hex_is_ascii",
    params={"s": "str"},
    hyps=["all_hex(utf8(s), len(utf8(s)))"],
    goal="len(utf8(s)) == len(s)",
    assumed=True, props=["C09"],
    note="A12 (UTF-8): code units below 128 encode exactly one character each, so a string whose UTF-8 form consists of ASCII "
         "hexadecimal digits has one unit per character")

lemma("hex_val_bound",
    params={"bs": "list", "k": "int"},
    hyps=["k <= 4", "all_hex(bs, k)", "k <= len(bs)"],
    goal="hex_val(bs, k) >= 0 and hex_val(bs, k) <= 65535",
    depth=6, props=["C09"],
    note="at most four hexadecimal digits denote a number below 2**16")
