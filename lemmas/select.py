"""Lemmas about the selection spec functions"""
from pyvc.lemmas import lemma

lemma("singular_at_most_one",
    params={"segments": "list", "nodes": "list", "k": "int"},
    hyps=["len(nodes) <= 1", "k <= len(segments)", "singular(segments, k)"],
    goal="len(apply_segments(segments, nodes, k)) <= 1",
    induction="k", depth=5, props=["C06", "C02", "C05"],
    note="a singular query (child segments with one name or index selector each) selects at most one node (RFC 9535 2.3.5.1)")

lemma("conv_vals_nth",
    params={"types": "list", "vals": "list", "k": "int"},
    hyps=["k <= len(vals)", "k <= len(types)"],
    goal="len(conv_vals(types, vals, k)) == max(k, 0) and all(conv_vals(types, vals, k)[j] == conv_arg(types[j], vals[j]) for j in range(k))",
    induction="k", depth=3, unfold=["conv_vals"], props=["C10"],
    note="element-wise characterisation of the prefix-recursive conversion of evaluated arguments")

lemma("map_eval_expr_nth",
    params={"exprs": "list", "ctx": "V", "k": "int"},
    hyps=["k <= len(exprs)"],
    goal="len(map_eval_expr(exprs, ctx, k)) == max(k, 0) and all(map_eval_expr(exprs, ctx, k)[j] == eval_expr(exprs[j], ctx) for j in range(k))",
    induction="k", depth=3, unfold=["map_eval_expr"], props=["C10"],
    note="element-wise characterisation of the evaluated argument list")
