"""Contracts for tokens.py (C19) and the small arithmetic kernels of parse.py (C09)"""
from pyvc.contracts import contract

contract("tokens:Token.position",
    requires=["is_str(self.query)", "is_str(self.value)", "is_int(self.index)"],
    ensures=["result == line_col(str_of(self.query), self.index)"],
    raises=[], props=["C19", "C13"],
    note="str.count / str.rfind are uninterpreted builtins: the obligation is that they are applied to the QUERY text and the token's offset")

contract("parse:Parser._is_high_surrogate",
    requires=["is_int(codepoint)"], ensures=["result == (codepoint >= 55296 and codepoint <= 56319)"], raises=[], props=["C09"])

contract("parse:Parser._is_low_surrogate",
    requires=["is_int(codepoint)"], ensures=["result == (codepoint >= 56320 and codepoint <= 57343)"], raises=[], props=["C09"])

contract("parse:Parser._string_from_codepoint",
    requires=["is_int(codepoint)", "codepoint >= 0", "codepoint <= 1114111", "isinstance(token, Token)"],
    ensures=["result == char(codepoint)"],
    raises_iff=[("JSONPathSyntaxError", "codepoint <= 31")], props=["C09", "C13"])

contract("exceptions:JSONPathError.__str__",
    requires=["is_exc(self)", "is_none(self.token) or (isinstance(self.token, Token) and is_str(self.token.query) and is_str(self.token.value) and is_int(self.token.index))"],
    ensures=["implies(is_none(self.token), result == exc_message(self))",
             "implies(not is_none(self.token), result == exc_message(self) + ', line ' + int_str(int_of(seq(line_col(str_of(self.token.query), self.token.index))[0])) + ', column ' + int_str(int_of(seq(line_col(str_of(self.token.query), self.token.index))[1])))"],
    raises=[], props=["C19", "C13"],
    note="the message printed is the constructor's message followed by exactly the line and column of the token's offset in the query text (Token.position)")
