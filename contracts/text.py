"""Contracts for tokens.py (C19) and the small arithmetic kernels of parse.py (C09)"""
from pyvc.contracts import contract

contract("tokens:Token.position",
    requires=["is_str(self.query)", "is_str(self.value)", "is_int(self.index)"],
    ensures=["result == line_col(str_of(self.query), self.index)"],
    raises=[], props=["C19", "C13"],
    note="str.count / str.rfind are uninterpreted builtins: the obligation is that they are applied to the QUERY text and the token's offset")

contract("parse:Parser._is_high_surrogate",
    requires=["is_int(codepoint)"], ensures=["result == (codepoint >= 55296 and codepoint <= 56319)"], raises=[], props=["C09"])

contract("parse:Parser._is_low_surrogate",
    requires=["is_int(codepoint)"], ensures=["result == (codepoint >= 56320 and codepoint <= 57343)"], raises=[], props=["C09"])

contract("parse:Parser._string_from_codepoint",
    requires=["is_int(codepoint)", "codepoint >= 0", "codepoint <= 1114111", "isinstance(token, Token)"],
    ensures=["result == char(codepoint)"],
    raises_iff=[("JSONPathSyntaxError", "codepoint <= 31")], props=["C09", "C13"])

contract("exceptions:JSONPathError.__str__",
    requires=["is_exc(self)", "is_none(self.token) or (isinstance(self.token, Token) and is_str(self.token.query) and is_str(self.token.value) and is_int(self.token.index))"],
    ensures=["implies(is_none(self.token), result == exc_message(self))",
             "implies(not is_none(self.token), result == exc_message(self) + ', line ' + int_str(int_of(seq(line_col(str_of(self.token.query), self.token.index))[0])) + ', column ' + int_str(int_of(seq(line_col(str_of(self.token.query), self.token.index))[1])))"],
    raises=[], props=["C19", "C13"],
    note="the message printed is the constructor's message followed by exactly the line and column of the token's offset in the query text (Token.position)")

contract("parse:Parser._parse_hex_digits",
    requires=["is_str(digits)", "isinstance(token, Token)"],
    ensures=["result == hex_val(utf8(str_of(digits)), len(utf8(str_of(digits))))"],
    raises_iff=[("JSONPathSyntaxError", "not all_hex(utf8(str_of(digits)), len(utf8(str_of(digits))))")],
    loops={1: ["all_hex(utf8(str_of(digits)), i1)", "codepoint == hex_val(utf8(str_of(digits)), i1)", "codepoint >= 0"]},
    props=["C09", "C13"],
    note="digits.encode() is the sequence of UTF-8 code units (A12)")

_U1 = "utf8(str_of(value)[index + 1:index + 5])"
_U2 = "utf8(str_of(value)[index + 7:index + 11])"
_CP1 = f"hex_val({_U1}, len({_U1}))"
_CP2 = f"hex_val({_U2}, len({_U2}))"
_HI = f"({_CP1} >= 55296 and {_CP1} <= 56319)"
_LO1 = f"({_CP1} >= 56320 and {_CP1} <= 57343)"
_LO2 = f"({_CP2} >= 56320 and {_CP2} <= 57343)"
_FOLLOWS = "(index + 10 < len(value) and str_of(value)[index + 5] == '\\\\' and str_of(value)[index + 6] == 'u')"

contract("parse:Parser._decode_hex_char",
    requires=["is_str(value)", "is_int(index)", "index >= 0", "index < len(value)", "isinstance(token, Token)", "is_int(token.index)"],
    ensures=[f"implies(not {_HI}, result == mk_tuple([{_CP1}, index + 4]))",
             f"implies({_HI}, result == mk_tuple([pair_value({_CP1}, {_CP2}), index + 10]))",
             "is_int(seq(result)[0]) and int_of(seq(result)[0]) >= 0 and int_of(seq(result)[0]) <= 1114111"],
    lemmas=[("utf8_hex_is_ascii", {"s": "str_of(value)[index + 1:index + 5]"}),
            ("utf8_hex_is_ascii", {"s": "str_of(value)[index + 7:index + 11]"}),
            ("hex_val_bound", {"bs": _U1, "k": f"len({_U1})"}),
            ("hex_val_bound", {"bs": _U2, "k": f"len({_U2})"})],
    raises_iff=[("JSONPathSyntaxError",
                 f"index + 4 >= len(value) or not all_hex({_U1}, len({_U1})) or {_LO1} or "
                 f"({_HI} and (not {_FOLLOWS} or not all_hex({_U2}, len({_U2})) or not {_LO2}))")],
    props=["C09", "C13"],
    note="value[index] is the 'u' of a \\\\uXXXX escape; the result is the scalar value (a surrogate pair combined by the Unicode formula) "
         "and the position of the last character consumed")

contract("parse:Parser._decode_escape_sequence",
    requires=["is_str(value)", "is_int(index)", "index >= 0", "index < len(value)", "isinstance(token, Token)", "is_int(token.index)"],
    ensures=["result == mk_tuple([esc_char(str_of(value), index), esc_end(str_of(value), index)])"],
    raises_iff=[("JSONPathSyntaxError", "esc_bad(str_of(value), index)")],
    props=["C09", "C13"],
    note="value[index] is the character after the backslash; result = (decoded character, position of the last character consumed)")

contract("parse:Parser._unescape_string",
    requires=["is_str(value)", "isinstance(token, Token)", "is_int(token.index)", "not dec_dangling(str_of(value), 0)"],
    ensures=["result == ''.join(dec_from(str_of(value), 0))"],
    raises_iff=[("JSONPathSyntaxError", "dec_bad(str_of(value), 0)")],
    loops={1: ["is_int(index)", "index >= 0", "is_arr(unescaped)", "all(is_str(c) for c in seq(unescaped))",
               "not dec_dangling(str_of(value), index)",
               "dec_bad(str_of(value), 0) == dec_bad(str_of(value), index)",
               "dec_from(str_of(value), 0) == seq(unescaped) + dec_from(str_of(value), index)"]},
    props=["C09", "C13"],
    note="the loop invariant relates what is decoded so far to the suffix functions dec_from / dec_bad of spec/text.py")

_BODY = ("(str_of(token.value).replace('\"', '\\\\\"').replace(\"\\\\'\", \"'\") "
         "if token.type_ == TokenType.SINGLE_QUOTE_STRING else str_of(token.value))")

contract("parse:Parser._decode_string_literal",
    requires=["isinstance(token, Token)", "is_str(token.value)", "is_int(token.index)", "isinstance(token.type_, TokenType)",
              f"not dec_dangling({_BODY}, 0)"],
    ensures=[f"result == ''.join(dec_from({_BODY}, 0))"],
    raises_iff=[("JSONPathSyntaxError", f"dec_bad({_BODY}, 0)")],
    props=["C09", "C13"],
    note="a single-quoted literal is first rewritten to the double-quoted spelling (str.replace is an uninterpreted builtin shared with the "
         "contract), then decoded")

contract("serialize:canonical_string", trusted=True,
    requires=["is_str(value)"], defines=["result == canonical(str_of(value))"], ensures=["is_str(result)"], raises=[], props=["C08", "C12"],
    note="json.dumps-based quoting (external): the result is named canonical(value); its text is decided by the bounded C08/C12 runs")

contract("node:JSONPathNode.path",
    requires=["isinstance(self, JSONPathNode)", "is_tuple(self.location)", "all(is_str(p) or is_int(p) for p in seq(self.location))"],
    ensures=["result == '$' + ''.join(map_path_piece(seq(self.location), len(self.location)))"],
    comps={1: "path_piece(p)"}, hide=["path_piece"], unfold=["path_piece"],
    raises=[], props=["C08", "C13"],
    note="a normalized path is '$' followed by one bracketed step per location component, names in canonical spelling")
