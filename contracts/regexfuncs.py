"""match() / search() (C10, C11): the overrides of FilterFunction.__call__ that delegate to the third-party `regex` engine.
External, assumed: iregexp_check.check (RFC 9485 validity), regex.fullmatch / regex.search (raise TypeError for a non-string
subject, regex.error for a pattern they cannot compile, otherwise return a match object or None), and the translation
map_re (function_extensions/_pattern.py) is verified against spec/text.py: mre_parts."""
from pyvc.contracts import contract

contract("function_extensions._pattern:map_re",
    requires=["is_str(pattern)"],
    ensures=["result == ''.join(mre_parts(str_of(pattern), len(pattern)))", "is_str(result)"],
    loops={1: ["is_bool(escaped)", "is_bool(char_class)", "is_arr(parts)", "all(is_str(c) for c in seq(parts))",
               "escaped == mre_esc(str_of(pattern), i1)", "char_class == mre_cls(str_of(pattern), i1)",
               "seq(parts) == mre_parts(str_of(pattern), i1)"]},
    raises=[], props=["C11", "C13"],
    note="string-to-string translation of an I-Regexp to the regex engine's dialect, against the declarative prefix functions of spec/text.py")

contract("function_extensions.match:Match.__call__",
    requires=["isinstance(self, Match)", "is_operand(string)", "is_operand(pattern)"],
    ensures=["result == rfc_match(string, pattern)", "is_bool(result)"],
    raises=[], props=["C10", "C11", "C13"])

contract("function_extensions.search:Search.__call__",
    requires=["isinstance(self, Search)", "is_operand(string)", "is_operand(pattern)"],
    ensures=["result == rfc_search(string, pattern)", "is_bool(result)"],
    raises=[], props=["C10", "C11", "C13"])
