"""Contracts for the lexer's cursor operations (C19). `self` is the lexer at exit, `self0` at entry (the methods update
the object in place). Every operation preserves lex_inv: 0 <= start <= pos <= len(query), every token's offset inside
the query and its text the query. The state functions (lex_root, lex_segment, ...) move the cursor only through
these methods (checked syntactically by the effects checker), so the invariant holds for every token list a run
produces; error tokens and the exceptions raised here carry pos or start, hence an offset in 0..len(query)."""
from pyvc.contracts import contract

M = {"self": "Lexer"}
INV = ["lex_inv(self)"]
KEEP = ["lex_inv(self)", "lex_rest_same(self, self0)"]

contract("lex:Lexer.__init__",
    requires=["is_str(query)"],
    ensures=["lex_inv(self)", "self.query == query", "self.start == 0", "self.pos == 0", "len(self.tokens) == 0"],
    raises=[], props=["C19"])

contract("lex:Lexer.emit", mutates=M, requires=INV,
    ensures=KEEP + ["self.pos == self0.pos", "self.start == self0.pos", "toks_extended(self, self0)",
                    "seq(self.tokens)[len(self0.tokens)].index == self0.start"],
    raises=[], props=["C19"])

contract("lex:Lexer.error", mutates=M, requires=INV + ["is_str(msg)"],
    ensures=KEEP + ["self.pos == self0.pos", "self.start == self0.start", "toks_extended(self, self0)",
                    "seq(self.tokens)[len(self0.tokens)].index == self0.start"],
    raises=[], props=["C19"])

contract("lex:Lexer.next", mutates=M, requires=INV,
    ensures=KEEP + ["self.start == self0.start", "self.tokens == self0.tokens",
                    "implies(self0.pos < len(self0.query), self.pos == self0.pos + 1 and is_str(result) and len(result) == 1)",
                    "implies(self0.pos >= len(self0.query), self.pos == self0.pos and result == '')"],
    raises=[], props=["C19"])

contract("lex:Lexer.peek", mutates=M, requires=INV,
    ensures=KEEP + ["self.start == self0.start", "self.pos == self0.pos", "self.tokens == self0.tokens",
                    "iff(self0.pos >= len(self0.query), result == '')"],
    raises=[], props=["C19"])

contract("lex:Lexer.ignore", mutates=M, requires=INV,
    ensures=KEEP + ["self.start == self0.pos", "self.pos == self0.pos", "self.tokens == self0.tokens"],
    raises=[], props=["C19"])

contract("lex:Lexer.backup", mutates=M, requires=INV,
    ensures=KEEP + ["self.start == self0.start", "self.pos == self0.pos - 1", "self.tokens == self0.tokens"],
    raises_iff=[("JSONPathSyntaxError", "self.pos <= self.start")],
    raises_ensures=["tok_ok(exc.token, self0.query)", "exc.token.index == self0.pos"],
    props=["C19", "C13"])

contract("lex:Lexer.accept", mutates=M, requires=INV + ["is_str(s)"],
    ensures=KEEP + ["self.start == self0.start", "self.tokens == self0.tokens",
                    "implies(result, self.pos == self0.pos + len(s))", "implies(not result, self.pos == self0.pos)"],
    raises=[], props=["C19"])

contract("lex:Lexer.accept_match", mutates=M, requires=INV + ["is_pattern(pattern)"],
    ensures=KEEP + ["self.start == self0.start", "self.tokens == self0.tokens", "self.pos >= self0.pos",
                    "implies(not result, self.pos == self0.pos)"],
    raises=[], props=["C19"])

contract("lex:Lexer.ignore_whitespace", mutates=M, requires=INV, unfold=["py_eq"],
    ensures=KEEP + ["self.tokens == self0.tokens", "self.pos >= self0.pos", "self.start == self.pos",
                    "implies(not result, self.pos == self0.pos)"],
    raises_iff=[("JSONPathLexerError", "self.pos != self.start")],
    raises_ensures=["tok_ok(exc.token, self0.query)", "exc.token.index == self0.pos"],
    props=["C19", "C13"])

# ---- state functions: each preserves the invariant and only lets lexer errors with an in-range token escape ----------
L = {"l": "Lexer"}
S_REQ = ["lex_inv(l)", "lex_stacks_ok(l)"]
S_ENS = ["lex_inv(l)", "l.query == l0.query", "lex_stacks_ok(l)"]
S_EXC = ["tok_ok(exc.token, l0.query)"]

contract("lex:lex_root", mutates=L, requires=S_REQ, ensures=S_ENS, raises=["JSONPathSyntaxError", "JSONPathLexerError"], raises_ensures=S_EXC, props=["C19", "C13"])

S_INV = ["lex_inv(l)", "l.query == entry_l.query", "lex_stacks_ok(l)"]
for _fn in ("lex_segment", "lex_descendant_segment", "lex_shorthand_selector", "lex_inside_bracketed_segment", "lex_inside_filter"):
    contract("lex:" + _fn, mutates=L, requires=S_REQ, ensures=S_ENS, raises=["JSONPathSyntaxError", "JSONPathLexerError"],
             raises_ensures=S_EXC, unfold=["py_eq"], loops={1: S_INV}, props=["C19", "C13"])

contract("lex:lex_string_factory", trusted=True, requires=[], ensures=[], raises=[], props=["C19"],
    note="builds the closure _lex_string over (quote, state, tt); the closure itself is verified as lex:lex_string_factory.<locals>._lex_string "
         "for every string quote and every token type tt")

contract("lex:lex_string_factory.<locals>._lex_string", mutates=L,
    requires=S_REQ + ["is_str(quote)", "isinstance(tt, TokenType)"], ensures=S_ENS,
    raises=["JSONPathSyntaxError", "JSONPathLexerError"], raises_ensures=S_EXC, unfold=["py_eq"], loops={1: S_INV}, props=["C19", "C13"])

contract("lex:Lexer.run", mutates=M, requires=["lex_inv(self)", "lex_stacks_ok(self)"],
    ensures=["lex_inv(self)", "self.query == self0.query", "lex_stacks_ok(self)"],
    raises=["JSONPathSyntaxError", "JSONPathLexerError"], raises_ensures=["tok_ok(exc.token, self0.query)"],
    loops={1: ["lex_inv(self)", "self.query == entry_self.query", "lex_stacks_ok(self)"]},
    fn_vars={"state": "lex:lex_root"}, props=["C19", "C13"],
    note="the driver loop: `state` always holds one of the state functions, which all carry the contract of lex_root "
         "(pyvc/lexframe.py checks both facts on the AST / the contract registry)")

contract("lex:lex",
    requires=["is_str(query)"],
    ensures=["is_tuple(result) and len(result) == 2", "lex_inv(seq(result)[0])", "lex_stacks_ok(seq(result)[0])", "seq(result)[0].query == query",
             "seq(result)[1] == seq(result)[0].tokens", "seq(result)[0].pos == 0 and len(seq(result)[0].tokens) == 0"],
    raises=[], props=["C19", "C13"])

contract("lex:tokenize",
    requires=["is_str(query)"],
    ensures=["is_arr(result)", "toks_ok(seq(result), query)"],
    raises=["JSONPathSyntaxError", "JSONPathLexerError"], raises_ensures=["tok_ok(exc.token, query)"],
    aliases={"tokens": "lexer.tokens"}, unfold=["py_eq"], props=["C19", "C13"],
    note="`tokens` is the very list object lexer.tokens (lex() returns `lexer, lexer.tokens`; pyvc/lexframe.py checks that and that tokenize "
         "never rebinds it): reads of `tokens` go through lexer.tokens")
