"""Contracts for the expression parser (C05): every expression tree it returns is well formed and WELL TYPED for the
environment (parsed_expr = wf_expr + not the whole-filter wrapper), whatever the token stream contains; only JSONPathError
subclasses escape. The token stream is abstracted: its operations are assumed to keep `ts_inv` (there is a current token)
and nothing else is assumed about WHICH tokens come -- so the result holds for every token sequence, lexer-made or not.
Dispatch through self.token_map / self.function_argument_map is resolved from the dict literals of Parser.__init__
(pyvc/parseframe.py checks that those tables are assigned there and nowhere else)."""
from pyvc.contracts import contract

TS = {"self": "TokenStream"}
ST = {"stream": "TokenStream"}
ERR = ["JSONPathError"]

# ---- token stream: __next__ (iterator-consuming) and peek (needs a call-history fact, DESIGN 0.1) assumed; the rest verified ----
contract("tokens:TokenStream.__next__", trusted=True, mutates=TS, requires=["ts_inv(self)"],
    ensures=["ts_inv(self)", "is_tok(result)", "result == self0.current", "self.current == ts_next(self0)"], raises=[], props=["C05"],
    note="the one primitive that consumes the underlying iterator / pops the push-back store: assumed")
contract("tokens:TokenStream.next_token", mutates=TS, requires=["ts_inv(self)"],
    ensures=["ts_inv(self)", "is_tok(result)", "result == self0.current", "self.current == ts_next(self0)"], raises=[], props=["C05"],
    note="returns the current token and advances to the one `peek` showed (past the end: EOF forever)")
contract("tokens:TokenStream.peek", trusted=True, mutates=TS, requires=["ts_inv(self)"],
    ensures=["ts_inv(self)", "is_tok(result)", "self.current == self0.current", "result == ts_next(self0)", "ts_next(self) == ts_next(self0)"],
    raises=[], props=["C05"], note="the token after the current one; the stream is left as it was")
contract("tokens:TokenStream.push", mutates=TS, requires=["ts_inv(self)", "is_tok(tok)"],
    ensures=["ts_inv(self)", "self.current == tok"], raises=[], props=["C05"])
contract("tokens:TokenStream.expect", mutates=TS, requires=["ts_inv(self)", "all(isinstance(t, TokenType) for t in typ)"],
    ensures=["ts_inv(self)", "self.current == self0.current"],
    raises_iff=[("JSONPathSyntaxError", "not any(self.current.type_ == t for t in typ)")], raises_ensures=["ts_inv(self)"], unfold=["py_eq"], props=["C05"])
contract("tokens:TokenStream.expect_peek", mutates=TS, requires=["ts_inv(self)", "all(isinstance(t, TokenType) for t in typ)"],
    ensures=["ts_inv(self)", "self.current == self0.current"],
    raises_iff=[("JSONPathSyntaxError", "not any(ts_next(self).type_ == t for t in typ)")], raises_ensures=["ts_inv(self)"], props=["C05"])
contract("tokens:TokenStream.expect_peek_not", mutates=TS, requires=["ts_inv(self)", "isinstance(typ, TokenType)"],
    ensures=["ts_inv(self)", "self.current == self0.current"], raises_iff=[("JSONPathSyntaxError", "ts_next(self).type_ == typ")], raises_ensures=["ts_inv(self)"], unfold=["py_eq"], props=["C05"])

P_REQ = ["wf_env(self.env)", "ts_inv(stream)"]
P_ENS = ["parsed_expr(result, self.env)", "ts_inv(stream)"]
P_EXC = ["ts_inv(stream)"]

contract("parse:Parser.parse_boolean", mutates=ST, requires=P_REQ, ensures=P_ENS, raises=ERR, raises_ensures=P_EXC, props=["C05", "C13"])
contract("parse:Parser.parse_null", mutates=ST, requires=P_REQ, ensures=P_ENS, raises=ERR, raises_ensures=P_EXC, props=["C05", "C13"])
contract("parse:Parser.parse_string_literal", mutates=ST, requires=P_REQ, ensures=P_ENS, raises=ERR, raises_ensures=P_EXC, unfold=["tok_text_ok"], props=["C05", "C13"])
contract("parse:Parser.parse_integer_literal", mutates=ST, requires=P_REQ, ensures=P_ENS, raises=ERR, raises_ensures=P_EXC, props=["C05", "C13"])
contract("parse:Parser.parse_float_literal", mutates=ST, requires=P_REQ, ensures=P_ENS, raises=ERR, raises_ensures=P_EXC, props=["C05", "C13"])
contract("parse:Parser._has_leading_zero",
    requires=["is_str(value)"], ensures=["is_bool(result)"], raises=[],
    loops={1: ["is_int(start) and is_int(end)", "start >= 0 and start <= 1", "end >= start", "end <= len(value) or end == start"]},
    props=["C13"], note="totality only (no exception escapes); what it computes is decided by the bounded C03/C04 runs")

# parse_query: the segment parser (bracketed selections, slices, shorthand names) is not under contract yet: assumed to yield
# well-formed segments; it calls back into parse_filter_selector, which is verified below
contract("parse:Parser.parse_query", mutates=ST, requires=P_REQ + ["is_bool(in_filter)"],
    yields=["all(isinstance(s, JSONPathSegment) and s.env == self.env and wf_segment(s, self.env) for s in out)"], ensures=[], raises=ERR,
    raises_ensures=P_EXC, unfold=["wf_segment", "wf_env", "py_eq"],
    loops={1: ["all(isinstance(s, JSONPathSegment) and s.env == self.env and wf_segment(s, self.env) for s in out)", "ts_inv(stream)"]},
    props=["C05", "C13"],
    note="the segment loop: every segment yielded is well formed (its selectors come from parse_selectors)")

TBL = {"self.token_map": "token_map", "self.function_argument_map": "function_argument_map"}
UNF = ["wf_env", "wf_registry", "wf_func", "wf_query", "wf_call_e", "wf_prefix_e", "wf_logical_e", "wf_comparison_e", "wf_filter_e", "py_eq"]

contract("parse:Parser.parse_prefix_expression", mutates=ST, requires=P_REQ + ["stream.current.type_ == TokenType.NOT"],
    ensures=P_ENS, raises=ERR, raises_ensures=P_EXC, unfold=UNF, dispatch=TBL, props=["C05", "C13"])
contract("parse:Parser.parse_infix_expression", mutates=ST,
    requires=P_REQ + ["parsed_expr(left, self.env)"],
    ensures=P_ENS, raises=ERR + ["KeyError"], raises_ensures=P_EXC + ["implies(exc_is(exc, KeyError), not is_binop(stream0.current.type_))"],
    unfold=["wf_comparison_e", "wf_logical_e", "wf_call_e", "wf_env", "wf_registry", "wf_func", "py_eq"],
    dispatch=TBL, props=["C05", "C13"],
    note="KeyError (BINARY_OPERATORS lookup) only when the current token is not a binary operator: its callers either test the token first "
         "or run under the `except KeyError` of parse_filter_expression")
contract("parse:Parser.parse_grouped_expression", mutates=ST, requires=P_REQ, ensures=P_ENS, raises=ERR + ["KeyError"], raises_ensures=P_EXC, unfold=UNF, dispatch=TBL,
    loops={1: ["parsed_expr(expr, self.env)", "ts_inv(stream)"]}, props=["C05", "C13"])
contract("parse:Parser.parse_filter_expression", heavy=True, mutates=ST, requires=P_REQ + ["is_int(precedence)"], ensures=P_ENS, raises=ERR, raises_ensures=P_EXC,
    note="discharged (39 clauses, 0 undecided) but takes 5-9 minutes (12-way table dispatch inside a loop): run in the thorough tier only",
    unfold=UNF, dispatch=TBL, loops={1: ["parsed_expr(left, self.env)", "ts_inv(stream)"]}, props=["C05", "C13"])

contract("parse:Parser.parse_root_query", mutates=ST, requires=P_REQ + ["stream.current.type_ == TokenType.ROOT"],
    ensures=P_ENS, raises=ERR, raises_ensures=P_EXC, unfold=UNF, props=["C05", "C13"])
contract("parse:Parser.parse_relative_query", mutates=ST, requires=P_REQ, ensures=P_ENS, raises=ERR, raises_ensures=P_EXC, unfold=UNF, props=["C05", "C13"])
contract("parse:Parser.parse_function_extension", heavy=True, open_goal=True, mutates=ST, requires=P_REQ, ensures=P_ENS, raises=ERR, raises_ensures=P_EXC, unfold=UNF, dispatch=TBL,
    note="discharged (0 undecided; the goal's predicate applications are opened before skolemisation: open_goal) but takes 9-10 minutes (11-way table dispatch "
         "inside two nested loops): run in the thorough tier only",
    loops={1: ["is_arr(function_arguments)", "all(parsed_expr(a, self.env) for a in seq(function_arguments))", "ts_inv(stream)", "is_tok(tok)"],
           2: ["is_arr(function_arguments)", "all(parsed_expr(a, self.env) for a in seq(function_arguments))", "ts_inv(stream)", "is_tok(tok)",
               "parsed_expr(expr, self.env)", "peek_kind == ts_next(stream).type_"]},
    props=["C05", "C13"])
contract("parse:Parser.parse_filter_selector", mutates=ST, requires=P_REQ,
    ensures=["isinstance(result, FilterSelector)", "wf_selector(result, self.env)", "ts_inv(stream)"], raises=ERR, raises_ensures=P_EXC,
    unfold=UNF + ["wf_selector"], dispatch=TBL, depth=4, props=["C05", "C13"])

# ---- segment / selector parser ----
SEL_ENS = ["is_tuple(result) or is_arr(result)", "wf_selectors(seq(result), self.env)", "ts_inv(stream)"]
contract("parse:Parser.parse_slice", heavy=True, mutates=ST, requires=P_REQ,
    note="discharged (0 undecided) but takes 2-3 minutes: run in the thorough tier only",
    ensures=["isinstance(result, SliceSelector)", "result.env == self.env", "wf_selector(result, self.env)", "ts_inv(stream)"],
    raises=ERR, raises_ensures=P_EXC, unfold=["wf_selector", "wf_env", "tok_text_ok", "py_eq"], props=["C05", "C13"])
contract("parse:Parser.parse_slice.<locals>._maybe_index",
    requires=["is_tok(token)"], ensures=["result == (token.type_ == TokenType.INDEX)"], raises=["JSONPathSyntaxError"], unfold=["py_eq"], props=["C13"])
contract("parse:Parser.parse_bracketed_selection", heavy=True, mutates=ST, requires=P_REQ,
    note="discharged (0 undecided) but takes 5-6 minutes: run in the thorough tier only",
    ensures=["is_arr(result)", "wf_selectors(seq(result), self.env)", "ts_inv(stream)"],
    raises=ERR, raises_ensures=P_EXC, unfold=["wf_selector", "wf_env", "tok_text_ok", "py_eq"],
    loops={1: ["is_arr(selectors)", "wf_selectors(seq(selectors), self.env)", "ts_inv(stream)", "is_tok(tok)"]}, props=["C05", "C13"])
contract("parse:Parser.parse_selectors", mutates=ST, requires=P_REQ,
    ensures=["is_tuple(result)", "wf_selectors(seq(result), self.env)", "ts_inv(stream)"],
    raises=ERR, raises_ensures=P_EXC, unfold=["wf_selector", "wf_env", "py_eq"], props=["C05", "C13"])

Q_YIELDS = ["all(isinstance(s, JSONPathSegment) and s.env == self.env and wf_segment(s, self.env) for s in out)"]

contract("tokens:TokenStream.__init__", requires=["is_arr(token_iter)"], ensures=["ts_inv(self)"], raises=[], unfold=["tok_text_ok", "str_body", "dec_dangling"], props=["C05"],
    note="verified against the assumed contract of __next__; that lexer-made tokens satisfy is_tok (string value, TokenType, integer offset, "
         "and the text guarantees of the lexer's regular expressions) is part of THAT assumption")

contract("parse:Parser.parse", mutates=ST, requires=P_REQ,
    yields=["all(isinstance(s, JSONPathSegment) and s.env == self.env and wf_segment(s, self.env) for s in out)"], ensures=[], raises=ERR,
    raises_ensures=P_EXC, unfold=["py_eq"], props=["C05", "C13"])
