"""Contracts for filter_expressions.py and function_extensions (C02, C06, C10, C13)"""
from pyvc.contracts import contract

EV_REQ = ["wf_ctx(context)", "det(context.env)", "wf_expr(self, context.env)"]

EV_ENS = ["result == eval_expr(self, context)", "eval_typed(self, context.env, result)"]

contract("filter_expressions:Expression.evaluate", abstract=True,
    requires=["isinstance(self, Expression)"] + EV_REQ,
    ensures=EV_ENS,
    raises=["JSONPathError"], props=["C02", "C06", "C10", "C13"],
    note="eval_typed: the typing half of the contract (a test evaluates to a nodelist or a bool, a comparand to a value / Nothing / "
         "a nodelist with at most one well-formed node); every override proves it, callers rely on it")

contract("filter_expressions:_is_truthy",
    requires=["is_nodelist(obj) or is_bool(obj)"],
    ensures=["result == truth_of(obj)"], raises=[], props=["C02"],
    note="operands of tests are nodelists or LogicalType results in well-typed queries (wf_expr: logical_typed)")

contract("filter_expressions:FilterExpression.evaluate",
    requires=EV_REQ, unfold=["wf_filter_e", "eval_filter", "is_json"],
    ensures=EV_ENS, raises=["JSONPathError"], props=["C02", "C13"])

contract("filter_expressions:FilterExpressionLiteral.evaluate",
    requires=["isinstance(self, FilterExpressionLiteral)", "wf_ctx(_)", "wf_expr(self, _.env)"], unfold=["is_json"],
    ensures=["result == eval_expr(self, _)", "eval_typed(self, _.env, result)"], raises=[], props=["C02", "C06"])

contract("filter_expressions:PrefixExpression.evaluate",
    requires=EV_REQ, unfold=["wf_prefix_e", "eval_prefix", "is_json"],
    ensures=EV_ENS, raises=["JSONPathError"], props=["C02", "C13"])

contract("filter_expressions:LogicalExpression.evaluate",
    requires=EV_REQ, unfold=["wf_logical_e", "eval_logical", "is_json"],
    ensures=EV_ENS, raises=["JSONPathError"], props=["C02", "C13"])

contract("filter_expressions:ComparisonExpression.evaluate",
    requires=EV_REQ, unfold=["wf_comparison_e", "eval_comparison", "is_json"],
    ensures=EV_ENS, raises=["JSONPathError"], props=["C06", "C02", "C13"])

LEM_REL = [("singular_at_most_one", {"segments": "seq(self.query.segments)",
                                     "nodes": "[Node(context.current, mk_tuple([]), context.root)]", "k": "len(self.query.segments)"})]
LEM_ROOT = [("singular_at_most_one", {"segments": "seq(self.query.segments)",
                                      "nodes": "[root_node(context.root)]", "k": "len(self.query.segments)"})]

contract("filter_expressions:RelativeFilterQuery.evaluate",
    requires=EV_REQ, unfold=["eval_relative", "wf_query", "wf_ctx"], lemmas=LEM_REL,
    ensures=EV_ENS,
    loops={1: ["wf_nodes(nodes)",
               "implies(no_pending(nodes), seq(nodes) == apply_segments(seq(self.query.segments), [Node(context.current, mk_tuple([]), context.root)], i1))"]},
    raises=["JSONPathError"], props=["C02", "C10", "C13"])

contract("filter_expressions:RootFilterQuery.evaluate",
    requires=EV_REQ, unfold=["eval_root", "wf_ctx", "wf_query"], lemmas=LEM_ROOT,
    ensures=EV_ENS,
    raises=["JSONPathError"], props=["C02", "C13"])

_TYPES = "seq(get(context.env.function_extensions, str_of(self.name)).arg_types)"
_VALS = "map_eval_expr(seq(self.args), context, len(self.args))"

contract("filter_expressions:FunctionExtension.evaluate",
    requires=EV_REQ, unfold=["wf_call_e", "eval_call", "wf_ctx", "wf_env", "wf_registry", "wf_func", "conv_arg", "all_wf_nodes", "value_typed", "logical_typed", "nodes_typed", "is_json"],
    hide=["value_typed", "logical_typed", "nodes_typed", "all_wf_nodes"], depth=4,
    lemmas=[("map_eval_expr_nth", {"exprs": "seq(self.args)", "ctx": "context", "k": "len(self.args)"}),
            ("conv_vals_nth", {"types": _TYPES, "vals": _VALS, "k": "len(self.args)"})],
    ensures=EV_ENS, raises=["JSONPathError"], props=["C10", "C13"])

contract("filter_expressions:FunctionExtension._unpack_node_lists",
    requires=["wf_func(func)", "is_arr(args)", "len(args) == len(func.arg_types)",
              "all(implies(is_nodelist(seq(args)[j]), all_wf_nodes(seq(seq(args)[j]))) for j in range(len(args)))",
              "all(implies(is_nodelist(seq(args)[j]) and seq(func.arg_types)[j] == ExpressionType.VALUE, len(seq(args)[j]) <= 1) for j in range(len(args)))"],
    unfold=["wf_func", "conv_arg", "conv_vals"],
    ensures=["result == mk_list(conv_vals(seq(func.arg_types), seq(args), len(args)))"],
    loops={1: ["is_arr(_args)", "_args == mk_list(conv_vals(seq(func.arg_types), seq(args), i1))"]},
    raises=[], props=["C10"],
    note="a ValueType argument that is a nodelist comes from a singular query (<= 1 node): established by the caller from eval_typed")

contract("filter_expressions:_compare", unfold=["rfc_compare"],
    requires=["is_str(operator)",
              "implies(str_of(operator) == '&&' or str_of(operator) == '||', (is_nodelist(left) or is_bool(left)) and (is_nodelist(right) or is_bool(right)))",
              "implies(not (str_of(operator) == '&&' or str_of(operator) == '||'), is_cmp_arg(left) and is_cmp_arg(right))"],
    ensures=["implies(str_of(operator) == '&&', result == (truth_of(left) and truth_of(right)))",
             "implies(str_of(operator) == '||', result == (truth_of(left) or truth_of(right)))",
             "implies(not (str_of(operator) == '&&' or str_of(operator) == '||'), result == rfc_compare(comparand(left), str_of(operator), comparand(right)))"],
    raises=[], props=["C06", "C02"])

contract("filter_expressions:_eq",
    requires=["is_cmp_arg(left)", "is_cmp_arg(right)"], unfold=["is_json", "rfc_eq", "py_eq"],
    ensures=["result == cmp_eq(comparand(left), comparand(right))"],
    loops={1: ["is_arr(left) and is_arr(right) and len(left) == len(right) and is_json(left) and is_json(right)",
               "all(rfc_eq(seq(left)[j], seq(right)[j]) for j in range(i1))"],
           2: ["is_obj(left) and is_obj(right) and nkeys(left) == nkeys(right) and is_json(left) and is_json(right)",
               "all(has_key(right, key_at(left, j)) and rfc_eq(val_at(left, j), get(right, key_at(left, j))) for j in range(i2))"]},
    raises=[], props=["C06"])

contract("filter_expressions:_lt",
    requires=["is_cmp_arg(left)", "is_cmp_arg(right)"], unfold=["is_json"],
    ensures=["result == cmp_lt(comparand(left), comparand(right))"], raises=[], props=["C06"])

contract("filter_expressions:Nothing.__eq__",
    requires=[],
    ensures=["result == (is_nothing(other) or (is_nodelist(other) and len(other) == 0))"], raises=[], props=["C06"])

contract("node:JSONPathNodeList.empty",
    requires=[], ensures=["result == (len(self) == 0)"], raises=[], props=["C06"])

contract("function_extensions.filter_function:FilterFunction.__call__", abstract=True,
    requires=["wf_func(self)", "call_ok(self, args)"],
    ensures=["result == call_func(self, args)", "result_has_type(self.return_type, result)"],
    raises=[], props=["C10", "C13"],
    note="A8: registered functions honour their declared types, do not raise and do not mutate their arguments")

contract("function_extensions.length:Length.__call__",
    requires=["is_operand(obj)"], unfold=["is_json", "call_func"],
    ensures=["result == rfc_length(obj)", "result == call_func(self, [obj])", "result_has_type(ExpressionType.VALUE, result)"],
    raises=[], props=["C10", "C13"])

contract("function_extensions.count:Count.__call__",
    requires=["is_nodelist(node_list)"], unfold=["call_func", "is_json"],
    ensures=["result == len(node_list)", "result == call_func(self, [node_list])", "result_has_type(ExpressionType.VALUE, result)"],
    raises=[], props=["C10"])

contract("function_extensions.value:Value.__call__",
    requires=["is_nodelist(nodes)", "all_wf_nodes(seq(nodes))"], unfold=["call_func"],
    ensures=["result == rfc_value(nodes)", "result == call_func(self, [nodes])", "result_has_type(ExpressionType.VALUE, result)"],
    raises=[], props=["C10"])
