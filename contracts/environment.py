"""Contracts for environment.py (C05, C15) and the typing helpers of parse.py"""
from pyvc.contracts import contract

contract("environment:JSONPathEnvironment.compile", trusted=True,
    requires=["wf_env(self)", "is_str(query)"],
    defines=["result == compile_outcome(self, query)"],
    ensures=["isinstance(result, JSONPathQuery)", "result.env == self", "wf_query(result, self)"],
    raises=["JSONPathError"], props=["C03", "C04", "C05", "C13"],
    note="compile(q) = JSONPathQuery(env=self, segments=tuple(self.parser.parse(TokenStream(tokenize(q))))). Its three stages are under contract: "
         "tokenize (verified: only lexer errors escape, every token lies in the text), Parser.parse and everything below it (verified: every segment, "
         "selector and expression it builds is well formed and well typed for the PARSER's environment; assumptions listed in contracts/parser.py). "
         "What stays assumed here is the step the value universe cannot express: the environment and its parser refer to each other "
         "(env.parser.env is env), an object cycle that algebraic datatypes exclude -- so `wf_query(result, self)` is assumed from "
         "`wf_query(result, self.parser.env)`; plus: compile is a function of (environment, text) [C14 frame contracts]. That the tree is the "
         "RFC's reading of the text is the bounded tie-in (bounded/reftree.py).")

for m, spec in (("find", "find"), ("finditer", "finditer"), ("find_one", "find_one")):
    pass

contract("environment:JSONPathEnvironment.find",
    requires=["wf_env(self)", "is_str(query)", "is_json(value)"],
    ensures=["result == NodeList(seq(finditer_outcome(compile_outcome(self, query), value)))"],
    raises=["JSONPathError"], props=["C15"])

contract("environment:JSONPathEnvironment.finditer",
    requires=["wf_env(self)", "is_str(query)", "is_json(value)"],
    ensures=["result == finditer_outcome(compile_outcome(self, query), value)"],
    raises=["JSONPathError"], props=["C15"])

contract("environment:JSONPathEnvironment.find_one",
    requires=["wf_env(self)", "is_str(query)", "is_json(value)"],
    ensures=["implies(len(seq(finditer_outcome(compile_outcome(self, query), value))) > 0, result == seq(finditer_outcome(compile_outcome(self, query), value))[0])",
             "implies(len(seq(finditer_outcome(compile_outcome(self, query), value))) == 0, is_none(result))"],
    raises=["JSONPathError"], props=["C15"])

contract("environment:JSONPathEnvironment._function_return_type",
    requires=["wf_env(self)", "isinstance(expr, Expression)", "implies(isinstance(expr, FunctionExtension), is_str(expr.name))"],
    unfold=["wf_env", "wf_registry", "wf_func"],
    ensures=["result == func_return(expr, self)"], raises=[], props=["C05"])

contract("environment:JSONPathEnvironment.check_well_typedness",
    requires=["wf_env(self)", "wf_func(func)", "is_arr(args)",
              "all(isinstance(a, Expression) and wf_expr(a, self) and not isinstance(a, FilterExpression) for a in seq(args))",
              "isinstance(token, Token)"],
    unfold=["wf_func", "wf_query", "wf_env", "wf_registry", "wf_call_e"], hide=["singular"],
    note="FilterExpression is the wrapper of a whole filter selector (built in parse_filter_selector only), never an argument",
    raises_iff=[("JSONPathTypeError",
                 "len(args) != len(func.arg_types) or any(not arg_ok(seq(func.arg_types)[j], seq(args)[j], self) for j in range(len(args)))")],
    loops={1: ["len(args) == len(func.arg_types)", "all(arg_ok(seq(func.arg_types)[j], seq(args)[j], self) for j in range(i1))"]},
    props=["C05"])

contract("environment:JSONPathEnvironment.validate_function_extension_signature",
    requires=["wf_env(self)", "isinstance(token, Token)", "is_str(token.value)", "is_arr(args)",
              "all(isinstance(a, Expression) and wf_expr(a, self) and not isinstance(a, FilterExpression) for a in seq(args))"],
    unfold=["wf_env", "wf_registry"],
    ensures=["result == args"],
    raises_iff=[("JSONPathNameError", "not has_key(self.function_extensions, str_of(token.value))"),
                ("JSONPathTypeError", "has_key(self.function_extensions, str_of(token.value)) and (len(args) != len(get(self.function_extensions, str_of(token.value)).arg_types) or any(not arg_ok(seq(get(self.function_extensions, str_of(token.value)).arg_types)[j], seq(args)[j], self) for j in range(len(args))))")],
    props=["C05"])

contract("parse:Parser._raise_for_non_comparable_function",
    requires=["wf_env(self.env)", "isinstance(expr, Expression)", "wf_expr(expr, self.env)", "isinstance(token, Token)"],
    unfold=["wf_env", "wf_registry", "wf_func", "wf_query", "wf_call_e"],
    raises_iff=[("JSONPathSyntaxError", "isinstance(expr, PrefixExpression) or isinstance(expr, LogicalExpression) or isinstance(expr, ComparisonExpression)"),
                ("JSONPathTypeError", "not (isinstance(expr, PrefixExpression) or isinstance(expr, LogicalExpression) or isinstance(expr, ComparisonExpression)) and ((isinstance(expr, FilterQuery) and not singular(seq(expr.query.segments), len(expr.query.segments))) or (isinstance(expr, FunctionExtension) and has_key(self.env.function_extensions, str_of(expr.name)) and not (func_return(expr, self.env) == ExpressionType.VALUE)))")],
    props=["C05"])

contract("parse:Parser._raise_for_uncompared_function",
    requires=["wf_env(self.env)", "isinstance(expr, Expression)", "wf_expr(expr, self.env)", "isinstance(token, Token)"],
    unfold=["wf_env", "wf_registry", "wf_func", "wf_call_e"],
    raises_iff=[("JSONPathTypeError", "isinstance(expr, FunctionExtension) and has_key(self.env.function_extensions, str_of(expr.name)) "
                                      "and func_return(expr, self.env) == ExpressionType.VALUE")],
    props=["C05"],
    note="a ValueType function call used as a test (not compared) is rejected")
