"""Contracts for jsonpath_rfc9535/selectors.py"""
from pyvc.contracts import contract

WF_NODE = ["wf_node(node)"]

contract("node:JSONPathNode.new_child",
    requires=["isinstance(self, JSONPathNode)", "is_tuple(self.location)"],
    ensures=["result == Node(value, mk_tuple(seq(self.location) + [key]), self.root)"],
    raises=[], props=["C01", "C08", "C14"])

contract("selectors:IndexSelector._normalized_index",
    requires=["isinstance(self, IndexSelector)", "is_int(self.index)", "is_arr(obj)"],
    ensures=["result == (len(obj) + self.index if self.index < 0 and len(obj) >= 0 - self.index else self.index)"],
    raises=[], props=["C07", "C08"])

contract("selectors:JSONPathSelector.resolve",
    requires=["isinstance(self, JSONPathSelector)", "wf_env(self.env)", "wf_selector(self, self.env)"] + WF_NODE,
    yields=["implies(not truthy(self.env.nondeterministic), out == select(self, node))", "all(wf_node(n) for n in out)"],
    raises=["JSONPathError"], props=["C01", "C02"], abstract=True)

contract("selectors:IndexSelector.resolve",
    requires=["isinstance(self, IndexSelector)", "is_int(self.index)"] + WF_NODE, unfold=["is_json"],
    yields=["out == sel_index(node, self.index)", "all(wf_node(n) for n in out)"],
    raises=[], props=["C07", "C08", "C01"])

contract("selectors:SliceSelector.resolve",
    requires=["isinstance(self, SliceSelector)", "wf_slice(self.slice)"] + WF_NODE, unfold=["is_json"],
    yields=["out == sel_slice(node, self.slice.start, self.slice.stop, self.slice.step)", "all(wf_node(n) for n in out)"],
    loops={1: ["out == slice_prefix(node, self.slice.start, self.slice.stop, slice_step(self.slice.step), i1)", "all(wf_node(n) for n in out)"]},
    raises=[], props=["C07", "C08", "C01"])

contract("selectors:NameSelector.resolve",
    requires=["isinstance(self, NameSelector)", "is_str(self.name)"] + WF_NODE, unfold=["is_json"],
    yields=["out == sel_name(node, str_of(self.name))", "all(wf_node(n) for n in out)"],
    raises=[], props=["C01", "C08"])

DET = "not truthy(self.env.nondeterministic)"

contract("selectors:WildcardSelector.resolve",
    requires=["isinstance(self, WildcardSelector)", "wf_env(self.env)"] + WF_NODE, unfold=["is_json", "wf_env"],
    yields=["implies(not truthy(self.env.nondeterministic), out == sel_wild(node))",
            "all(wf_node(n) for n in out)"],
    loops={1: ["implies(not truthy(self.env.nondeterministic), out == wild_prefix(node, i1))", "all(wf_node(n) for n in out)"],
           2: ["out == wild_prefix(node, i2)", "all(wf_node(n) for n in out)"]},
    raises=[], props=["C01", "C08", "C17"])

contract("selectors:FilterSelector.resolve",
    requires=["isinstance(self, FilterSelector)", "wf_env(self.env)", "det(self.env)", "wf_selector(self, self.env)"] + WF_NODE,
    unfold=["wf_selector", "is_json", "wf_env", "wf_ctx"],
    yields=["out == sel_filter(self.expression, self.env, node)", "all(wf_node(n) for n in out)"],
    loops={1: ["out == filter_prefix(self.expression, self.env, node, i1)", "all(wf_node(n) for n in out)"],
           2: ["out == filter_prefix(self.expression, self.env, node, i2)", "all(wf_node(n) for n in out)"]},
    raises=["JSONPathError"], props=["C02", "C13"],
    note="verified for deterministic mode (requires det): in nondeterministic mode the filter selector's part of the abstract "
         "selector contract (outputs are well-formed nodes, only JSONPathError escapes) is assumed and decided by the bounded C17 run")

contract("selectors:IndexSelector.__init__",
    requires=["wf_env(env)", "is_int(index)"], unfold=["wf_env"],
    raises_iff=[("JSONPathIndexError", "index < env.min_int_index or index > env.max_int_index")],
    props=["C05"])

contract("selectors:SliceSelector._check_range",
    requires=["isinstance(self, SliceSelector)", "wf_env(self.env)", "all(is_none(x) or is_int(x) for x in indices)"], unfold=["wf_env"],
    raises_iff=[("JSONPathIndexError", "any(not is_none(x) and (int_of(x) < self.env.min_int_index or int_of(x) > self.env.max_int_index) for x in indices)")],
    loops={1: ["all(is_none(indices[j]) or not (int_of(indices[j]) < self.env.min_int_index or int_of(indices[j]) > self.env.max_int_index) for j in range(i1))"]},
    props=["C05", "C07"])
