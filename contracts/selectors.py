"""Contracts for jsonpath_rfc9535/selectors.py"""
from pyvc.contracts import contract

WF_NODE = ["wf_node(node)"]

contract("node:JSONPathNode.new_child",
    requires=["isinstance(self, JSONPathNode)", "is_tuple(self.location)"],
    ensures=["result == Node(value, mk_tuple(seq(self.location) + [key]), self.root)"],
    raises=[], props=["C01", "C08", "C14"])

contract("selectors:IndexSelector._normalized_index",
    requires=["isinstance(self, IndexSelector)", "is_int(self.index)", "is_arr(obj)"],
    ensures=["result == (len(obj) + self.index if self.index < 0 and len(obj) >= 0 - self.index else self.index)"],
    raises=[], props=["C07", "C08"])

contract("selectors:JSONPathSelector.resolve",
    requires=["isinstance(self, JSONPathSelector)", "wf_selector(self)"] + WF_NODE,
    yields=["out == select(self, node)"],
    raises=["JSONPathTypeError", "JSONPathRecursionError"], props=["C01", "C02"])

contract("selectors:IndexSelector.resolve",
    requires=["isinstance(self, IndexSelector)", "is_int(self.index)"] + WF_NODE,
    yields=["out == sel_index(node, self.index)"],
    raises=[], props=["C07", "C08", "C01"])

contract("selectors:SliceSelector.resolve",
    requires=["isinstance(self, SliceSelector)", "wf_slice(self.slice)"] + WF_NODE,
    yields=["out == sel_slice(node, self.slice.start, self.slice.stop, self.slice.step)"],
    loops={1: ["out == slice_prefix(node, self.slice.start, self.slice.stop, slice_step(self.slice.step), i1)"]},
    raises=[], props=["C07", "C08", "C01"])

contract("selectors:NameSelector.resolve",
    requires=["isinstance(self, NameSelector)", "is_str(self.name)"] + WF_NODE,
    yields=["out == sel_name(node, str_of(self.name))"],
    raises=[], props=["C01", "C08"])
